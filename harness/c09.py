"""C09 — faults arrive intact, are classified correctly and never leak internals.

T1: behaviour switches + constants measured on the real code -> SpyneModel/Generated/Facts09.lean
Proof: Props/C09.lean (instantiated with the regenerated facts)
T2: model-vs-implementation: status table, funnel state (ctx.out_error / ctx.out_object), the whole WSGI
    response (status + canonical body tree) under every output protocol, reference decoder, spyne SOAP clients
T3: the property itself on the real code (real Application / WsgiApplication / protocols / RemoteProcedureBase),
    including the search of the entire response for secret tokens carried by non-Fault exceptions.
"""
import io
import json
import logging
import os
import string
import sys

from . import core

NS11 = 'http://schemas.xmlsoap.org/soap/envelope/'
NS12 = 'http://www.w3.org/2003/05/soap-envelope'

PROTOS = ['xml', 'soap11', 'soap12', 'json', 'jsonlist', 'yaml', 'msgpack', 'msgpackrpc', 'http', 'soap11pp', 'jsontuple']
MODEL_PROTO = {'xml': 'xml', 'soap11': 'soap11', 'soap11pp': 'soap11', 'soap12': 'soap12', 'json': 'dict',
               'jsonlist': 'list', 'jsontuple': 'list', 'yaml': 'dict', 'msgpack': 'dict', 'msgpackrpc': 'msgpackrpc', 'http': 'http'}
XMLISH = ('xml', 'soap11', 'soap11pp', 'soap12')
SHAPES = ['m_str', 'm_void', 'm_multi', 'm_obj', 'm_arr', 'm_bare', 'm_gen']
MRPC = 'Rec.act'      # an @mrpc member method of a ComplexModel (Application.call_wrapper's second half)
# the HttpRpc in-protocol used for the GET requests cannot deserialise a bare Unicode parameter (not C09's concern)
WSGI_SHAPES = [s for s in SHAPES if s != 'm_bare'] + [MRPC]
HOOK_SITES = ['call', 'return_object']
FID_HOOK = 'funnel:listener-outside-try'
FID_SWAP = 'wsgi:status-from-configured-protocol'
FID_ACTOR_NONE = 'xml:faultactor-none'
SWAPPABLE = ['xml', 'soap11', 'soap12', 'json', 'jsonlist', 'yaml', 'msgpack', 'msgpackrpc', 'http']

# root-cause finding ids (shared by the T1 switch witnesses and the T3 oracle)
FID_GEN_FIRST = 'wsgi:generator-first-next-unguarded'
FID_SER_ERR = 'wsgi:exception-while-serialising'
FID_S12_DETAIL = 'soap12:detail-dict-not-single-root'
FID_C12_NS = 'client12:needs-soap-prefix'
FID_C12_STRIP = 'client12:reason-stripped'
FID_HTTP_DETAIL = 'httprpc:detail-dropped'
FID_MPRPC_CLIENT = 'client-msgpackrpc:error-frame-rejected'
FID_PRESET = 'wsgi:error-path-overrides-status'


def cps(s):
    # code points for the model; a lone surrogate is not a Lean `Char`: it travels as U+FFFD (only the XML
    # protocols are given such text, and they write U+FFFD for it; the T3 oracle works on the Python strings)
    return [(0xFFFD if 0xD800 <= ord(c) <= 0xDFFF else ord(c)) for c in s]


def xml_text_spec(s):
    """specification: what an XML protocol delivers for a text — every character outside XML 1.0's Char production
    (C0 controls but TAB/LF/CR, lone surrogates, U+FFFE, U+FFFF) as U+FFFD, everything else unchanged"""
    ok = lambda n: n in (9, 10, 13) or 0x20 <= n <= 0xD7FF or 0xE000 <= n <= 0xFFFD or 0x10000 <= n <= 0x10FFFF
    return ''.join(c if ok(ord(c)) else '\ufffd' for c in s)


def uncps(l):
    return ''.join(chr(c) for c in l)


# ------------------------------------------------------------------------------------ implementation side
class Impl:
    """Real spyne objects: one Application + WsgiApplication per output protocol, a service whose
    methods execute the current plan (BOX)."""

    def __init__(self):
        logging.disable(logging.CRITICAL)
        from spyne import Application, rpc, mrpc, Service, Unicode, Integer, Iterable, Array, ComplexModel
        from spyne.auxproc.sync import SyncAuxProc
        from spyne import RemoteService, ClientBase, RemoteProcedureBase
        from spyne.model.fault import Fault
        from spyne import error as E
        from spyne.protocol.xml import XmlDocument
        from spyne.protocol.soap import Soap11, Soap12
        from spyne.protocol.json import JsonDocument
        from spyne.protocol.yaml import YamlDocument
        from spyne.protocol.msgpack import MessagePackDocument, MessagePackRpc
        from spyne.protocol.http import HttpRpc
        from spyne.server.wsgi import WsgiApplication
        import spyne.application
        self.Fault, self.E, self.appmod = Fault, E, spyne.application
        self.box = box = {'plan': None, 'ctx': None, 'snap': None}
        self._subs = {}
        impl = self

        class Obj(ComplexModel):
            __namespace__ = 'tns'
            s = Unicode
            i = Integer

        def run_step(ctx, step, conv):
            box['ctx'] = ctx
            plan = box['plan']
            if plan.get('preset'):
                ctx.transport.resp_code = plan['preset']
            if plan.get('swap') and plan.get('swap_at') != 'listener':
                ctx.out_protocol = impl.mk[plan['swap']]()     # per-request output protocol
            if 'value' in step:
                return conv(step['value'])
            raise impl.build_exception(ctx, step['raises'])

        def body(ctx, conv):
            u = box['plan']['user']
            return run_step(ctx, u['plain'] if 'plain' in u else u['hook'][3], conv)

        def make_listener(site, level):
            def listener(ctx):
                plan = box['plan']
                h = plan['user'].get('hook') if plan else None
                if ctx.descriptor is not None and ctx.descriptor.aux is not None:
                    return
                if h and h[0] == site and h[1] == level:
                    box['ctx'] = ctx
                    if plan.get('preset'):
                        ctx.transport.resp_code = plan['preset']
                    raise impl.build_exception(ctx, h[2])
            return listener

        def swap_listener(ctx):
            plan = box['plan']
            if plan and plan.get('swap') and plan.get('swap_at') == 'listener':
                ctx.out_protocol = impl.mk[plan['swap']]()

        class S(Service):
            @rpc(Unicode, _returns=Unicode)
            def m_str(ctx, a):
                return body(ctx, lambda v: v)

            @rpc()
            def m_void(ctx):
                return body(ctx, lambda v: None)

            @rpc(Unicode, _returns=[Integer, Unicode])
            def m_multi(ctx, a):
                return body(ctx, lambda v: (7, v))

            @rpc(Unicode, _returns=Obj)
            def m_obj(ctx, a):
                return body(ctx, lambda v: Obj(s=v, i=7))

            @rpc(Unicode, _returns=Array(Unicode))
            def m_arr(ctx, a):
                return body(ctx, lambda v: [v, v])

            @rpc(Unicode, _returns=Unicode, _body_style='bare')
            def m_bare(ctx, a):
                return body(ctx, lambda v: v)

            @rpc(_returns=Unicode, _body_style='bare')
            def m_empty(ctx):
                return body(ctx, lambda v: v)

            @rpc(_body_style='bare')
            def m_empty0(ctx):
                return body(ctx, lambda v: None)

            @rpc(Unicode, _returns=Iterable(Unicode))
            def m_gen(ctx, a):
                first, later = box['plan']['user']['gen']
                yield run_step(ctx, first, lambda v: v)
                if later is not None:
                    raise impl.build_exception(ctx, later)
                yield 'tail'

        class Rec(ComplexModel):
            __namespace__ = 'tns'
            i = Integer

            @mrpc(Unicode, _returns=Unicode)
            def act(self, ctx, a):
                return body(ctx, lambda v: v)

        class Aux(Service):
            # an auxiliary method bound to m_str: runs after the primary one, also when that one failed
            @rpc(Unicode, _returns=Unicode, _aux=SyncAuxProc(process_exceptions=True))
            def m_str(ctx, a):
                plan = box['plan']
                if plan and plan.get('aux'):
                    if plan['aux'].get('unserialisable'):
                        return Unserialisable(plan['aux']['tokens'][0])     # makes the auxiliary get_out_string raise
                    raise build_other(plan['aux'])
                return 'aux'

        self.Rec, self.Aux = Rec, Aux
        self.S = S
        for site in HOOK_SITES:
            S.event_manager.add_listener('method_' + site, make_listener(site, 'service'))
        self.make_listener = make_listener
        mk = {'xml': XmlDocument, 'soap11': Soap11, 'soap12': Soap12, 'json': JsonDocument,
              'jsonlist': lambda: JsonDocument(complex_as=list), 'jsontuple': lambda: JsonDocument(complex_as=tuple), 'yaml': YamlDocument, 'msgpack': MessagePackDocument,
              'msgpackrpc': MessagePackRpc, 'http': HttpRpc, 'soap11pp': lambda: Soap11(pretty_print=True)}
        self.mk = mk
        self.apps, self.wsgi, self.protos = {}, {}, {}
        for n in PROTOS:
            out = mk[n]()
            app = Application([S, Aux], 'tns', name='App' + n, in_protocol=HttpRpc(), out_protocol=out, classes=[Rec])
            app.event_manager.add_listener('method_call', swap_listener)
            for site in HOOK_SITES:
                app.event_manager.add_listener('method_' + site, make_listener(site, 'application'))
            for ev in ('method_return_object', 'method_exception_object', 'method_redirect', 'method_redirect_exception'):
                app.event_manager.add_listener(ev, self._snap)
            self.apps[n] = app
            self.protos[n] = out
            self.wsgi[n] = WsgiApplication(app)
        # same-protocol applications for the loopback clients
        self.loop = {}
        for n in ('soap11', 'soap12', 'msgpackrpc'):
            app = Application([S], 'tns', name='Loop' + n, in_protocol=mk[n](), out_protocol=mk[n]())
            for site in HOOK_SITES:
                app.event_manager.add_listener('method_' + site, make_listener(site, 'application'))
            for ev in ('method_return_object', 'method_exception_object', 'method_redirect', 'method_redirect_exception'):
                app.event_manager.add_listener(ev, self._snap)
            w = WsgiApplication(app)

            class _RP(RemoteProcedureBase):
                def __call__(rp, *args, **kwargs):
                    rp.ctx, = rp.contexts
                    rp.get_out_object(rp.ctx, args, kwargs)
                    rp.get_out_string(rp.ctx)
                    data = b''.join(rp.ctx.out_string)
                    rp.http = impl.call_wsgi(rp.url, 'POST', '/', '', data, rp.app.out_protocol.mime_type)
                    if 'escaped' in rp.http:
                        return rp
                    rp.ctx.in_string = [rp.http['body']]
                    rp.get_in_object(rp.ctx)
                    return rp

            class LoopClient(ClientBase):
                def __init__(c, url, app, _RP=_RP):
                    ClientBase.__init__(c, url, app)
                    c.service = RemoteService(_RP, url, app)

            self.loop[n] = (app, w, LoopClient)
        # fault classes: built-in and generated subclasses
        ded = {'tooLong': E.RequestTooLongError, 'notFound': E.ResourceNotFoundError,
               'notAllowed': E.RequestNotAllowed, 'invalidCred': E.InvalidCredentialsError}
        self.ded = ded
        C = {'Fault': Fault, 'RequestTooLongError': E.RequestTooLongError, 'ResourceNotFoundError': E.ResourceNotFoundError,
             'RequestNotAllowed': E.RequestNotAllowed, 'InvalidCredentialsError': E.InvalidCredentialsError,
             'RespawnError': E.RespawnError, 'ArgumentError': E.ArgumentError, 'InvalidInputError': E.InvalidInputError,
             'MissingFieldError': E.MissingFieldError, 'ValidationError': E.ValidationError, 'InternalError': E.InternalError,
             'ResourceAlreadyExistsError': E.ResourceAlreadyExistsError}
        class MemFault(Fault):
            __namespace__ = 'tns'
            extra = Unicode
            num = Integer

        class MemFault2(MemFault):
            __namespace__ = 'tns'
            more = Unicode
        C['MemFault'], C['MemFault2'] = MemFault, MemFault2
        C['GenFault'] = type('GenFault', (Fault,), {})
        C['GenGenFault'] = type('GenGenFault', (C['GenFault'],), {})
        for k, base in ded.items():
            C['Gen_' + k] = type('Gen_' + k, (base,), {})
            C['GenGen_' + k] = type('GenGen_' + k, (C['Gen_' + k],), {'__doc__': 'second level'})
        ks = list(ded)
        for i, a in enumerate(ks):
            for b in ks:
                if a != b:
                    C['Multi_%s_%s' % (a, b)] = type('Multi_%s_%s' % (a, b), (ded[a], ded[b]), {})
        C['Multi_ArgumentError_notFound'] = type('Multi_ArgumentError_notFound', (E.ArgumentError, E.ResourceNotFoundError), {})
        self.classes = C

        class OkRedirect(E.Redirect):
            def do_redirect(self):
                pass
        self.OkRedirect = OkRedirect

    # ---- event listener: the state right after Application.process_request's ladder
    def _snap(self, ctx):
        # the state at the end of process_request's ladder: the first funnel event, or the exception event that
        # follows a method_return_object event when a later (service level) listener of that event raised
        if ctx.descriptor is not None and ctx.descriptor.aux is not None:
            return          # the context of an auxiliary method
        prev = self.box['snap']
        if prev is None or (prev[1] is None and prev[0] != 'generator' and ctx.out_error is not None):
            self.box['snap'] = (self.out_object_kind(ctx.out_object), ctx.out_error)

    @staticmethod
    def out_object_kind(o):
        import inspect
        if o is None:
            return 'unset'
        if isinstance(o, (list, tuple)) and len(o) == 1 and inspect.isgenerator(o[0]):
            return 'generator'
        if isinstance(o, (list, tuple)) and len(o) == 1 and o[0] is None:
            return 'nonelist'
        return 'value'

    def cls_flags(self, inst):
        return [isinstance(inst, self.ded[k]) for k in ('tooLong', 'notFound', 'notAllowed', 'invalidCred')]

    # ---- building what the user code raises
    def build_fault(self, spec):
        cls = self.classes[spec['cls']]
        inst = cls.__new__(cls)
        self.Fault.__init__(inst, spec['code'], spec['str'], spec.get('actor', ''), spec.get('detail'))
        for k in (cls.get_flat_type_info(cls) if getattr(cls, '_type_info', None) is not None else {}):
            setattr(inst, k, None)
        for k, v in (spec.get('members') or {}).items():
            setattr(inst, k, v)
        return inst

    def build_exception(self, ctx, r):
        if 'fault' in r:
            return self.build_fault(r['fault'])
        if 'native' in r:
            # a built-in error class (or a generated subclass that overrides CODE with a sub-code) raised through
            # its own constructor
            cls, args = r['native'][0], [tuple(a) if isinstance(a, list) else a for a in r['native'][1]]   # (replays: JSON lists)
            sub = r['native'][2] if len(r['native']) > 2 else None
            return (self.code_subclass(cls, sub) if sub else self.classes[cls])(*args)
        if 'redirect' in r:
            if r['redirect'] is None:
                return self.OkRedirect(ctx, 'http://elsewhere/')
            return self.E.Redirect(ctx, 'http://elsewhere/')
        return build_other(r['other'])

    def code_subclass(self, cls, code):
        key = (cls, code)
        if key not in self._subs:
            self._subs[key] = type('Sub%d_%s' % (len(self._subs), cls), (self.classes[cls],), {'CODE': code})
        return self._subs[key]

    # ---- the WSGI transport
    def call_wsgi(self, w, method, path, qs, data=b'', ctype=None):
        rec = {}

        def start_response(status, headers, exc_info=None):
            rec['status'], rec['headers'] = status, list(headers)
        env = {'REQUEST_METHOD': method, 'PATH_INFO': path, 'QUERY_STRING': qs, 'SERVER_NAME': 'localhost', 'SERVER_PORT': '80',
               'SERVER_PROTOCOL': 'HTTP/1.1', 'wsgi.url_scheme': 'http', 'wsgi.input': io.BytesIO(data),
               'CONTENT_LENGTH': str(len(data))}
        if ctype:
            env['CONTENT_TYPE'] = ctype
        try:
            it = w(env, start_response)
            rec['body'] = b''.join(it)
        except BaseException as e:      # the exception propagates to the WSGI server
            rec['escaped'] = e
        return rec

    def run(self, proto, shape, plan):
        self.box.update(plan=plan, ctx=None, snap=None)
        qs = '' if shape == 'm_void' else ('self.i=1&a=1' if shape == MRPC else 'a=1')
        rec = self.call_wsgi(self.wsgi[proto], 'GET', '/' + shape, qs)
        rec['ctx'], rec['snap'] = self.box['ctx'], self.box['snap']
        return rec

    def run_raw(self, proto, shape, plan):
        """a hand-written SOAP request for the bare / empty body styles (the spyne client cannot send them)"""
        self.box.update(plan=plan, ctx=None, snap=None)
        app, w, _ = self.loop[proto]
        ns = NS11 if proto == 'soap11' else NS12
        arg = '<tns:m_bare xmlns:tns="tns">1</tns:m_bare>' if shape == 'm_bare' else '<tns:%s xmlns:tns="tns"/>' % shape
        data = ('<e:Envelope xmlns:e="%s"><e:Body>%s</e:Body></e:Envelope>' % (ns, arg)).encode()
        rec = self.call_wsgi(w, 'POST', '/', '', data, app.out_protocol.mime_type)
        rec['ctx'], rec['snap'] = self.box['ctx'], self.box['snap']
        return rec

    def run_loop(self, proto, shape, plan):
        self.box.update(plan=plan, ctx=None, snap=None)
        app, w, LoopClient = self.loop[proto]
        c = LoopClient(w, app)
        rp = getattr(c.service, shape)
        res = {}
        try:
            rp = rp() if shape == 'm_void' else rp('1')
            res['http'] = getattr(rp, 'http', None)
            res['in_error'] = rp.ctx.in_error
            res['in_object'] = rp.ctx.in_object
        except Exception as e:
            res['client_raised'] = e
            res['http'] = getattr(rp, 'http', None)
        return res


class Unserialisable(object):
    def __init__(self, token):
        self.token = token

    def __repr__(self):
        return 'Unserialisable(%s)' % self.token
    __str__ = __repr__


def build_other(o):
    """a non-Fault exception carrying secret tokens in its type name, module, text, chained causes,
    notes and in the names of the functions on its traceback"""
    bases = {'ValueError': ValueError, 'KeyError': KeyError, 'RuntimeError': RuntimeError, 'Exception': Exception,
             'TypeError': TypeError, 'ZeroDivisionError': ZeroDivisionError, 'OSError': OSError,
             'AssertionError': AssertionError, 'StopIteration': StopIteration, 'AttributeError': AttributeError,
             'UnicodeError': UnicodeError, 'LookupError': LookupError, 'NotImplementedError': NotImplementedError,
             'MemoryError': MemoryError, 'RecursionError': RecursionError}
    base = bases[o['base']]
    cls = type(o['type'], (base,), {'__module__': o.get('module', 'mod')}) if o.get('type') else base
    exc = cls(o['text']) if not o.get('args2') else cls(o['text'], o['args2'])
    if o.get('note'):
        exc.add_note(o['note'])
    if o.get('cause'):
        exc.__cause__ = RuntimeError(o['cause'])
    frames = o.get('frames') or []
    if not frames:
        return exc
    # raise it through functions whose names are secrets, so that the traceback carries them
    src = []
    prev = None
    for i, name in enumerate(frames):
        if prev is None:
            src.append('def %s(e):\n    raise e\n' % name)
        else:
            src.append('def %s(e):\n    return %s(e)\n' % (name, prev))
        prev = name
    ns = {}
    exec(compile(''.join(src), '<%s>' % frames[0], 'exec'), ns)
    try:
        ns[prev](exc)
    except BaseException as e:
        return e
    return exc


# ------------------------------------------------------------------------------------ canonical forms
def xml_canon(el, strip_ws=True):
    kids = [xml_canon(c) for c in el if isinstance(c.tag, str)]
    text = el.text or ''
    if kids and text.strip() == '':
        text = ''
    return {'t': cps(el.tag), 'a': sorted([cps(k), cps(v)] for k, v in el.attrib.items()), 'x': cps(text), 'c': kids}


def doc_canon(v):
    if v is None:
        return None
    if isinstance(v, (bool, int, float)):
        return {'n': [cps(str(v)), not v]}     # a scalar that is not a string: its str() text and its truthiness
    if isinstance(v, bytes):
        v = v.decode('utf8')
    if isinstance(v, str):
        return {'s': cps(v)}
    if isinstance(v, dict):
        return {'m': sorted(([cps(k.decode('utf8') if isinstance(k, bytes) else str(k)), doc_canon(x)] for k, x in v.items()),
                            key=lambda kv: kv[0])}
    if isinstance(v, (list, tuple)):
        return {'l': [doc_canon(x) for x in v]}
    return {'s': cps(repr(v))}


def sort_doc(d):
    """order-insensitive form of a model Doc (maps sorted by key)"""
    if isinstance(d, dict):
        if 'm' in d:
            return {'m': sorted(([k, sort_doc(v)] for k, v in d['m']), key=lambda kv: kv[0])}
        if 'l' in d:
            return {'l': [sort_doc(x) for x in d['l']]}
    return d


def wire_of_body(proto, body):
    """parse the response bytes with the third-party parser of the wire format -> canonical wire"""
    from lxml import etree
    if proto in XMLISH:
        return {'xml': xml_canon(etree.fromstring(body))}
    if proto in ('json', 'jsonlist', 'jsontuple'):
        return {'doc': doc_canon(json.loads(body.decode('utf8')))}
    if proto == 'yaml':
        import yaml
        return {'doc': doc_canon(yaml.safe_load(body.decode('utf8')))}
    if proto in ('msgpack', 'msgpackrpc'):
        import msgpack
        d = doc_canon(msgpack.unpackb(body, raw=False))
        if proto == 'msgpackrpc' and isinstance(d, dict) and 'l' in d:
            # the frame header [type, msgid, …] are plain integers
            d['l'] = [({'i': int(uncps(x['n'][0]))} if (i < 2 and isinstance(x, dict) and 'n' in x) else x) for i, x in enumerate(d['l'])]
        return {'doc': d}
    return {'text': cps(body.decode('utf8'))}


def canon_wire(w):
    if isinstance(w, dict) and 'doc' in w:
        return {'doc': sort_doc(w['doc'])}
    return w


# ------------------------------------------------------------------------------------ reference decoders (Python)
def _find(kids, tag):
    for k in kids:
        if uncps(k['t']) == tag:
            return k
    return None


def _text(kids, tag):
    k = _find(kids, tag)
    return uncps(k['x']) if k is not None else ''


def _local(s):
    return s.split(':', 1)[1] if ':' in s else s


def x_detail(el):
    if el['c']:
        return dict_kvs(el['c'])
    return uncps(el['x']) if el['x'] else None


def dict_kvs(kids):
    return [[uncps(k['t']), x_detail(k)] for k in kids]


def ref_decode(proto, wire):
    """(code, string, actor, detail) read from the canonical wire by an independent decoder; detail as
    nested [[key, value]…] lists (value: None | str | list); None when the wire is not a fault"""
    mp = MODEL_PROTO[proto]
    if mp in ('xml', 'soap11', 'soap12'):
        x = wire.get('xml')
        if x is None:
            return None
        if mp != 'xml':
            ns = NS11 if mp == 'soap11' else NS12
            if uncps(x['t']) != '{%s}Envelope' % ns:
                return None
            b = _find(x['c'], '{%s}Body' % ns)
            if b is None or not b['c']:
                return None
            x = b['c'][0]
        if mp in ('xml', 'soap11'):
            if uncps(x['t']) != '{%s}Fault' % NS11:
                return None
            d = _find(x['c'], 'detail')
            return {'code': _local(_text(x['c'], 'faultcode')), 'str': _text(x['c'], 'faultstring'),
                    'actor': _text(x['c'], 'faultactor'), 'detail': None if d is None else dict_kvs(d['c'])}
        if uncps(x['t']) != '{%s}Fault' % NS12:
            return None
        q = lambda n: '{%s}%s' % (NS12, n)
        code_el = _find(x['c'], q('Code'))
        if code_el is None:
            return None
        head = _local(_text(code_el['c'], q('Value')))
        head = {'Sender': 'Client', 'Receiver': 'Server'}.get(head, head)
        segs, cur = [head], code_el
        while True:
            cur = _find(cur['c'], q('Subcode'))
            if cur is None:
                break
            segs.append(_text(cur['c'], q('Value')))
        r = _find(x['c'], q('Reason'))
        d = _find(x['c'], q('Detail'))
        return {'code': '.'.join(segs), 'str': _text(r['c'], q('Text')) if r is not None else '',
                'actor': _text(x['c'], q('Role')), 'detail': None if d is None else dict_kvs(d['c'])}
    if mp in ('dict', 'list', 'msgpackrpc'):
        d = wire.get('doc')
        if d is None:
            return None
        if mp == 'msgpackrpc':
            if not (isinstance(d, dict) and 'l' in d and len(d['l']) == 3 and d['l'][0] == {'i': 3}):
                return None
            d = d['l'][2]
        if isinstance(d, dict) and 'm' in d:
            m = {uncps(k): v for k, v in d['m']}
            if 'faultcode' not in m:
                return None
            g = lambda k: uncps(m[k]['s']) if isinstance(m.get(k), dict) and 's' in m[k] else ''
            return {'code': g('faultcode'), 'str': g('faultstring'), 'actor': g('faultactor'), 'detail': doc_top_detail(m.get('detail'))}
        if isinstance(d, dict) and 'l' in d and len(d['l']) == 4:
            g = lambda v: uncps(v['s']) if isinstance(v, dict) and 's' in v else ''
            l = d['l']
            return {'code': g(l[0]), 'str': g(l[1]), 'actor': g(l[2]), 'detail': doc_top_detail(l[3])}
        return None
    t = wire.get('text')
    if t is None:
        return None
    s = uncps(t)
    if '\n\n' not in s:
        return None
    c, m = s.split('\n\n', 1)
    return {'code': c, 'str': m, 'actor': '', 'detail': None}


def doc_top_detail(v):
    if isinstance(v, dict) and 'm' in v:
        return [[uncps(k), doc_detail(x)] for k, x in v['m']]
    return None


def doc_detail(v):
    if isinstance(v, dict) and 's' in v:
        return uncps(v['s'])
    if isinstance(v, dict) and 'm' in v:
        return [[uncps(k), doc_detail(x)] for k, x in v['m']]
    if isinstance(v, dict) and 'l' in v:
        return ('L', [doc_detail(x) for x in v['l']])
    if isinstance(v, dict) and 'n' in v:
        return ('N', uncps(v['n'][0]), v['n'][1])
    return None


# ---- detail values: python value <-> comparable form / model JSON
# comparable form: None | str | [[k, v]...] (a dict, in order) | ('L', [items]) (a list)
def detail_value(v):
    if isinstance(v, dict):
        return [[k, detail_value(x)] for k, x in v.items()]
    if isinstance(v, (list, tuple)):
        return ('L', [detail_value(x) for x in v])
    if isinstance(v, (bool, int, float)):
        return ('N', str(v), not v)
    return v


def detail_pairs(d, sort=False):
    """python detail dict -> [[k, value]...]"""
    return None if d is None else detail_value(d)


def _is_list(v):
    return isinstance(v, tuple) and len(v) == 2 and v[0] == 'L'


def pairs_sorted(p):
    """dict entries sorted by key (stable: the order of repeated keys / list items is kept)"""
    if p is None:
        return None
    return sorted(([k, value_sorted(v)] for k, v in p), key=lambda kv: cps(kv[0]))


def value_sorted(v):
    if _is_list(v):
        return ('L', [value_sorted(x) for x in v[1]])
    if isinstance(v, list):
        return pairs_sorted(v)
    return v


def _is_num(v):
    return isinstance(v, tuple) and len(v) == 3 and v[0] == 'N'


def norm_scalar(v, as_item=False):
    if _is_num(v):
        return v[1]          # a number / boolean is written as its str() text (0, 0.0, False are not None)
    if v is None:
        return 'None' if as_item else None      # dict_to_etree writes str(e) for a list item
    if _is_list(v):
        return None                               # a list inside a list: outside the modelled universe
    if isinstance(v, list):
        return norm_pairs(v) if v else None
    return v if v != '' else None


def norm_pairs(p):
    """The specification of what an XML protocol delivers for a detail dict (etree_to_dict reading, flat):
    '' = {} = [] = None (one empty element), a list of n items = n entries with the same key."""
    out = []
    for k, v in p:
        if _is_list(v):
            if not v[1]:
                out.append([k, None])
            for item in v[1]:
                out.append([k, norm_scalar(item, as_item=True)])
        else:
            out.append([k, norm_scalar(v)])
    return out


def expected_detail(proto, detail, f):
    """the detail the reference decoder must find for a raised `detail` (the specification side)"""
    p = detail_pairs(detail)
    mp = MODEL_PROTO[proto]
    if mp in ('xml', 'soap11'):
        return None if not p else norm_pairs(p)
    if mp == 'soap12':
        return None if p is None else norm_pairs(p)
    return p


def value_json(v):
    if v is None:
        return None
    if isinstance(v, str):
        return {'s': cps(v)}
    if _is_list(v):
        return {'l': [value_json(x) for x in v[1]]}
    if _is_num(v):
        return {'n': [cps(v[1]), v[2]]}
    return {'d': detail_json(v)}


def detail_json(p):
    if p is None:
        return None
    return [[cps(k), value_json(v)] for k, v in p]


def fault_members(inst):
    """declared members of the fault's class that are set: [[{ns}name, text]...] in declaration order"""
    out = []
    for k, t in type(inst).get_flat_type_info(type(inst)).items():
        v = getattr(inst, k, None)
        if v is not None:
            out.append(['{%s}%s' % (type(inst).get_namespace(), k), str(v)])
    return out


def fault_json(inst):
    return {'code': cps(inst.faultcode), 'str': cps(inst.faultstring), 'actor': cps(inst.faultactor or ''),
            'detail': detail_json(detail_pairs(inst.detail)), 'lang': cps(inst.lang),
            'members': [[cps(k), cps(v)] for k, v in fault_members(inst)]}


# ------------------------------------------------------------------------------------ the documented status (specification)
def documented_status(impl, proto, inst):
    E = impl.E
    if MODEL_PROTO[proto] in ('soap11', 'soap12'):
        return 500
    if isinstance(inst, E.RequestTooLongError):
        return 413
    if isinstance(inst, E.ResourceNotFoundError):
        return 404
    if isinstance(inst, E.RequestNotAllowed):
        return 405
    if isinstance(inst, E.InvalidCredentialsError):
        return 401
    c = inst.faultcode
    if c == 'Client' or c[:7] == 'Client.':
        return 400
    return 500


# ------------------------------------------------------------------------------------ T1 facts
def _status_int(s):
    try:
        return int(str(s).split(' ', 1)[0])
    except ValueError:
        return -1


def measure_facts(impl):
    f = {}
    base = impl.protos['json']
    keys = ['tooLong', 'notFound', 'notAllowed', 'invalidCred']
    mkf = lambda cls, code='Server.X': impl.build_fault({'cls': cls, 'code': code, 'str': 's'})
    single = {k: _status_int(base.fault_to_http_response_code(mkf('Gen_' + k))) for k in keys}
    wins = {k: 0 for k in keys}
    consistent = True
    for a in keys:
        for b in keys:
            if a < b:
                s1 = _status_int(base.fault_to_http_response_code(mkf('Multi_%s_%s' % (a, b))))
                s2 = _status_int(base.fault_to_http_response_code(mkf('Multi_%s_%s' % (b, a))))
                if s1 != s2 or s1 not in (single[a], single[b]) or single[a] == single[b]:
                    consistent = False
                else:
                    wins[a if s1 == single[a] else b] += 1
    order = sorted(keys, key=lambda k: -wins[k])
    if sorted(wins.values()) != [0, 1, 2, 3]:
        consistent = False
    f['dedTable'] = [(k, single[k]) for k in order] if consistent else []
    st = lambda code: _status_int(base.fault_to_http_response_code(mkf('Fault', code)))
    probe = {c: st(c) for c in ('Client', 'Client.x', 'Client.', 'Clientx', 'client.x', 'Server', 'Server.Client.x', '', 'X.Client')}
    cs, ds = probe['Client'], probe['Server']
    shape = tuple(probe[c] == cs for c in ('Client', 'Client.x', 'Client.', 'Clientx', 'client.x', 'Server.Client.x', '', 'X.Client'))
    f['clientTest'] = {(True, True, True, False, False, False, False, False): 'eqOrDotPrefix',
                       (True, True, True, True, False, False, False, False): 'startsWith',
                       (True, False, False, False, False, False, False, False): 'eqOnly'}.get(shape, 'other') if cs != ds else 'other'
    f['clientStatus'], f['defaultStatus'] = cs, ds
    soap = set()
    for p in ('soap11', 'soap12'):
        for cls in impl.classes:
            for code in ('Client', 'Client.x', 'Server', 'Weird'):
                soap.add(_status_int(impl.protos[p].fault_to_http_response_code(mkf(cls, code))))
    f['soapStatus'] = soap.pop() if len(soap) == 1 else None
    # the generic fault: through the real funnel, two different exceptions
    seen = []
    for tok, base_exc in (('Tok1Aq9', 'ValueError'), ('Tok2Bz7', 'KeyError')):
        rec = impl.run('json', 'm_str', {'user': {'plain': {'raises': {'other': {'base': base_exc, 'text': tok, 'type': 'T' + tok,
                                                                                 'frames': ['fn_' + tok]}}}}})
        d = ref_decode('json', wire_of_body('json', rec['body'])) if 'body' in rec else None
        seen.append(d)
    if all(seen) and seen[0] == seen[1] and 'Tok' not in seen[0]['str']:
        f['genericCode'], f['faultString'] = seen[0]['code'], ('constant', seen[0]['str'])
    else:
        f['genericCode'], f['faultString'] = (seen[0] or {}).get('code', '?'), ('fromException', None)
    also = impl.appmod.get_fault_string_from_exception(ValueError('Tok3'))
    if f['faultString'][0] == 'constant' and also != f['faultString'][1]:
        f['faultString'] = ('fromException', None)
    rec = impl.run('json', 'm_str', PRESET_WITNESS)
    f['errorPathKeepsStatus'] = _status_int(rec.get('status')) == 418
    f['env11Prefix'], f['env12Prefix'] = impl.protos['soap11'].soap_env, impl.protos['soap12'].soap_env
    rec = impl.run('json', 'm_str', {'user': {'plain': {'raises': {'fault': {'cls': 'Fault', 'code': 'Client.P', 'str': 's', 'actor': ''}}}}})
    f['ignoreEmptyActor'] = b'faultactor' not in rec.get('body', b'faultactor')
    rec = impl.run('soap12', 'm_str', S12_DETAIL_WITNESS)
    ok = False
    if 'body' in rec:
        d = ref_decode('soap12', wire_of_body('soap12', rec['body']))
        ok = bool(d) and d['detail'] == [['a', 'b'], ['c', [['d', 'e']]]]
    f['soap12Detail'] = 'children' if ok else 'singleRoot'
    rec = impl.run('json', 'm_gen', GEN_FIRST_WITNESS)
    f['genFirstGuarded'] = 'escaped' not in rec and _status_int(rec.get('status')) == 400
    rec = impl.run('json', 'm_gen', SER_ERR_WITNESS)
    d = ref_decode('json', wire_of_body('json', rec['body'])) if 'body' in rec else None
    if d and d['code'] == 'Client.Later' and _status_int(rec.get('status')) == 400:
        f['serErr'] = 'funnelled'
    elif d and _status_int(rec.get('status')) == 500:
        f['serErr'] = 'genericRecomputed'
    else:
        f['serErr'] = 'generic200'
    res = impl.run_loop('soap12', 'm_str', C12_NS_WITNESS)
    f['client12Ns'] = 'byNamespace' if (res.get('in_error') is not None and 'client_raised' not in res) else 'literalSoap'
    f['client12Strip'] = measure_strip(impl)
    a = _status_int(impl.run('soap11', 'm_str', SWAP_WITNESS).get('status'))
    b = _status_int(impl.run('json', 'm_str', dict(SWAP_WITNESS, swap='soap11')).get('status'))
    f['statusAsker'] = 'requestProtocol' if (a, b) == (400, 500) else 'applicationProtocol'
    rec = impl.run('json', 'm_str', AUX_WITNESS)
    d = ref_decode('json', wire_of_body('json', rec['body'])) if 'body' in rec else None
    f['auxGuarded'] = bool(d) and d['code'] == 'Client.Aux'
    bad = []
    for name, txt in BADCHAR_WITNESSES:
        for p_ in ('soap11', 'soap12', 'xml'):
            rec = impl.run(p_, 'm_str', badchar_plan(txt))
            d = ref_decode(p_, wire_of_body(p_, rec['body'])) if 'body' in rec else None
            if not (d and d['str'] == xml_text_spec(txt) and d['actor'] == xml_text_spec(txt)):
                bad.append((name, p_))
    f['xmlSanitise'], f['xmlSanitiseBad'] = (not bad), bad
    rec = impl.run('soap11', 'm_str', FALSY_WITNESS)
    d = ref_decode('soap11', wire_of_body('soap11', rec['body'])) if 'body' in rec else None
    f['emptyTest'] = 'isNone' if (d and d['detail'] == [['zero', '0'], ['no', 'False'], ['z', '0.0'], ['n', None], ['deep', [['zero', '0']]]]) else 'falsy'
    f['ctorUsesCode'] = [b for b in BUILTINS if ctor_honours_code(impl, b)]
    rec = impl.run('soap11', 'm_str', ACTOR_NONE_WITNESS)
    f['xmlNoneActor'] = 'asEmpty' if ('body' in rec and ref_decode('soap11', wire_of_body('soap11', rec['body']))) else 'raises'
    covered = []
    for site in HOOK_SITES:
        for level in ('application', 'service'):
            rec = impl.run('json', 'm_str', hook_witness(site, level))
            d = ref_decode('json', wire_of_body('json', rec['body'])) if 'body' in rec else None
            if d and d['code'] == 'Client.InvalidCredentialsError' and _status_int(rec.get('status')) == 401:
                covered.append((site, level))
    f['hooksInTry'] = covered
    return f


AUX_WITNESS = {'user': {'plain': {'raises': {'fault': {'cls': 'Fault', 'code': 'Client.Aux', 'str': 'm'}}}},
               'aux': {'unserialisable': True, 'tokens': ['ZqAuxWitnessXv']}}
BADCHAR_WITNESSES = [('control', 'a\x01b\x0bc\x1f'), ('nul', 'a\x00b'), ('high-surrogate', 'x\ud83dy'), ('low-surrogate', 'caf\udce9'),
                     ('nonchar', 'x\ufffe\uffffy')]


def badchar_plan(txt):
    return {'user': {'plain': {'raises': {'fault': {'cls': 'Fault', 'code': 'Client.Text', 'str': txt, 'actor': txt}}}}, 'xmlonly': True}


FALSY_WITNESS = {'user': {'plain': {'raises': {'fault': {'cls': 'Fault', 'code': 'Client.Z', 'str': 'm',
                                                            'detail': {'zero': 0, 'no': False, 'z': 0.0, 'n': None, 'deep': {'zero': 0}}}}}}}
# the classes of spyne/error.py with constructor arguments (model name -> (class key, args))
BUILTINS = {'invalidCredentials': ('InvalidCredentialsError', ['denied', {'realm': 'x'}]), 'requestTooLong': ('RequestTooLongError', []),
            'requestNotAllowed': ('RequestNotAllowed', ['nope']), 'argumentError': ('ArgumentError', ['bad arg']),
            'invalidInput': ('InvalidInputError', ['bad', 'data']), 'missingField': ('MissingFieldError', ['fld']),
            'validationError': ('ValidationError', ['val']), 'internalError': ('InternalError', ['err']),
            'resourceNotFound': ('ResourceNotFoundError', ['thing']), 'respawn': ('RespawnError', ['thing']),
            'resourceAlreadyExists': ('ResourceAlreadyExistsError', ['thing'])}
BUILTIN_OF = {v[0]: k for k, v in BUILTINS.items()}
CTOR_ROOT = {'MissingFieldError': 'InvalidInputError'}      # whose constructor finally chooses the code


def base_code(impl, cls):
    return impl.classes[cls].CODE or 'Client.InvalidInput'


def ctor_honours_code(impl, b):
    cls, args = BUILTINS[b]
    code = base_code(impl, cls) + '.Witness'
    try:
        return impl.build_exception(None, {'native': [cls, args, code]}).faultcode == code
    except Exception:
        return False


ACTOR_NONE_WITNESS = {'user': {'plain': {'raises': {'fault': {'cls': 'Fault', 'code': 'Client.A', 'str': 'm', 'actor': None}}}}}
SWAP_WITNESS = {'swap': 'json', 'user': {'plain': {'raises': {'fault': {'cls': 'Fault', 'code': 'Client.Quota', 'str': 'quota exceeded',
                                                                                 'detail': {'limit': {'max': '3'}}}}}}}


def hook_witness(site, level):
    return {'user': {'hook': [site, level, {'native': ['InvalidCredentialsError', ['Unknown session', {'user': 'mallory'}]]},
                              {'value': 'RetMarkWitness'}]}, 'marker': 'RetMarkWitness'}


ALL_HOOKS = [(s_, l_) for s_ in HOOK_SITES for l_ in ('application', 'service')]


PRESET_WITNESS = {'preset': '418 Teapot', 'user': {'plain': {'raises': {'fault': {'cls': 'Fault', 'code': 'Client.P', 'str': 's'}}}}}
S12_DETAIL_WITNESS = {'user': {'plain': {'raises': {'fault': {'cls': 'Fault', 'code': 'Client.D', 'str': 's',
                                                                 'detail': {'a': 'b', 'c': {'d': 'e'}}}}}}}
GEN_FIRST_WITNESS = {'user': {'gen': [{'raises': {'fault': {'cls': 'Fault', 'code': 'Client.First', 'str': 's'}}}, None]}}
SER_ERR_WITNESS = {'user': {'gen': [{'value': 'v1'}, {'fault': {'cls': 'Fault', 'code': 'Client.Later', 'str': 's'}}]}}
C12_NS_WITNESS = {'user': {'plain': {'raises': {'fault': {'cls': 'Fault', 'code': 'Client.N', 'str': 's'}}}}}
C12_STRIP_WITNESS = {'user': {'plain': {'raises': {'fault': {'cls': 'Fault', 'code': 'Client.W', 'str': ' sp '}}}}}


def measure_strip(impl):
    from lxml import etree
    el = etree.fromstring('<soap:Fault xmlns:soap="%s"><soap:Code><soap:Value>soap:Sender</soap:Value></soap:Code>'
                          '<soap:Reason><soap:Text> sp </soap:Text></soap:Reason></soap:Fault>' % NS12)
    try:
        r = impl.protos['soap12'].from_element(None, impl.Fault, el)
        return r.faultstring != ' sp '
    except Exception:
        return True


def lean_text(s):
    return 'T ' + json.dumps(s, ensure_ascii=False) if all(32 <= ord(c) < 127 and c not in '"\\' for c in s) else \
        '[' + ', '.join('Char.ofNat %d' % ord(c) for c in s) + ']'


def facts_lean(f):
    b = lambda x: 'true' if x else 'false'
    fs = '.constant (%s)' % lean_text(f['faultString'][1]) if f['faultString'][0] == 'constant' else '.fromException'
    return '''-- GENERATED by harness/c09.py (T1) from /repo on every run. Do not edit.
import SpyneModel.Faults
namespace SpyneModel.Generated
open SpyneModel SpyneModel.Faults

def facts09 : Facts09 where
  hooksInTry := [%s]
  dedTable := [%s]
  clientTest := .%s
  clientStatus := %d
  defaultStatus := %d
  soapStatus := %s
  genericCode := %s
  faultString := %s
  errorPathKeepsStatus := %s
  env11Prefix := %s
  env12Prefix := %s
  ignoreEmptyActor := %s
  soap12Detail := .%s
  genFirstGuarded := %s
  serErr := .%s
  client12Ns := .%s
  client12Strip := %s
  statusAsker := .%s
  auxGuarded := %s
  emptyTest := .%s
  ctorUsesCode := [%s]
  xmlSanitise := %s

end SpyneModel.Generated
''' % (', '.join('(.%s, .%s)' % ({'call': 'methodCall', 'return_object': 'returnObject'}[a], b) for a, b in f['hooksInTry']),
       ', '.join('(.%s, %d)' % kv for kv in f['dedTable']), f['clientTest'], max(f['clientStatus'], 0), max(f['defaultStatus'], 0),
       'none' if f['soapStatus'] is None else 'some %d' % f['soapStatus'], lean_text(f['genericCode']), fs,
       b(f['errorPathKeepsStatus']), lean_text(f['env11Prefix']), lean_text(f['env12Prefix']), b(f['ignoreEmptyActor']),
       f['soap12Detail'], b(f['genFirstGuarded']), f['serErr'], f['client12Ns'], b(f['client12Strip']), f['statusAsker'], b(f['auxGuarded']), f['emptyTest'], ', '.join('.' + x for x in f['ctorUsesCode']), b(f['xmlSanitise']))


GOOD = {'hooksInTry': ALL_HOOKS, 'dedTable': [('tooLong', 413), ('notFound', 404), ('notAllowed', 405), ('invalidCred', 401)],
        'clientTest': 'eqOrDotPrefix', 'clientStatus': 400, 'defaultStatus': 500, 'soapStatus': 500, 'genericCode': 'Server',
        'faultString': ('constant', 'Internal Error'), 'errorPathKeepsStatus': True, 'env11Prefix': 'soap11env',
        'env12Prefix': 'soap12env', 'soap12Detail': 'children', 'genFirstGuarded': True, 'serErr': 'funnelled',
        'client12Ns': 'byNamespace', 'statusAsker': 'requestProtocol', 'auxGuarded': True, 'emptyTest': 'isNone'}
# facts with a dedicated root-cause finding id and witness (proto, shape, plan); the others are reported by the
# T3 oracle under its own ids (status:…, leak:…, intact:…)
SWITCH = {'soap12Detail': (FID_S12_DETAIL, ('wsgi', 'soap12', 'm_str', S12_DETAIL_WITNESS),
                           'Soap12 cannot write a fault whose detail dict does not have exactly one entry: AssertionError escapes the WSGI application'),
          'genFirstGuarded': (FID_GEN_FIRST, ('wsgi', 'json', 'm_gen', GEN_FIRST_WITNESS),
                              'an exception (Fault or not) raised by a generator method before its first yield propagates out of the WSGI '
                              'application: no fault response, and the server in front decides what is shown'),
          'serErr': (FID_SER_ERR, ('wsgi', 'json', 'm_gen', SER_ERR_WITNESS),
                     'a Fault raised by a generator method after its first yield (while the response is serialised) does not arrive: '
                     'it is replaced by the generic Server / Internal Error fault'),
          'errorPathKeepsStatus': (FID_PRESET, ('wsgi', 'json', 'm_str', PRESET_WITNESS),
                                   'handle_error replaces a response status that was already set before the fault was raised'),
          'statusAsker': (FID_SWAP, ('wsgi', 'soap11', 'm_str', SWAP_WITNESS),
                          'when the user code replaces ctx.out_protocol for the request, the status of a fault is still the one of the '
                          'configured protocol: a Client fault written as JSON by an application configured with Soap11 goes out with 500 '
                          '(and the SOAP-written one of a JSON application with 400)'),
          'auxGuarded': ('wsgi:auxiliary-failure-breaks-response', ('wsgi', 'json', 'm_str', AUX_WITNESS),
                         'an exception that leaves the processing of an auxiliary method propagates out of the WSGI application after '
                         'start_response: the fault of the primary call is not delivered'),
          'emptyTest': ('xml:falsy-detail-value-lost', ('wsgi', 'soap11', 'm_str', FALSY_WITNESS),
                        'dict_to_etree writes detail values 0, 0.0 and False as empty elements: the XML protocols lose them'),
          'client12Ns': (FID_C12_NS, ('loop', 'soap12', 'm_str', C12_NS_WITNESS),
                         'the spyne Soap12 client cannot read the faults the spyne Soap12 server writes (needs the prefix "soap" to be '
                         'declared; AttributeError on the empty Role element): ctx.in_error is never set')}


# ------------------------------------------------------------------------------------ generators
LETTERS = string.ascii_letters
XML_OK_EXTRA = 'éßΩжאع中あ한𝒳😀  '
NAMECH = LETTERS + string.digits + '_-' + 'éΩж中'


def g_token(rng):
    return 'Zq' + ''.join(rng.choice(string.ascii_letters + string.digits) for _ in range(12)) + 'Xv'


def g_name(rng, first=LETTERS + '_'):
    return rng.choice(first) + ''.join(rng.choice(NAMECH) for _ in range(rng.randrange(0, 7)))


def g_code(rng, proto, allow_newline=False):
    mp = MODEL_PROTO[proto]
    r = rng.random()
    if mp == 'soap12' or r < 0.75:
        head = rng.choice(['Client', 'Server'])
    else:
        head = rng.choice(['Weird', 'client', 'Clientx', 'ClientX.y', 'Sender', 'Receiver', 'server', 'X', 'Client ', 'Serverx', g_name(rng)])
    segs = [head]
    for _ in range(rng.choice([0, 0, 1, 1, 2, 3, 4, 6])):
        s = g_name(rng, LETTERS + string.digits + '_é')
        if rng.random() < 0.08:
            s += rng.choice([':', ' ', 'Client', '/', '#', '&', '<'])
        segs.append(s)
    return '.'.join(segs)


def g_char(rng, proto):
    r = rng.random()
    if r < 0.55:
        return rng.choice(string.ascii_letters + string.digits + ' .,:;-_')
    if r < 0.7:
        return rng.choice('<>&"\'\\/{}[]%#\n\t')
    if r < 0.85:
        return rng.choice(XML_OK_EXTRA)
    if proto in XMLISH or proto == 'yaml':
        cp = rng.choice([rng.randrange(0x20, 0x7f), rng.randrange(0xa1, 0xd7ff), rng.randrange(0x10000, 0x10ffff)])
    else:
        cp = rng.choice([rng.randrange(0, 0x20), rng.randrange(0x20, 0xd7ff), rng.randrange(0xe000, 0xfffd), rng.randrange(0x10000, 0x10ffff)])
    if 0xd800 <= cp <= 0xdfff or cp in (0xfffe, 0xffff):
        cp = 0x41
    return chr(cp)


PY_SPACES = None


def g_message(rng, proto, edges=True):
    global PY_SPACES
    n = rng.choice([0, 1, 2, 5, 12, 30, 80])
    s = ''.join(g_char(rng, proto) for _ in range(n))
    if edges and rng.random() < 0.15:
        if PY_SPACES is None:
            PY_SPACES = [chr(c) for c in range(0x110000) if chr(c).isspace()]
        xml_ok = lambda c: c in '\t\n\r' or ord(c) >= 0x20
        sp = [c for c in PY_SPACES if (proto not in XMLISH and proto != 'yaml') or (xml_ok(c) and c not in '\x85  \r')]
        s = rng.choice(sp) * rng.randrange(1, 3) + s + rng.choice(sp) * rng.randrange(0, 3)
    return s


def g_detail(rng, proto, depth=0):
    if depth == 0:
        r = rng.random()
        if r < 0.3:
            return None
        if r < 0.36:
            return {}
    d = {}
    for _ in range(rng.choice([1, 1, 2, 3, 5]) if depth else rng.choice([1, 1, 2, 2, 3, 4])):
        k = g_name(rng)
        if proto not in XMLISH and rng.random() < 0.1:
            k = rng.choice(['with space', '1digit', 'a:b', '', 'faultcode', 'é/'])
        r = rng.random()
        if r < 0.5 or depth >= 3:
            v = g_message(rng, proto, edges=False) or 'x'
        elif r < 0.6:
            v = None
        elif r < 0.66:
            v = ''
        elif r < 0.72:
            v = {}
        elif r < 0.8:
            v = rng.choice(SCALARS)
        elif r < 0.9:
            v = [g_item(rng, proto, depth) for _ in range(rng.choice([0, 1, 2, 2, 3, 4]))]
        else:
            v = g_detail(rng, proto, depth + 1)
        d[k] = v
    return d


SCALARS = [0, 0.0, False, True, 1, -7, 3.5, 10 ** 12, -0.25, 0, False]


def g_item(rng, proto, depth):
    """an item of a list value: a string, a number / boolean or a dict (what dict_to_etree handles structurally)"""
    r = rng.random()
    if r < 0.12:
        return rng.choice(SCALARS)
    if r < 0.55 or depth >= 3:
        return g_message(rng, proto, edges=False) or rng.choice(['x', ''])
    if r < 0.62:
        return {}
    return g_detail(rng, proto, depth + 1)


def g_fault_spec(rng, impl, proto):
    r = rng.random()
    cls = rng.choice(list(impl.classes)) if r < 0.7 else rng.choice(['Fault', 'GenFault', 'GenGenFault'])
    msg = g_message(rng, proto)
    if proto == 'http' and '\n\n' in msg and rng.random() < 0.5:
        msg = msg.replace('\n\n', '\n')
    spec = {'cls': cls, 'code': g_code(rng, proto), 'str': msg, 'actor': rng.choice(['', '', '', 'http://actor.example/x', 'urn:a', None]),
            'detail': g_detail(rng, proto)}
    if cls.startswith('MemFault'):
        spec['members'] = {}
        for k in ('extra', 'more') if cls == 'MemFault2' else ('extra',):
            if rng.random() < 0.8:
                spec['members'][k] = g_message(rng, proto, edges=False) or 'x'
        if rng.random() < 0.6:
            spec['members']['num'] = rng.randrange(-5, 10 ** 6)
    return spec


NATIVE = [('ResourceNotFoundError', ['thing']), ('RequestTooLongError', []), ('RequestNotAllowed', ['nope']),
          ('InvalidCredentialsError', []), ('InvalidCredentialsError', ['denied', {'realm': 'x'}]), ('ArgumentError', ['bad arg']),
          ('InvalidInputError', ['bad', 'data']), ('MissingFieldError', ['fld']), ('ValidationError', ['val']),
          ('InternalError', ['err']), ('ResourceAlreadyExistsError', ['thing']), ('RespawnError', ['thing']),
          ('MissingFieldError', ['fld', 'no placeholder here']), ('ValidationError', ['val', 'plain custom message']),
          ('ValidationError', [('a', 'b'), 'two %s']), ('Fault', []), ('Fault', ['Client']), ('Fault', ['Server.Deep.Er', 'message']), ('GenFault', ['Client.Gen', 'm', '', {'k': 'v'}])]

OTHER_BASES = ['ValueError', 'KeyError', 'RuntimeError', 'Exception', 'TypeError', 'ZeroDivisionError', 'OSError', 'AssertionError',
               'StopIteration', 'AttributeError', 'UnicodeError', 'LookupError', 'NotImplementedError', 'MemoryError', 'RecursionError']


def g_other(rng, in_generator=False):
    toks = []

    def tok():
        t = g_token(rng)
        toks.append(t)
        return t
    base = rng.choice([b for b in OTHER_BASES if not (in_generator and b == 'StopIteration')])
    o = {'base': base, 'text': 'secret text ' + tok()}
    if rng.random() < 0.7:
        o['type'] = 'Exc' + tok()
        o['module'] = 'mod' + tok()
    if rng.random() < 0.3 and base not in ('OSError',):
        o['args2'] = 'second ' + tok()
    if rng.random() < 0.3:
        o['note'] = 'note ' + tok()
    if rng.random() < 0.3:
        o['cause'] = 'cause ' + tok()
    o['frames'] = ['fn_' + tok() for _ in range(rng.choice([0, 1, 2, 5]))]
    o['tokens'] = toks
    return o


def g_raised(rng, impl, proto, in_generator=False):
    r = rng.random()
    if r < 0.5:
        return {'fault': g_fault_spec(rng, impl, proto)}
    if r < 0.58:
        n = list(rng.choice(NATIVE))
        if n[0] in BUILTIN_OF and rng.random() < 0.6:
            # a generated subclass that overrides CODE with a more specific dotted sub-code
            n.append(base_code(impl, n[0]) + '.' + '.'.join(g_name(rng, LETTERS) for _ in range(rng.choice([1, 1, 2, 3]))))
        return {'native': n}
    if r < 0.61 and not in_generator:
        return {'redirect': rng.choice([None, 'fails'])}
    return {'other': g_other(rng, in_generator)}


def g_plan(rng, impl, proto, shape, allow_swap=True):
    marker = 'RetMark' + g_token(rng)
    swap = None
    if allow_swap and proto in SWAPPABLE and rng.random() < 0.2:
        fam = lambda n: MODEL_PROTO[n] in ('soap11', 'soap12')
        cands = [n for n in SWAPPABLE if n != proto]
        if rng.random() < 0.6:
            cands = [n for n in cands if fam(n) != fam(proto)]
        swap = rng.choice(cands)
    app_proto, proto = proto, (swap or proto)      # values are generated for the protocol that writes them
    if shape != 'm_gen' and rng.random() < 0.3:
        # a member method has no service class: only application level listeners exist for it
        user = {'hook': [rng.choice(HOOK_SITES), rng.choice(['application', 'service'] if shape != MRPC else ['application']),
                         g_raised(rng, impl, proto), {'value': marker}]}
    elif shape == 'm_gen':
        r = rng.random()
        if r < 0.45:
            user = {'gen': [{'raises': g_raised(rng, impl, proto, True)}, None]}
        elif r < 0.92:
            user = {'gen': [{'value': marker}, g_raised(rng, impl, proto, True)]}
        elif proto != 'http':
            user = {'gen': [{'value': marker}, None]}
        else:
            user = {'gen': [{'value': marker}, g_raised(rng, impl, proto, True)]}
    else:
        if shape != 'm_str' or rng.random() < 0.9:
            user = {'plain': {'raises': g_raised(rng, impl, proto)}}
        else:
            user = {'plain': {'value': marker}}
    if shape != 'm_str':
        for r in raised_of({'user': user}):
            if 'redirect' in r:
                r['redirect'] = 'fails'   # after a successful redirect out_object is [None]: only fits one return value
    plan = {'user': user, 'marker': marker}
    if swap and raised_of(plan):
        plan['swap'] = swap
        if 'hook' in user and user['hook'][0] == 'call':
            plan['swap_at'] = 'listener'
        elif 'plain' in user and rng.random() < 0.4:
            plan['swap_at'] = 'listener'
    if shape == 'm_str' and 'gen' not in user and rng.random() < 0.12:
        plan['aux'] = g_other(rng)          # the auxiliary method bound to m_str raises, too
        if rng.random() < 0.35:
            plan['aux'] = {'unserialisable': True, 'tokens': [g_token(rng)]}
    if rng.random() < 0.04:
        plan['preset'] = rng.choice(['418 Teapot', '409 Conflict', '503 Service Unavailable'])
    return plan


def fixed_cases(impl):
    """boundary plans run under every protocol"""
    F = lambda **kw: {'fault': dict({'cls': 'Fault', 'code': 'Client', 'str': 'm', 'actor': '', 'detail': None}, **kw)}
    rs = [F(), F(code='Server'), F(code='Client.'), F(code='Client.a'), F(code='Server.a.b.c.d.e.f'), F(code='Clientx'), F(code='client.a'),
          F(str=''), F(str=' sp '), F(str='<&>"\''), F(str='line1\nline2'), F(str='a\n\nb'), F(str='é中😀'),
          F(detail={}), F(detail={'a': 'b'}), F(detail={'a': 'b', 'c': {'d': 'e'}}), F(detail={'a': None, 'b': '', 'c': {}}),
          F(detail={'a': {'b': {'c': {'d': 'deep'}}}}), F(detail={'d': ['x', 'y']}), F(detail={'d': ['only']}),
          F(detail={'zero': 0, 'f': False, 'z': 0.0, 'n': None, 'one': 1, 't': True, 'l': [0, False, 'x', 2.5], 'deep': {'zero': 0, 'e': ''}}),
          F(detail={'d': [{'a': '1'}, {'b': '2'}], 'e': [], 'f': ['', 'z']}), F(detail={'a': {'l': ['p', {'q': ['r', 's', 't']}, {}]}}),
          F(actor='http://actor/'), F(actor=None), F(actor=None, detail={'a': 'b'}),
          F(cls='MemFault', members={'extra': 'EXTRA', 'num': 5}), F(cls='MemFault2', code='Server.M', members={'extra': 'e', 'more': 'm<&>'}),
          F(cls='MemFault2', members={}, detail={'k': 'v'}), F(cls='GenFault', code='Server.Gen'),
          F(cls='Gen_notFound', code='Server.Odd'), F(cls='GenGen_tooLong', code='Client.Big'), F(cls='Multi_notFound_tooLong'),
          F(cls='Multi_invalidCred_notAllowed', code='Server'), F(cls='Multi_ArgumentError_notFound', code='Client.ArgumentError'),
          F(cls='RequestNotAllowed', code='Whatever'), F(cls='InvalidCredentialsError', code='Server.Cred', detail={'realm': 'r'}),
          F(code='Weird.X'), F(code='Sender.X')]
    rs += [{'native': list(n)} for n in NATIVE]
    # constructor arguments: tuple / 1-tuple / dict / '%'-string / None identifiers for the classes that format an object,
    # '%'-strings and None for the ones that take the message
    odd = [('tenant', 7), ('only',), {'k': 'v'}, '100% %s %d %(x)s', None]
    for cls in ('ResourceNotFoundError', 'RespawnError', 'ResourceAlreadyExistsError', 'ValidationError', 'MissingFieldError', 'InternalError'):
        rs += [{'native': [cls, [o]]} for o in odd]
    rs += [{'native': ['InvalidInputError', ['bad', o]]} for o in odd]
    for cls in ('InvalidCredentialsError', 'RequestTooLongError', 'RequestNotAllowed', 'ArgumentError'):
        rs += [{'native': [cls, [o]]} for o in ('100% %s %d', None)]
    rs += [{'native': ['InvalidCredentialsError', ['denied', None]]}]
    rs += [{'native': [cls, args, base_code(impl, cls) + '.Sub.deeper']} for cls, args in BUILTINS.values()]
    rs += [{'redirect': None}, {'redirect': 'fails'}]
    mk_other = lambda base, **kw: {'other': dict({'base': base, 'text': 'secret ZqFixedTokenAAAXv', 'type': 'ExcZqFixedTokenBBBXv',
                                                  'module': 'modZqFixedTokenCCCXv', 'frames': ['fn_ZqFixedTokenDDDXv'],
                                                  'tokens': ['ZqFixedTokenAAAXv', 'ZqFixedTokenBBBXv', 'ZqFixedTokenCCCXv', 'ZqFixedTokenDDDXv']}, **kw)}
    rs += [mk_other(b) for b in ('ValueError', 'KeyError', 'Exception', 'ZeroDivisionError', 'AssertionError')]
    rs.append(mk_other('RuntimeError', note='note ZqFixedTokenEEEXv', cause='cause ZqFixedTokenFFFXv',
                       tokens=['ZqFixedTokenAAAXv', 'ZqFixedTokenBBBXv', 'ZqFixedTokenCCCXv', 'ZqFixedTokenDDDXv', 'ZqFixedTokenEEEXv', 'ZqFixedTokenFFFXv']))
    out = []
    for i, r in enumerate(rs):
        marker = 'RetMarkZqFixed%03dXv' % i
        out.append(('m_str', {'user': {'plain': {'raises': r}}, 'marker': marker}))
        if i % 3 == 0 and 'redirect' not in r:
            out.append(('m_gen', {'user': {'gen': [{'raises': r}, None]}, 'marker': marker}))
            out.append(('m_gen', {'user': {'gen': [{'value': marker}, r]}, 'marker': marker}))
        if i % 5 == 0 and 'redirect' not in r:
            out.append((SHAPES[1 + (i // 5) % 5], {'user': {'plain': {'raises': r}}, 'marker': marker}))
    for i, r in enumerate(rs):
        if i % 4 == 0 or 'other' in r or 'native' in r:
            for j, (site, level) in enumerate([(a, b) for a in HOOK_SITES for b in ('application', 'service')]):
                if (i + j) % 2 == 0 or 'other' in r:
                    marker = 'RetMarkZqHook%03d%dXv' % (i, j)
                    shape = 'm_str' if ('redirect' in r or j % 2 == 0) else SHAPES[1 + (i + j) % 4]
                    out.append((shape, {'user': {'hook': [site, level, r, {'value': marker}]}, 'marker': marker}))
    for i, r in enumerate(rs):
        if i % 3 == 1 and 'redirect' not in r:
            out.append((MRPC, {'user': {'plain': {'raises': r}}, 'marker': 'RetMarkZqMrpc%03dXv' % i}))
    aux = mk_other('KeyError', text='secret ZqAuxTokenAAAXv', type='ExcZqAuxTokenBBBXv', frames=['fn_ZqAuxTokenCCCXv'],
                   tokens=['ZqAuxTokenAAAXv', 'ZqAuxTokenBBBXv', 'ZqAuxTokenCCCXv'])['other']
    for i in (0, 1, 14, len(rs) - 1):
        out.append(('m_str', {'user': {'plain': {'raises': rs[i]}}, 'marker': 'RetMarkZqAux%03dXv' % i, 'aux': aux}))
    out.append(('m_str', {'user': {'plain': {'value': 'RetMarkZqAuxOkXv'}}, 'marker': 'RetMarkZqAuxOkXv', 'aux': aux}))
    unser = {'unserialisable': True, 'tokens': ['ZqAuxTokenDDDXv']}
    out.append(('m_str', {'user': {'plain': {'value': 'RetMarkZqAuxUnXv'}}, 'marker': 'RetMarkZqAuxUnXv', 'aux': unser}))
    out.append(('m_str', {'user': {'plain': {'raises': rs[14]}}, 'marker': 'RetMarkZqAuxUn2Xv', 'aux': unser}))
    out.append((MRPC, {'user': {'plain': {'value': 'RetMarkZqMrpcOkXv'}}, 'marker': 'RetMarkZqMrpcOkXv'}))
    for i, (name, txt) in enumerate(BADCHAR_WITNESSES):
        out.append(('m_str', dict(badchar_plan(txt), marker='RetMarkZqBad%dXv' % i)))
        out.append(('m_gen', {'user': {'gen': [{'raises': badchar_plan('g' + txt)['user']['plain']['raises']}, None]}, 'marker': 'RetMarkZqBadG%dXv' % i,
                              'xmlonly': True}))
    out.append(('m_str', {'user': {'plain': {'value': 'RetMarkZqFixedOkXv'}}, 'marker': 'RetMarkZqFixedOkXv'}))
    for i, sw in enumerate(SWAPPABLE):
        for j, r in enumerate((rs[0], rs[1], rs[15], rs[-1])):
            marker = 'RetMarkZqSwap%d%dXv' % (i, j)
            out.append(('m_str', {'user': {'plain': {'raises': r}}, 'marker': marker, 'swap': sw, 'swap_at': ('listener' if j % 2 else 'body')}))
        out.append(('m_str', {'user': {'hook': ['call', 'service', {'native': ['InvalidCredentialsError', ['no', {'u': 'm'}]]}, {'value': 'RetMarkZqSwapHXv'}]},
                              'marker': 'RetMarkZqSwapHXv', 'swap': sw, 'swap_at': 'listener'}))
    out.append(('m_gen', {'user': {'gen': [{'value': 'RetMarkZqFixedOkXv'}, None]}, 'marker': 'RetMarkZqFixedOkXv'}))
    out.append(('m_str', {'user': {'plain': {'raises': F(code='Client.Pre')}}, 'marker': 'RetMarkZqFixedPreXv', 'preset': '418 Teapot'}))
    return out


def plan_allowed(proto, plan, via='wsgi'):
    """restrictions of the input space that come from the wire formats themselves (stated in NOTES)"""
    mp = MODEL_PROTO[proto]
    u = plan['user']
    if mp == 'http' and 'gen' in u and 'value' in u['gen'][0]:
        return False              # HttpRpc cannot write an Iterable(Unicode) result: the generator body never runs
    for r in raised_of(plan):
        f = r.get('fault')
        if f is None:
            continue
        if mp == 'soap12' and f['code'].split('.')[0] not in ('Client', 'Server'):
            return False          # SOAP 1.2's fault vocabulary is closed (excluded by the property)
        if mp == 'http' and '\n' in f['code']:
            return False
        if mp == 'soap12' and via == 'loop' and '' in f['code'].split('.'):
            return False          # an empty sub-code segment has no text for the client to join
    return True


def raised_of(plan):
    u = plan['user']
    out = []
    if 'hook' in u:
        site, level, r, body = u['hook']
        out.append(body['raises'] if (site == 'return_object' and 'raises' in body) else r)
    elif 'plain' in u:
        if 'raises' in u['plain']:
            out.append(u['plain']['raises'])
    else:
        first, later = u['gen']
        if 'raises' in first:
            out.append(first['raises'])
        elif later is not None:
            out.append(later)
    return out


# ------------------------------------------------------------------------------------ model queries
def exc_json(o):
    return {'type': cps(o.get('type') or o['base']), 'text': cps(o['text']), 'frames': [cps(x) for x in o.get('frames') or []]}


def raised_json(impl, r, inst):
    """model form of what is raised; `inst` = the exception object actually built (None when unknown)"""
    if isinstance(inst, CtorFailed):
        return {'other': exc_json({'base': type(inst.exc).__name__, 'text': str(inst.exc)})}
    if 'fault' in r or 'native' in r:
        return {'fault': {'cls': impl.cls_flags(inst), 'f': fault_json(inst)}}
    if 'redirect' in r:
        return {'redirect': None if r['redirect'] is None else exc_json({'base': 'NotImplementedError', 'text': ''})}
    return {'other': exc_json(r['other'])}


def user_json(impl, plan, insts):
    u = plan['user']
    step = lambda s, i: {'value': cps(s['value'])} if 'value' in s else {'raises': raised_json(impl, s['raises'], i)}

    if 'plain' in u:
        return {'plain': step(u['plain'], insts[0] if insts else None)}
    if 'hook' in u:
        site, level, r, body = u['hook']
        return {'hook': [site, level, raised_json(impl, r, insts[0] if insts else None), step(body, None)]}
    first, later = u['gen']
    if 'raises' in first:
        return {'gen': [step(first, insts[0] if insts else None), None]}
    return {'gen': [step(first, None), None if later is None else raised_json(impl, later, insts[0] if insts else None)]}


def build_insts(impl, plan):
    """the Fault instances the plan will raise (rebuilt: same attributes as the raised object)"""
    out = []
    for r in raised_of(plan):
        if 'fault' in r or 'native' in r:
            try:
                out.append(impl.build_exception(None, r))
            except Exception as e:      # the constructor of a built-in error class raised
                out.append(CtorFailed(r, e))
        else:
            out.append(None)
    return out


class CtorFailed(object):
    def __init__(self, r, exc):
        self.r, self.exc = r, exc


RES_TEMPLATES = {'ResourceNotFoundError': 'Requested resource %r not found', 'RespawnError': 'Requested resource %r not found',
                 'ResourceAlreadyExistsError': 'Resource %r already exists'}


# ------------------------------------------------------------------------------------ T3 oracle
class Oracle:
    def __init__(self, ctx, impl, facts):
        self.ctx, self.impl, self.facts = ctx, impl, facts

    def fail(self, fid, what, case, **extra):
        self.ctx.hit('t3-fail:' + fid)
        self.ctx.finding(fid, what, dict({'case': case}, **extra))

    def check(self, via, proto, shape, plan, rec, insts):
        """the statement of C09 on one executed case"""
        case = {'via': via, 'proto': proto, 'shape': shape, 'plan': plan}
        swapped = bool(plan.get('swap'))
        proto = plan.get('swap') or proto        # the protocol that writes the response decides body and status
        rs = raised_of(plan)
        u = plan['user']
        where = where_of(u)
        if plan.get('aux') and 'escaped' not in rec:
            # the auxiliary method raised a non-Fault exception after the primary one: nothing of it may show
            blob = self.blob(rec)
            for t in plan['aux'].get('tokens', []):
                if t.encode() in blob:
                    self.fail('leak:%s:aux' % proto, 'secret token %s of the exception raised by the auxiliary method appears in the response' % t, case)
                    break
        if not rs or rs[0].get('redirect', 1) is None:
            # control: nothing raised (or a successful redirect) -> 200 class response, no fault
            if 'escaped' in rec:
                self.fail(FID_HOOK if (where.startswith('listener') and len(self.facts['hooksInTry']) < 4) else 'control:escaped:' + proto, 'a method that raises nothing makes the WSGI app raise %r' % rec['escaped'], case)
            return
        r = rs[0]
        if 'escaped' in rec:
            e = rec['escaped']
            fid = 'escape:%s:%s:%s' % (proto, where, type(e).__name__ if 'other' not in r else 'other')
            if 'fault' in r and proto in XMLISH and not self.facts['xmlSanitise'] and \
                    xml_text_spec(r['fault']['str'] + (r['fault'].get('actor') or '')) != r['fault']['str'] + (r['fault'].get('actor') or ''):
                fid = 'xml:unrepresentable-char-in-fault-text'
            elif self.actor_none_case(proto, r):
                fid = FID_ACTOR_NONE
            elif plan.get('aux', {}).get('unserialisable') and not self.facts['auxGuarded']:
                fid = 'wsgi:auxiliary-failure-breaks-response'
            elif where.startswith('listener') and len(self.facts['hooksInTry']) < 4:
                fid = FID_HOOK
            elif where == 'gen-first' and not self.facts['genFirstGuarded']:
                fid = FID_GEN_FIRST
            elif MODEL_PROTO[proto] == 'soap12' and isinstance(e, AssertionError) and self.facts['soap12Detail'] != 'children':
                fid = FID_S12_DETAIL
            self.fail(fid, 'the exception raised by user code (%s, %s) propagates out of the WSGI application instead of being '
                      'answered with a fault: %s' % (where, kind_of(r), type(e).__name__), case, escaped=repr(e)[:300])
            return
        status = _status_int(rec.get('status'))
        blob = self.blob(rec)
        try:
            wire = wire_of_body(proto, rec['body'])
            dec = ref_decode(proto, wire)
        except Exception as e:
            wire, dec = None, None
            case = dict(case, parse_error=repr(e)[:200])
        later_fid = FID_SER_ERR if (where == 'gen-later' and self.facts['serErr'] != 'funnelled') else None
        preset = plan.get('preset')
        if ('fault' in r or 'native' in r) and isinstance(insts[0], CtorFailed):
            root = CTOR_ROOT.get(r['native'][0], r['native'][0])
            self.fail('ctor:args:' + root, 'constructing %s%r raises %s inside the user code: the client gets the generic Server fault instead of %s'
                      % (r['native'][0], tuple(r['native'][1]), type(insts[0].exc).__name__, self.impl.classes[r['native'][0]].CODE), case)
            return
        if 'native' in r and r['native'][0] in RES_TEMPLATES and len(r['native'][1]) == 1 and len(r['native']) == 2:
            want_msg = RES_TEMPLATES[r['native'][0]] % (r['native'][1][0],)
            if insts[0].faultstring != want_msg:
                self.fail('ctor:args:' + r['native'][0], '%s(%r) has the message %r instead of %r'
                          % (r['native'][0], r['native'][1][0], insts[0].faultstring, want_msg), case)
        if 'fault' in r or 'native' in r:
            inst = insts[0]
            want = documented_status(self.impl, proto, inst)
            if dec is None:
                self.fail(later_fid or 'intact:%s:no-fault-in-response' % proto, 'user code raised %r but the response (status %s) carries no '
                          'fault the reference decoder can read' % (inst, rec.get('status')), case, body=repr(rec['body'][:400]))
                return
            if preset and where != 'gen-later':
                # a status already chosen (by the in protocol or by the user code) is left alone by handle_error
                if status != _status_int(preset):
                    self.fail(FID_PRESET, 'the status %r set before the fault was raised is replaced by %s' % (preset, rec.get('status')), case)
            elif status != want and not preset:
                self.fail(later_fid or (FID_SWAP if (swapped and self.facts['statusAsker'] != 'requestProtocol') else None) or
                          'status:%s:%s' % (proto, status_class(self.impl, inst)), 'status %s instead of the documented %d for %r'
                          % (rec.get('status'), want, inst), case)
            if 'native' in r and len(r['native']) > 2:
                # the class declares its code: CODE of the generated subclass
                if dec['code'] != r['native'][2]:
                    root = CTOR_ROOT.get(r['native'][0], r['native'][0])
                    self.fail('ctor:code-literal:' + root if inst.faultcode != r['native'][2] else (later_fid or 'intact:%s:code' % proto),
                              'a subclass of %s that declares CODE = %r is raised / delivered with the code %r'
                              % (r['native'][0], r['native'][2], dec['code']), case)
            elif dec['code'] != inst.faultcode:
                self.fail(later_fid or 'intact:%s:code' % proto, 'fault code %r arrives as %r' % (inst.faultcode, dec['code']), case)
            want_str = xml_text_spec(inst.faultstring) if proto in XMLISH else inst.faultstring
            if dec['str'] != want_str:
                self.fail(later_fid or 'intact:%s:message' % proto, 'fault message %r arrives as %r' % (inst.faultstring, dec['str']), case)
            exp = expected_detail(proto, inst.detail, self.facts)
            if MODEL_PROTO[proto] == 'http':
                if inst.detail is not None:
                    self.fail(FID_HTTP_DETAIL, 'HttpRpc writes a fault as "code\\n\\nmessage": the detail %r is not sent' % (inst.detail,), case)
            elif pairs_sorted(dec['detail']) != pairs_sorted(exp):
                self.fail(later_fid or 'intact:%s:detail' % proto, 'fault detail %r arrives as %r' % (exp, dec['detail']), case)
        else:
            want = 500
            if dec is None:
                self.fail(later_fid or 'generic:%s:no-fault-in-response' % proto, 'a non-Fault exception is answered (status %s) without a readable '
                          'fault' % rec.get('status'), case, body=repr(rec['body'][:400]))
            else:
                if status != want and not preset:
                    self.fail(later_fid or 'generic:%s:status' % proto, 'status %s instead of 500 for a non-Fault exception' % rec.get('status'), case)
                if (dec['code'], dec['str'], dec['detail']) != ('Server', 'Internal Error', None):
                    self.fail(later_fid or 'generic:%s:not-internal-error' % proto, 'a non-Fault exception is answered with %r instead of '
                              'Server / Internal Error' % ((dec['code'], dec['str'], dec['detail']),), case)
            if 'other' in r:
                for t in r['other'].get('tokens', []):
                    if t.encode() in blob:
                        part = 'status' if t in str(rec.get('status')) else ('headers' if t in repr(rec.get('headers')) else 'body')
                        self.fail('leak:%s:%s' % (proto, part), 'secret token %s of the raised %s appears in the response %s'
                                  % (t, r['other']['base'], part), case)
                        break
        # the return value is not sent
        mk = plan.get('marker')
        if mk and mk.encode() in blob:
            self.fail(later_fid or 'return-sent:%s' % proto, 'the response to a raised exception contains the value the method produced (%s)' % mk, case)
        for w in ('%sResponse' % shape, '%sResult' % shape):
            if w.encode() in rec['body']:
                self.fail(later_fid or 'return-sent:%s' % proto, 'the response to a raised exception contains the return wrapper %s' % w, case)

    def actor_none_case(self, proto, r):
        return (self.facts['xmlNoneActor'] != 'asEmpty' and proto in XMLISH and 'fault' in r and r['fault'].get('actor', '') is None)

    @staticmethod
    def blob(rec):
        return (str(rec.get('status')) + '\n' + '\n'.join('%s: %s' % (k, v) for k, v in rec.get('headers') or [])).encode('utf8', 'replace') \
            + b'\n\n' + rec.get('body', b'')

    def check_client(self, proto, shape, plan, res, insts):
        case = {'via': 'loop', 'proto': proto, 'shape': shape, 'plan': plan}
        rs = raised_of(plan)
        if not rs or rs[0].get('redirect', 1) is None:
            return
        r = rs[0]
        http = res.get('http') or {}
        if 'escaped' in http:
            return        # reported by the transport check
        try:
            if ref_decode(proto, wire_of_body(proto, http['body'])) is None:
                return    # no fault was sent: reported by the transport check
        except Exception:
            return
        if 'client_raised' in res:
            e = res['client_raised']
            fid = {'soap12': FID_C12_NS, 'msgpackrpc': FID_MPRPC_CLIENT}.get(proto, 'client:%s:raised' % proto)
            if proto == 'soap12' and self.facts['client12Ns'] == 'byNamespace':
                fid = 'client:soap12:raised'
            self.fail(fid, 'the spyne %s client raises %s while reading the fault response' % (proto, type(e).__name__), case, error=repr(e)[:300])
            return
        u = plan['user']
        gen_later = 'gen' in u and 'value' in u['gen'][0]
        if 'escaped' in http:
            return
        lf = FID_SER_ERR if (gen_later and self.facts['serErr'] != 'funnelled') else None
        ie = res.get('in_error')
        if ie is None:
            self.fail('client:%s:no-in-error' % proto, 'ctx.in_error is None on the client although the server answered with a fault', case)
            return
        if 'fault' in r or 'native' in r:
            if isinstance(insts[0], CtorFailed):
                return
            code, msg = insts[0].faultcode, xml_text_spec(insts[0].faultstring)
        else:
            code, msg = 'Server', 'Internal Error'
        got = ie.faultcode
        if proto == 'soap12':
            loc = _local(got).split('.')
            loc[0] = {'Sender': 'Client', 'Receiver': 'Server'}.get(loc[0], loc[0])
            got = '.'.join(loc)
        elif proto == 'soap11':
            got = _local(got)
        if got != code:
            self.fail(lf or 'client:%s:code' % proto, 'the client holds fault code %r for the raised %r' % (ie.faultcode, code), case)
        if ie.faultstring != msg:
            if proto == 'soap12' and ie.faultstring == (msg.strip() or 'Fault'):
                self.fail(FID_C12_STRIP, 'the Soap12 client strips the reason text: %r arrives as %r' % (msg, ie.faultstring), case)
            else:
                self.fail(lf or 'client:%s:message' % proto, 'the client holds message %r for the raised %r' % (ie.faultstring, msg), case)
        if proto in ('soap11', 'soap12') and ('fault' in r or 'native' in r):
            exp = expected_detail(proto, insts[0].detail, self.facts)
            d = ie.detail
            gotd = None if d is None else dict_kvs(xml_canon(d)['c'])
            if pairs_sorted(gotd) != pairs_sorted(exp):
                self.fail(lf or 'client:%s:detail' % proto, 'the client holds detail %r for the raised %r' % (gotd, exp), case)


def where_of(u):
    if 'plain' in u:
        return 'plain'
    if 'hook' in u:
        return 'listener-%s-%s' % (u['hook'][0], u['hook'][1])
    return 'gen-first' if 'raises' in u['gen'][0] else ('gen-later' if u['gen'][1] is not None else 'gen-ok')


def kind_of(r):
    return 'Fault' if ('fault' in r or 'native' in r) else ('Redirect' if 'redirect' in r else 'non-Fault exception')


def status_class(impl, inst):
    fl = impl.cls_flags(inst)
    for k, b in zip(('tooLong', 'notFound', 'notAllowed', 'invalidCred'), fl):
        if b:
            return k
    c = inst.faultcode
    return 'client-code' if (c == 'Client' or c.startswith('Client.')) else 'other-code'


# ------------------------------------------------------------------------------------ run
def load_staged_known(ctx):
    """known findings staged in fixes/C09-known.json that are not yet in known_findings.json"""
    p = os.path.join(core.VERIF, 'fixes', 'C09-known.json')
    if os.path.exists(p):
        have = {k.get('id') for k in ctx.known_findings}
        ctx.known_findings += [k for k in json.load(open(p)) if k.get('property') == ctx.prop and k.get('id') not in have]


def run(ctx):
    load_staged_known(ctx)
    impl = Impl()
    rng = ctx.rng

    # ---- T1
    f = measure_facts(impl)
    ctx.facts = f
    ctx.write_generated('Facts09.lean', facts_lean(f))
    for k, good in GOOD.items():
        if f[k] != good:
            ctx.hit('fact-bad:' + k)
            if k == 'hooksInTry':
                site, level = [h for h in ALL_HOOKS if h not in f[k]][0]
                ctx.finding(FID_HOOK, 'an exception raised by a method_%s listener (%s level) does not go through process_request\'s except '
                            'ladder: a Fault (e.g. InvalidCredentialsError from an authentication hook) is not answered as that fault and a '
                            'non-Fault exception escapes raw [listener calls inside the try block: %r]' % (site, level, f[k]),
                            {'case': {'via': 'wsgi', 'proto': 'json', 'shape': 'm_str', 'plan': hook_witness(site, level)}, 'fact': k})
            elif k in SWITCH:
                fid, (via, proto, shape, plan), text = SWITCH[k]
                ctx.finding(fid, '%s [behaviour switch %s measured %r, good: %r]' % (text, k, f[k], good),
                            {'case': {'via': via, 'proto': proto, 'shape': shape, 'plan': plan}, 'fact': k, 'measured': f[k]})
            else:
                ctx.log('fact %s measured %r (good %r): left to the T3 oracle' % (k, f[k], good))
    if f['xmlNoneActor'] != 'asEmpty':
        ctx.hit('fact-bad:xmlNoneActor')
        ctx.finding(FID_ACTOR_NONE, 'a Fault raised with faultactor=None cannot be written by the XML protocols: TypeError escapes the WSGI application',
                    {'case': {'via': 'wsgi', 'proto': 'soap11', 'shape': 'm_str', 'plan': ACTOR_NONE_WITNESS}, 'fact': 'xmlNoneActor'})
    if not f['xmlSanitise']:
        name, p_ = f['xmlSanitiseBad'][0]
        txt = dict(BADCHAR_WITNESSES)[name]
        ctx.hit('fact-bad:xmlSanitise')
        ctx.finding('xml:unrepresentable-char-in-fault-text', 'a Fault whose message / actor holds a character XML cannot carry (%s: %r) is not '
                    'delivered by %s with U+FFFD in its place (failing classes: %r)' % (name, txt, p_, f['xmlSanitiseBad']),
                    {'case': {'via': 'wsgi', 'proto': p_, 'shape': 'm_str', 'plan': badchar_plan(txt)}, 'fact': 'xmlSanitise'})
    for b, (cls, args) in BUILTINS.items():
        if b not in f['ctorUsesCode']:
            ctx.hit('fact-bad:ctorUsesCode:' + b)
            code = base_code(impl, cls) + '.Witness'
            ctx.finding('ctor:code-literal:' + CTOR_ROOT.get(cls, cls), 'the constructor of %s does not take the fault code from self.CODE: a subclass that '
                        'declares CODE = %r is raised with %r' % (cls, code, impl.build_exception(None, {'native': [cls, args, code]}).faultcode),
                        {'case': {'via': 'wsgi', 'proto': 'json', 'shape': 'm_str',
                                  'plan': {'user': {'plain': {'raises': {'native': [cls, args, code]}}}}}, 'fact': 'ctorUsesCode'})
    if f['client12Strip']:
        ctx.finding(FID_C12_STRIP, 'Soap12.fault_from_element strips the reason text',
                    {'case': {'via': 'loop', 'proto': 'soap12', 'shape': 'm_str', 'plan': C12_STRIP_WITNESS}, 'fact': 'client12Strip'})
    # ---- proof
    ctx.prove()

    oracle = Oracle(ctx, impl, f)
    Q = []

    def add(q, impl_out, nontrivial=True):
        Q.append((q, impl_out))
        ctx.case({k: v for k, v in q.items() if k != 'w'} if q['op'] in ('decode', 'client') else q, nontrivial)
        ctx.hit('op:' + q['op'])

    # ---- status table, directly on the protocol objects (every class x code shape x protocol)
    codes = ['Client', 'Client.', 'Client.x', 'Client.x.y', 'Clientx', 'Client x', 'client', 'client.x', 'CLIENT.x', 'Server', 'Server.x',
             'Server.Client.x', '', '.', '.Client', 'Client..', 'X', 'Sender', 'Clien', 'Client\n.x', 'Сlient.x']
    for _ in range(60 if ctx.thorough else 12):
        codes.append(g_code(rng, 'json'))
    for proto in ('json', 'xml', 'http', 'msgpackrpc', 'yaml', 'soap11', 'soap12'):
        p = impl.protos[proto]
        for cls in impl.classes:
            for code in codes:
                inst = impl.build_fault({'cls': cls, 'code': code, 'str': 's'})
                got = _status_int(p.fault_to_http_response_code(inst))
                add({'op': 'status', 'proto': MODEL_PROTO[proto], 'cls': impl.cls_flags(inst), 'code': cps(code)}, {'ok': got},
                    nontrivial=proto in ('json', 'soap11'))
                ctx.cov['traces_validated_against_impl'] += 1
                want = documented_status(impl, proto, inst)
                if got != want:
                    oracle.fail('status:%s:%s' % (proto, status_class(impl, inst)), 'fault_to_http_response_code gives %s instead of the '
                                'documented %d for class %s, code %r' % (got, want, cls, code),
                                {'via': 'status', 'proto': proto, 'cls': cls, 'code': code})

    # ---- whole requests
    cases = []
    fixed = fixed_cases(impl)
    for proto in PROTOS:
        for shape, plan in fixed:
            if (proto == 'soap11pp' and shape != 'm_str') or shape == 'm_bare':
                continue
            if proto == 'http' and shape == 'm_gen' and not raised_of(plan):
                continue        # HttpRpc cannot write an Iterable(Unicode) result at all
            cases.append((proto, shape, plan))
    n_rand = 1500 if ctx.thorough else 220
    for proto in PROTOS:
        for _ in range(n_rand if proto != 'soap11pp' else n_rand // 4):
            shape = rng.choice(WSGI_SHAPES + ['m_str', 'm_gen', 'm_gen'])
            cases.append((proto, shape, g_plan(rng, impl, proto, shape)))
    n_run = 0
    for proto, shape, plan in cases:
        if plan.get('swap') and (plan['swap'] == proto or proto not in SWAPPABLE):
            continue
        if plan.get('xmlonly') and (plan.get('swap') or proto) not in XMLISH:
            continue
        if not plan_allowed(plan.get('swap') or proto, plan):
            ctx.hit('skipped:outside-wire-vocabulary')
            continue
        n_run += 1
        insts = build_insts(impl, plan)
        rec = impl.run(proto, shape, plan)
        run_case(ctx, impl, oracle, add, 'wsgi', proto, shape, plan, rec, insts)
    # ---- bare and empty body styles: raw SOAP requests (Application.process_request's in_object adjustment)
    for proto in ('soap11', 'soap12'):
        raw = [(sh, plan) for sh0, plan in fixed if sh0 in ('m_void', 'm_multi') and not plan.get('swap') and 'hook' not in plan['user']
               for sh in ('m_bare', 'm_empty', 'm_empty0')]
        for _ in range(120 if ctx.thorough else 25):
            sh = rng.choice(['m_bare', 'm_empty', 'm_empty0'])
            raw.append((sh, g_plan(rng, impl, proto, sh, allow_swap=False)))
        for shape, plan in raw:
            if not plan_allowed(proto, plan):
                continue
            insts = build_insts(impl, plan)
            rec = impl.run_raw(proto, shape, plan)
            if raised_of(plan) or 'escaped' in rec:
                run_case(ctx, impl, oracle, add, 'raw', proto, shape, plan, rec, insts)
            ctx.hit('raw:' + shape)
    # ---- loopback clients
    loop_cases = []
    for proto in ('soap11', 'soap12', 'msgpackrpc'):
        for shape, plan in fixed:
            if plan.get('swap') or (plan.get('xmlonly') and proto not in XMLISH):
                continue
            if shape in ('m_str', 'm_void') or (shape == 'm_gen' and proto != 'msgpackrpc'):
                loop_cases.append((proto, shape, plan))
        for _ in range((900 if ctx.thorough else 150) if proto != 'msgpackrpc' else 6):
            shape = rng.choice(['m_str', 'm_void', 'm_multi', 'm_obj', 'm_gen'])
            loop_cases.append((proto, shape, g_plan(rng, impl, proto, shape, allow_swap=False)))
    for proto, shape, plan in loop_cases:
        if not plan_allowed(proto, plan, 'loop'):
            ctx.hit('skipped:outside-wire-vocabulary')
            continue
        insts = build_insts(impl, plan)
        res = impl.run_loop(proto, shape, plan)
        run_loop_case(ctx, impl, oracle, add, proto, shape, plan, res, insts)

    # ---- the constructors of the built-in error classes: which code does an instance get?
    for b, (cls, args) in BUILTINS.items():
        for code in [None, base_code(impl, cls) + '.Sub'] + [base_code(impl, cls) + '.' + g_name(rng, LETTERS) for _ in range(3)]:
            inst = impl.build_exception(None, {'native': [cls, args] + ([code] if code else [])})
            add({'op': 'ctor', 'cls': cls, 'code': None if code is None else cps(code)}, {'ok': cps(inst.faultcode)})
    # ---- Python str.strip vs the model's (used by the Soap12 client)
    for _ in range(200 if ctx.thorough else 60):
        s = g_message(rng, 'json')
        add({'op': 'strip', 's': cps(s)}, {'ok': cps(s.strip())})
    for c in PY_SPACES or []:
        s = c + 'a' + c
        add({'op': 'strip', 's': cps(s)}, {'ok': cps(s.strip())})
    for cp in (0x1c, 0x1f, 0x20, 0x85, 0xa0, 0x200b, 0x2060, 0xfeff, 0x180e, 0x2000, 0x200a, 0x3000, 0x0b, 0x0c):
        s = chr(cp) + 'x'
        add({'op': 'strip', 's': cps(s)}, {'ok': cps(s.strip())})

    # ---- compare with the model
    answers = ctx.model([q for q, _ in Q])
    for (q, impl_out), mod in zip(Q, answers):
        if 'driver_error' in mod:
            raise core.Infra('driver error: %r on %r' % (mod, str(q)[:300]))
        if norm_answer(mod) != norm_answer(impl_out):
            ctx.disagree(q['op'], show_query(q), show(impl_out), show(mod))
    ctx.cov['requests_run'] = n_run
    ctx.cov['rule'] = ('cases = (output protocol, method shape, plan) where the plan says what the user code raises (Fault of a built-in or '
                       'generated class with generated dotted code / Unicode message / nested detail dict, built-in error through its own '
                       'constructor, Redirect, non-Fault exception carrying fresh secret tokens in type name, module, text, notes, cause and '
                       'traceback function names; detail = nested dicts and lists) and where (plain method of 6 signatures, generator before / after its first '
                       'yield, method_call / method_return_object listener at application / service level), run '
                       'through the real WsgiApplication under 10 output protocol configurations and through the SOAP 1.1 / 1.2 / '
                       'MessagePackRpc loopback clients; plus the exhaustive class x code-shape status table; boundary plans first, then '
                       'seeded random; distinct = distinct canonical model query; non-trivial = everything except the status probes of '
                       'protocols that share OutProtocolBase.fault_to_http_response_code')


def run_case(ctx, impl, oracle, add, via, proto, shape, plan, rec, insts):
    mp = MODEL_PROTO[proto]
    app_proto, proto = proto, (plan.get('swap') or proto)       # from here on `proto` = the protocol that writes the response
    if plan.get('swap'):
        ctx.hit('swap:%s->%s' % ('soap' if mp in ('soap11', 'soap12') else 'other',
                                 'soap' if MODEL_PROTO[proto] in ('soap11', 'soap12') else 'other'))
    u = plan['user']
    where = where_of(u)
    rs = raised_of(plan)
    ctx.hit('proto:' + proto)
    ctx.hit('where:' + where)
    ctx.hit('raised:' + (kind_of(rs[0]) if rs else 'nothing'))
    ctx.cov['traces_validated_against_impl'] += 1
    # T3
    oracle.check(via, app_proto, shape, plan, rec, insts)
    # T2: funnel state right after process_request
    uj = user_json(impl, plan, insts)
    snap = rec.get('snap')
    if snap is None and 'escaped' in rec and 'hook' in u:
        add({'op': 'process', 'user': uj}, {'escapes': True})
    if snap is not None:
        kind, err = snap
        add({'op': 'process', 'user': uj},
            {'out_object': kind, 'out_error': None if err is None else {'cls': impl.cls_flags(err), 'f': fault_json(err)}})
        if err is not None and insts and insts[0] is not None and not isinstance(insts[0], CtorFailed) and where == 'plain':
            # the same object (class, code, message, detail), and no return value assigned
            ok = type(err) is type(insts[0]) and fault_json(err) == fault_json(insts[0]) and kind == 'unset'
            if not ok:
                oracle.fail('funnel:out-error-not-the-raised-fault', 'ctx.out_error is %r / out_object %s after user code raised %r'
                            % (err, kind, insts[0]), {'via': via, 'proto': proto, 'shape': shape, 'plan': plan})
    if rs and oracle.actor_none_case(proto, rs[0]):
        ctx.hit('skipped-t2:xmlNoneActor')
        return
    # T2: the whole response
    preset = _status_int(plan['preset']) if plan.get('preset') else None
    q = {'op': 'wsgi', 'proto': mp, 'req': MODEL_PROTO[proto] if plan.get('swap') else None, 'preset': preset, 'user': uj}
    if plan.get('aux') and shape == 'm_str':
        q['aux'] = ['propagates' if plan['aux'].get('unserialisable') else 'done']
    if 'escaped' in rec:
        out = {'escapes': True}
    else:
        try:
            wire = wire_of_body(proto, rec['body'])
        except Exception as e:
            wire = {'unparsable': repr(e)[:100]}
        is_fault = ref_decode(proto, wire) is not None if 'unparsable' not in wire else False
        stale = (not is_fault) and 'xml' in wire and not wire['xml']['c'] and uncps(wire['xml']['t']).endswith('}Envelope')
        if is_fault or stale or 'unparsable' in wire:
            out = {'status': _status_int(rec.get('status')), 'body': canon_wire(wire)}
            if is_fault:
                d = ref_decode(proto, wire)
                add({'op': 'decode', 'proto': MODEL_PROTO[proto], 'w': wire},
                    {'ok': {'code': cps(d['code']), 'str': cps(d['str']), 'actor': cps(d['actor']), 'detail': detail_json(d['detail']),
                            'lang': None}}, nontrivial=False)
        else:
            mk = plan.get('marker', '')
            val = mk if (mk and mk.encode() in rec['body']) else ''
            out = {'status': _status_int(rec.get('status')), 'body': {'ret': cps(val)}}
    add(q, out)


def run_loop_case(ctx, impl, oracle, add, proto, shape, plan, res, insts):
    ctx.hit('loop:' + proto)
    ctx.cov['traces_validated_against_impl'] += 1
    http = res.get('http') or {}
    if 'body' in http or 'escaped' in http:
        run_case(ctx, impl, oracle, add, 'loop', proto, shape, plan, dict(http, snap=impl.box['snap']), insts)
    oracle.check_client(proto, shape, plan, res, insts)
    if proto == 'msgpackrpc' or 'body' not in http:
        return
    try:
        wire = wire_of_body(proto, http['body'])
    except Exception:
        return
    if ref_decode(proto, wire) is None:
        return
    if 'client_raised' in res:
        out = {'raises': True}
    elif res.get('in_error') is None:
        out = {'ok': None}
    else:
        ie = res['in_error']
        d = ie.detail
        out = {'ok': {'code': cps(ie.faultcode), 'str': cps(ie.faultstring),
                      'detail': None if d is None else detail_json(dict_kvs(xml_canon(d)['c']))}}
    add({'op': 'client', 'proto': MODEL_PROTO[proto], 'w': wire}, out)


def norm_answer(a):
    """order-insensitive, lang-insensitive comparison form"""
    if not isinstance(a, dict):
        return a
    a = json.loads(json.dumps(a))
    if 'body' in a:
        a['body'] = canon_wire(a['body'])
    if isinstance(a.get('ok'), dict) and 'lang' in a['ok']:
        a['ok'].pop('lang')
        a['ok'].pop('members', None)
        a['ok']['detail'] = sort_detail_json(a['ok'].get('detail'))
    if isinstance(a.get('ok'), dict) and 'detail' in a['ok']:
        a['ok']['detail'] = sort_detail_json(a['ok'].get('detail'))
    if a.get('out_object') == 'nonelist':
        a['out_object'] = 'value'         # [None]: a None return value and the state after a redirect look the same
    oe = a.get('out_error')
    if isinstance(oe, dict):
        oe['f']['detail'] = sort_detail_json(oe['f'].get('detail'))
    return a


def sort_detail_json(j):
    if j is None:
        return None
    return sorted(([k, sort_value_json(v)] for k, v in j), key=lambda kv: kv[0])


def sort_value_json(v):
    if v is None or 's' in v or 'n' in v:
        return v
    if 'l' in v:
        return {'l': [sort_value_json(x) for x in v['l']]}
    return {'d': sort_detail_json(v['d'])}


def show_query(q):
    return json.loads(json.dumps(q))


def show(o):
    return o


# ------------------------------------------------------------------------------------ replay
def replay(ctx, obj):
    """re-execute a single recorded case on the implementation and on the model"""
    impl = Impl()
    print('replay of:', obj.get('what'))
    case = obj.get('case') or {}
    if case.get('via') == 'status':
        inst = impl.build_fault({'cls': case['cls'], 'code': case['code'], 'str': 's'})
        got = impl.protos[case['proto']].fault_to_http_response_code(inst)
        print('impl  : fault_to_http_response_code(%r) = %r   documented: %d' % (inst, got, documented_status(impl, case['proto'], inst)))
        print('model :', ctx.model([{'op': 'status', 'proto': MODEL_PROTO[case['proto']], 'cls': impl.cls_flags(inst), 'code': cps(case['code'])}])[0])
        return 0
    if not case:
        print(json.dumps(obj, indent=1)[:3000])
        return 0
    proto, shape, plan = case['proto'], case['shape'], case['plan']
    insts = build_insts(impl, plan)
    if case['via'] == 'raw':
        rec = impl.run_raw(proto, shape, plan)
    elif case['via'] == 'loop':
        res = impl.run_loop(proto, shape, plan)
        rec = res.get('http') or {}
        print('client: in_error=%r client_raised=%r' % (res.get('in_error'), res.get('client_raised')))
    else:
        rec = impl.run(proto, shape, plan)
    print('raised:', [repr(i) if i is not None else kind_of(r) for i, r in zip(insts, raised_of(plan))])
    if 'escaped' in rec:
        print('impl  : the exception escapes the WSGI application: %r' % (rec['escaped'],))
    else:
        print('impl  : status=%r headers=%r' % (rec.get('status'), rec.get('headers')))
        print('impl  : body=%r' % (rec.get('body', b'')[:1200],))
    uj = user_json(impl, plan, insts)
    preset = _status_int(plan['preset']) if plan.get('preset') else None
    mod = ctx.model([{'op': 'wsgi', 'proto': MODEL_PROTO[proto], 'req': MODEL_PROTO[plan['swap']] if plan.get('swap') else None,
                      'preset': preset, 'user': uj}])[0]
    proto = plan.get('swap') or proto
    if 'body' in mod and 'status' in mod:
        try:
            d = ref_decode(proto, canon_wire(mod['body']))
        except Exception:
            d = None
        print('model : status=%s fault=%r' % (mod['status'], d))
    else:
        print('model :', mod)
    return 0
