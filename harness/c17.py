"""C17 — XML input is parsed with safe defaults (partial: libxml2's behaviour per flag is assumed).

T1: configuration plumbing measured on the live classes, parse call sites extracted by ast + call
    graph from the live `create_in_document` methods, libxml2 limits measured through the real
    protocol object                                   -> SpyneModel/Generated/Facts17.lean
Proof: Props/C17.lean (configuration, call-site discipline, non-interference of the abstract front
    end and of the request path, bombs).
T2: model vs implementation:  kwargs  (XmlDocument/Soap11/Soap12(**args).parser_kwargs),
    parse   (real XmlDocument(**kw).create_in_document on abstract attack documents, 26 configurations;
             parsed tree, external resources touched),
    handle  (real ServerBase / WsgiApplication stack, three protocols, plain and multipart requests;
             tree seen by the protocol at `before_deserialize`, fault code, crash class).
T3: the property on the real stack with default settings, in subprocesses: canary directory watched
    with inotify (no file opened), canary sockets (no connection), canary contents never in the
    arguments captured in user code nor in response bytes, entity replacement text never substituted
    into element text, wall time / peak RSS per request bounded, bombs answered with Client.XMLSyntaxError.
"""
import ast, inspect, json, os, shutil, subprocess, sys, time

from . import core

TNS = 'urn:c17'
NS_S11 = 'http://schemas.xmlsoap.org/soap/envelope/'
NS_S12 = 'http://www.w3.org/2003/05/soap-envelope'
NS_XI = 'http://www.w3.org/2001/XInclude'
NS_XSI = 'http://www.w3.org/2001/XMLSchema-instance'
PREFIX = {TNS: 't', NS_S11: 'e11', NS_S12: 'e12', NS_XI: 'xi', NS_XSI: 'xsi'}

BOOL_ARGS = ['attribute_defaults', 'dtd_validation', 'load_dtd', 'no_network', 'ns_clean', 'recover',
             'remove_blank_text', 'remove_pis', 'strip_cdata', 'huge_tree', 'compact']
KW_KEYS = ['attribute_defaults', 'dtd_validation', 'load_dtd', 'no_network', 'ns_clean', 'recover',
           'remove_blank_text', 'remove_comments', 'remove_pis', 'strip_cdata', 'resolve_entities',
           'huge_tree', 'compact']
PROTOS = ['xml', 'soap11', 'soap12']

# resources of the outside world (Env): ids < 50 text, 50..99 DTD pieces, >= 100 do not exist
TEXT_RES = [1, 2, 3]
DTD_RES = [50, 51]
MISSING_RES = [100, 101]
DTD_ENT_BASE = 900       # r50 declares e900, r51 declares e901

TIME_LIMIT_S = 2.0            # per request, wall clock (typical: < 5 ms)
RSS_LIMIT_KB = 96 * 1024      # growth of the peak RSS caused by one request


def lean_camel(s):
    p = s.split('_')
    return p[0] + ''.join(x.capitalize() for x in p[1:])


def resolve_name(v):
    return {False: 'off', True: 'all', 'internal': 'internal'}.get(v, 'other') if not isinstance(v, str) or v == 'internal' \
        else 'other'


def proto_classes():
    from spyne.protocol.xml import XmlDocument
    from spyne.protocol.soap import Soap11, Soap12
    return {'xml': XmlDocument, 'soap11': Soap11, 'soap12': Soap12}


# ======================================================================================= rendering
def esc_text(s):
    return s.replace('&', '&amp;').replace('<', '&lt;').replace('>', '&gt;')


def esc_attr(s):
    return esc_text(s).replace('"', '&quot;').replace('\n', '&#10;').replace('\t', '&#9;')


def esc_entval(s):
    return s.replace('&', '&#38;').replace('%', '&#37;').replace('"', '&#34;').replace('<', '&#60;')


class World:
    """the canary directory and the canary listening sockets of one worker"""

    def __init__(self, directory, token):
        self.dir, self.token = directory, token
        self.port = 0

    def uri(self, u):
        scheme, res = u
        if scheme == 'file':
            return 'file://%s/r%d' % (self.dir, res)
        return '%s://127.0.0.1:%d/r%d' % (scheme, self.port, res)

    def text_of(self, res):
        return 'CANARY%sT%dZ' % (self.token, res)

    def dtd_marker(self, res):
        return 'CANARY%sD%dZ' % (self.token, res)

    def attlist_marker(self, res):
        return 'CANARY%sA%dZ' % (self.token, res)

    def content(self, res):
        if res in TEXT_RES:
            return self.text_of(res)
        if res in DTD_RES:
            # an entity and a default for the declared attribute `tag` of <t:item> (prefix as rendered)
            return '<!ENTITY e%d "%s">\n<!ATTLIST t:item tag CDATA "%s">' % (
                DTD_ENT_BASE + res - 50, self.dtd_marker(res), self.attlist_marker(res))
        return None

    def env_json(self):
        pres = [[s, r] for s in ('file', 'http', 'ftp') for r in TEXT_RES + DTD_RES]
        text = [[s, r, cps(self.text_of(r))] for s in ('file', 'http', 'ftp') for r in TEXT_RES]
        decls = [[s, r, [[DTD_ENT_BASE + r - 50, {'int': [{'l': cps(self.dtd_marker(r))}]}]]]
                 for s in ('file', 'http', 'ftp') for r in DTD_RES]
        return {'present': pres, 'text': text, 'decls': decls}

    def secrets(self):
        return [self.text_of(r) for r in TEXT_RES] + [self.dtd_marker(r) for r in DTD_RES] + \
            [self.attlist_marker(r) for r in DTD_RES]


def cps(s):
    return [ord(c) for c in s]


def uncps(l):
    return ''.join(chr(c) for c in l)


def render_pieces(ps, esc):
    return ''.join(esc(uncps(p['l'])) if 'l' in p else '&e%d;' % p['r'] for p in ps)


def qname(tag, used):
    if tag.startswith('{'):
        ns, local = tag[1:].split('}', 1)
        pre = PREFIX.get(ns)
        if pre is None:
            pre = PREFIX[ns] = 'n%d' % len(PREFIX)
        used.add(ns)
        return '%s:%s' % (pre, local)
    return tag


def render_dtd(dtd, world):
    if dtd is None:
        return ''
    out = ['<!DOCTYPE x']
    if dtd.get('sub') is not None:
        out.append(' SYSTEM "%s"' % world.uri(dtd['sub']))
    out.append(' [')
    for n, d in dtd.get('ents', []):
        if 'ext' in d:
            out.append('<!ENTITY e%d SYSTEM "%s">' % (n, world.uri(d['ext'])))
        else:
            out.append('<!ENTITY e%d "%s">' % (n, render_pieces(d['int'], esc_entval)))
    for i, u in enumerate(dtd.get('pe', [])):
        out.append('<!ENTITY %% p%d SYSTEM "%s"> %%p%d;' % (i, world.uri(u), i))
    out.append(']>')
    return ''.join(out)


def render(doc, world, xmldecl=False, encoding='utf-8'):
    """abstract document (the JSON given to the model) -> bytes"""
    out = []
    if encoding == 'iso-8859-1':
        out.append('<?xml version="1.0" encoding="iso-8859-1"?>')
    elif xmldecl:
        out.append('<?xml version="1.0" encoding="utf-8"?>')
    out.append(render_dtd(doc.get('dtd'), world))
    used = set()
    body = []
    first = True
    for t in doc['body']:
        if t == 'c':
            body.append(None)       # patched below (needs the matching name)
        elif 'o' in t:
            body.append(('o', qname(t['o'], used),
                         ''.join(' %s="%s"' % (qname(k, used), render_pieces(v, esc_attr)) for k, v in t['a'])))
        elif 't' in t:
            body.append(('t', esc_text(uncps(t['t']))))
        else:
            body.append(('t', '&e%d;' % t['r']))
    stack = []
    for item in body:
        if item is None:
            out.append('</%s>' % (stack.pop() if stack else 'unbalanced'))
        elif item[0] == 'o':
            if first:
                first = False
                decl = ''.join(' xmlns:%s="%s"' % (PREFIX[ns], ns) for ns in sorted(used))
                out.append('<%s%s%s>' % (item[1], decl, item[2]))
            else:
                out.append('<%s%s>' % (item[1], item[2]))
            stack.append(item[1])
        else:
            out.append(item[1])
    text = ''.join(out)
    for ph_s in ('file', 'http', 'ftp'):
        if '@URI:' not in text:
            break
        for ph_r in TEXT_RES + DTD_RES + MISSING_RES:
            text = text.replace('@URI:%s:%d@' % (ph_s, ph_r), world.uri((ph_s, ph_r)))
    return text.encode(encoding)     # 'utf-16' writes a byte order mark


def canon_tree(root):
    """lxml element -> normalised token list (as the model's normOut prints it)"""
    from lxml import etree
    toks = []

    def text(s):
        if s:
            if toks and isinstance(toks[-1], dict) and 't' in toks[-1]:
                toks[-1]['t'] += cps(s)
            else:
                toks.append({'t': cps(s)})

    def rec(el):
        if isinstance(el, etree._Entity):
            name = el.name
            toks.append({'e': int(name[1:])} if name[:1] == 'e' and name[1:].isdigit() else {'e': name})
        elif isinstance(el, etree._Comment):
            toks.append({'x': 'comment'})
        elif isinstance(el, etree._ProcessingInstruction):
            toks.append({'x': 'pi'})
        else:
            toks.append({'o': el.tag, 'a': [[k, cps(v)] for k, v in el.attrib.items()]})
            text(el.text)
            for c in el:
                rec(c)
                text(c.tail)
            toks.append('c')
    rec(root)
    return toks


# ======================================================================================= the worker
WORKER_SERVICE = None


def build_stack():
    """the real application stack driven by the worker"""
    import logging
    logging.disable(logging.CRITICAL)
    from spyne import Application, rpc, ServiceBase, Unicode, ComplexModel, XmlAttribute, Array
    captured = []

    class Item(ComplexModel):
        __namespace__ = TNS
        _type_info = [('name', Unicode), ('tag', XmlAttribute(Unicode)), ('note', Unicode)]

    from spyne import AnyDict, AnyXml, AnyHtml, XmlData
    from lxml import etree as _et

    class Wrap(ComplexModel):
        __namespace__ = TNS
        _type_info = [('val', XmlData(Unicode)), ('at', XmlAttribute(Unicode))]

    from spyne import Integer, ByteArray, Iterable
    from spyne.model.enum import Enum
    import base64 as _b64

    class Inner(ComplexModel):
        __namespace__ = TNS
        _type_info = [('v', Unicode), ('arr', Array(Unicode)), ('multi', Unicode(max_occurs=3))]

    class Outer(ComplexModel):
        __namespace__ = TNS
        _type_info = [('inner', Inner)]

    class Hdr(ComplexModel):
        __namespace__ = TNS
        _type_info = [('token', Unicode)]

    class ProbeResult(ComplexModel):
        __namespace__ = TNS
        _type_info = [('d', AnyDict), ('x', AnyXml), ('h', AnyHtml), ('w', Wrap), ('o', Outer)]

    Color = Enum('pre', 'preX', type_name='Color')

    def flat(o):
        if isinstance(o, dict):
            return ''.join('{%s=%s}' % (k, flat(v)) for k, v in o.items())
        if isinstance(o, (list, tuple)):
            return ''.join('[%s]' % flat(v) for v in o)
        return '' if o is None else str(o)

    def ser(e):
        # the element as handed over; serialising it writes entity nodes as references (no replacement text)
        return None if e is None else _et.tostring(e).decode('utf-8', 'replace')

    class Svc(ServiceBase):
        __in_header__ = Hdr

        @rpc(Unicode, Item, Array(Unicode), _returns=Unicode)
        def echo(ctx, s, item, lst):
            hdr = getattr(ctx, 'in_header', None)
            rec = {'s': s, 'name': None if item is None else item.name, 'tag': None if item is None else item.tag,
                   'note': None if item is None else item.note, 'lst': None if lst is None else list(lst),
                   'hdr.token': getattr(hdr, 'token', None) if hdr is not None and not isinstance(hdr, (list, tuple)) else
                   (getattr(hdr[0], 'token', None) if hdr else None)}
            captured.append(rec)
            return 'R[%s|%s|%s|%s|%s|%s]' % (s, rec['name'], rec['tag'], rec['note'], rec['lst'], rec['hdr.token'])

        @rpc(AnyDict, AnyXml, AnyHtml, Wrap, Outer, _returns=ProbeResult)
        def probe(ctx, d, x, h, w, o):
            inner = None if o is None else o.inner
            key = None
            if isinstance(d, dict) and d.get('key'):
                key = d['key'][0] if isinstance(d['key'], list) else d['key']
            rec = {'d': flat(d), 'd.key': key if isinstance(key, str) or key is None else flat(key),
                   'x': ser(x), 'h': ser(h),
                   'w.val': None if w is None else w.val, 'w@at': None if w is None else w.at,
                   'o.v': None if inner is None else inner.v,
                   'o.arr0': None if inner is None or not inner.arr else inner.arr[0],
                   'o.multi0': None if inner is None or not inner.multi else inner.multi[0]}
            captured.append(rec)
            # what was received goes back out: the response path of every kind runs under the same oracle
            return ProbeResult(d=d, x=x, h=h, w=w, o=o)

        @rpc(Integer, ByteArray, Color, Iterable(Unicode), _returns=Unicode)
        def typed(ctx, n, b, e, it):
            it = None if it is None else list(it)
            rec = {'n': None if n is None else str(n),
                   'b': None if b is None else _b64.b64encode(b''.join(b)).decode(),
                   'e': None if e is None else str(e),
                   'it0': None if not it else it[0]}
            captured.append(rec)
            return 'T[%s|%s|%s|%s]' % (rec['n'], rec['b'], rec['e'], rec['it0'])

    return Application, Svc, captured


class Worker:
    def __init__(self, directory, token):
        import ctypes, socket, threading
        self.world = World(directory, token)
        for r in TEXT_RES + DTD_RES:
            with open(os.path.join(directory, 'r%d' % r), 'w') as f:
                f.write(self.world.content(r))
        # inotify on the canary directory: every open / read of any file in it is seen
        self.libc = ctypes.CDLL('libc.so.6', use_errno=True)
        self.ifd = self.libc.inotify_init1(os.O_NONBLOCK)
        if self.ifd < 0 or self.libc.inotify_add_watch(self.ifd, directory.encode(), 0x20 | 0x1) < 0:
            raise RuntimeError('inotify unavailable')
        # one listening socket serves as http and ftp canary
        self.hits = []
        self.srv = socket.socket()
        self.srv.bind(('127.0.0.1', 0))
        self.srv.listen(16)
        self.world.port = self.srv.getsockname()[1]
        threading.Thread(target=self._serve, daemon=True).start()
        self.Application, self.Svc, self.captured = build_stack()
        self.protos = proto_classes()
        self.apps = {}
        self.seen = None

    def _serve(self):
        while True:
            try:
                c, _ = self.srv.accept()
            except OSError:
                return
            self.hits.append(1)
            try:
                c.settimeout(0.5)
                data = c.recv(4096)
                body = b''
                try:
                    res = int(data.split(b' ')[1].rsplit(b'/r', 1)[1])
                    body = (self.world.content(res) or '').encode()
                except Exception:
                    pass
                c.sendall(b'HTTP/1.0 200 OK\r\nContent-Type: text/xml\r\nContent-Length: %d\r\n\r\n%s' % (len(body), body))
            except Exception:
                pass
            c.close()

    def files_opened(self):
        import struct
        names = set()
        while True:
            try:
                data = os.read(self.ifd, 65536)
            except BlockingIOError:
                return sorted(names)
            i = 0
            while i < len(data):
                _, _, _, ln = struct.unpack_from('iIII', data, i)
                nm = data[i + 16:i + 16 + ln].rstrip(b'\0').decode()
                if nm:          # '' = the directory itself was opened (a directory walk by some other process)
                    names.add(nm)
                i += 16 + ln

    def proto(self, name, kw, validator=None):
        if kw == 'defaults':
            # "with default settings": whatever the repository's defaults are
            return self.protos[name](validator=validator) if validator else self.protos[name]()
        args = dict(kw)
        if validator:
            args['validator'] = validator
        args.pop('remove_comments', None)
        args['resolve_entities'] = {'off': False, 'internal': 'internal', 'all': True}[args['resolve_entities']]
        return self.protos[name](**args)

    def app(self, name, kw, validator=None):
        key = (name, json.dumps(kw, sort_keys=True), validator)
        if key not in self.apps:
            a = self.Application([self.Svc], TNS, in_protocol=self.proto(name, kw, validator), out_protocol=self.protos[name]())
            a.in_protocol.event_manager.add_listener('before_deserialize', self._on_deser)
            self.apps[key] = a
        return self.apps[key]

    def _on_deser(self, ctx):
        try:
            self.seen = canon_tree(ctx.in_document)
        except Exception as e:      # never let the observer change the outcome
            self.seen = {'observer_error': repr(e)}

    # ------------------------------------------------------------------ ops
    def op_parse(self, q):
        """the real create_in_document of a real XmlDocument(**kw)"""
        from spyne import MethodContext
        from spyne.server import ServerBase
        from spyne.model.fault import Fault
        a = self.app('xml', q['kw'])
        ctx = MethodContext(ServerBase(a), MethodContext.SERVER)
        ctx.in_string = [render(q['doc'], self.world)]
        try:
            a.in_protocol.create_in_document(ctx)
            return {'ok': canon_tree(ctx.in_document)}
        except Fault as e:
            return {'fault': str(e.faultcode)}
        except Exception as e:
            return {'crash': type(e).__name__}

    def request_bytes(self, q):
        enc = q['req'].get('encoding', 'utf-8')
        body = render(q['req']['doc'], self.world, xmldecl=q['req'].get('unicode_decl', False), encoding=enc)
        cs = q['req'].get('charset', 'utf-8')       # what the Content-Type header announces: a charset name or None
        ctype = 'text/xml' + ('; charset=%s' % cs if cs else '')
        if q['req'].get('multipart') == 'single':
            # multipart/related with the envelope as its only part: no attachment is joined, the envelope reaches
            # _parse_xml_string as text
            body = b'--BOUND\r\nContent-Type: text/xml; charset=utf-8\r\nContent-ID: <root>\r\n\r\n' + body + b'\r\n--BOUND--\r\n'
            ctype = 'multipart/related; boundary="BOUND"; start="<root>"; type="text/xml"'
        elif q['req'].get('multipart'):
            # the attachment is named by its Content-ID, or ('cloc') by its Content-Location with an empty Content-ID:
            # the two branches of collapse_swa that join an attachment into the envelope
            ident = b'Content-ID: <>\r\nContent-Location: att1' if q['req']['multipart'] == 'cloc' else b'Content-ID: <att1>'
            body = (b'--BOUND\r\nContent-Type: text/xml; charset=utf-8\r\nContent-ID: <root>\r\n\r\n' + body +
                    b'\r\n--BOUND\r\nContent-Type: application/octet-stream\r\nContent-Transfer-Encoding: base64\r\n' +
                    ident + b'\r\n\r\nQUJD\r\n--BOUND--\r\n')
            ctype = 'multipart/related; boundary="BOUND"; start="<root>"; type="text/xml"'
        return body, ctype

    def op_handle(self, q):
        """the whole stack: ServerBase or WsgiApplication"""
        import io
        from spyne import MethodContext
        from spyne.server import ServerBase
        from spyne.server.wsgi import WsgiApplication
        a = self.app(q['proto'], q['kw'], q.get('validator'))
        if q.get('history') == 'unsafe-sibling':
            # a differently configured instance of the same class is created after the one under test
            a = self.Application([self.Svc], TNS, in_protocol=self.protos[q['proto']](), out_protocol=self.protos[q['proto']]())
            a.in_protocol.event_manager.add_listener('before_deserialize', self._on_deser)
            self.protos[q['proto']](resolve_entities=True, load_dtd=True, huge_tree=True, no_network=False)
        body, ctype = self.request_bytes(q)
        self.seen = None
        del self.captured[:]
        resp, status, fault, crash = b'', None, None, None
        try:
            if q['tr'] == 'server':
                srv = ServerBase(a)
                ctx = MethodContext(srv, MethodContext.SERVER)
                ctx.in_string = [body]
                for c in srv.generate_contexts(ctx):
                    if c.in_error is None:
                        srv.get_in_object(c)
                    if c.in_error is None:
                        try:
                            srv.get_out_object(c)
                        except Exception as e:
                            from spyne.model.fault import Fault
                            if not isinstance(e, Fault):
                                raise
                            c.out_error = e
                    else:
                        c.out_error = c.in_error
                    srv.get_out_string(c)
                    resp += b''.join(c.out_string)
                    if c.out_error is not None:
                        fault = str(getattr(c.out_error, 'faultcode', type(c.out_error).__name__))
            else:
                w = WsgiApplication(a)
                env = {'REQUEST_METHOD': 'POST', 'PATH_INFO': '/', 'SCRIPT_NAME': '', 'QUERY_STRING': '',
                       'SERVER_NAME': 'c17', 'SERVER_PORT': '80', 'CONTENT_TYPE': ctype, 'CONTENT_LENGTH': str(len(body)),
                       'wsgi.input': io.BytesIO(body), 'wsgi.url_scheme': 'http', 'wsgi.errors': io.StringIO(),
                       'wsgi.version': (1, 0), 'wsgi.multithread': False, 'wsgi.multiprocess': False, 'wsgi.run_once': False}
                st = {}
                faults = []
                lid = lambda c: faults.append(str(getattr(c.out_error, 'faultcode', type(c.out_error).__name__)))
                w.event_manager.add_listener('wsgi_exception', lid)
                resp = b''.join(w(env, lambda s, h, e=None: st.update(status=s)))
                status = st.get('status')
                fault = faults[0] if faults else None
        except Exception as e:
            crash = type(e).__name__
        return {'seen': self.seen, 'fault': fault, 'crash': crash, 'status': status,
                'captured': list(self.captured), 'resp': resp.decode('utf-8', 'replace')}

    def op_schema(self, q):
        """the schema tools (spyne.util.xml.parse_schema_string -> interface/xml_schema/parser.py): the XSD of this very
        application with a hostile DOCTYPE, an entity reference in an element name and one in a documentation text"""
        from lxml import etree
        from spyne.util.xml import parse_schema_string
        from spyne.interface.xml_schema import XmlSchema
        if getattr(self, 'xsd', None) is None:
            xs = XmlSchema(self.app('xml', 'defaults').interface)
            xs.build_interface_document()
            self.xsd = etree.tostring(xs.get_interface_document()['tns']).decode()
        head, rest = self.xsd.split('>', 1)
        extra = '<xs:annotation><xs:documentation>%s</xs:documentation></xs:annotation>' % render_pieces(q['text'], esc_text)
        extra += '<xs:element name="hostile%s" type="xs:string"/>' % render_pieces(q['attr'], esc_attr)
        doc = (render_dtd(q['dtd'], self.world) + head + '>' + extra + rest).encode()
        try:
            if q.get('via') == 'file':
                # parse_schema_file + xs:include: the hostile document is the included file (directory not watched:
                # reading the schema files themselves is what the tool is for)
                from spyne.util.xml import parse_schema_file
                d_ = self.world.dir + '-xsd'
                os.makedirs(d_, exist_ok=True)
                inc = ('<xs:schema xmlns:xs="http://www.w3.org/2001/XMLSchema" targetNamespace="%s">%s'
                       '<xs:simpleType name="IncT"><xs:restriction base="xs:string"><xs:maxLength value="9"/></xs:restriction>'
                       '</xs:simpleType></xs:schema>' % (TNS, extra))
                open(os.path.join(d_, 'inc.xsd'), 'w').write(render_dtd(q['dtd'], self.world) + inc)
                open(os.path.join(d_, 'main.xsd'), 'w').write(head + '><xs:include schemaLocation="inc.xsd"/>' + rest)
                r = parse_schema_file(os.path.join(d_, 'main.xsd'))
            else:
                r = parse_schema_string(doc)
            seen = ' '.join('%s %s %s' % (ns, sorted(map(str, sc.types)), sorted(map(str, sc.elements))) for ns, sc in r.items())
            seen += ' ' + ' '.join(repr(t) for sc in r.values() for t in sc.types.values())[:20000]
            return {'result': seen, 'exc': None}
        except Exception as e:
            return {'result': '', 'exc': type(e).__name__, 'msg': str(e)[:300]}

    def run(self, q):
        import resource
        self.files_opened()
        del self.hits[:]
        rss0 = resource.getrusage(resource.RUSAGE_SELF).ru_maxrss
        t0 = time.time()
        r = self.op_parse(q) if q['op'] == 'parse' else self.op_schema(q) if q['op'] == 'schema' else self.op_handle(q)
        wall = time.time() - t0
        rss1 = resource.getrusage(resource.RUSAGE_SELF).ru_maxrss
        time.sleep(0)  # let the canary thread run
        r.update(files=self.files_opened(), net=len(self.hits), wall=round(wall, 4), rss_kb=rss1 - rss0)
        return r


def worker_main(directory, token):
    import resource
    try:
        resource.setrlimit(resource.RLIMIT_AS, (3 << 29, 3 << 29))    # 1.5 GB
    except Exception:
        pass
    w = Worker(directory, token)
    out = sys.stdout
    out.write(json.dumps({'ready': True, 'port': w.world.port}) + '\n')
    out.flush()
    for line in sys.stdin:
        line = line.strip()
        if not line:
            continue
        q = json.loads(line)
        try:
            r = w.run(q)
        except MemoryError:
            r = {'worker_error': 'MemoryError'}
        except Exception as e:
            r = {'worker_error': repr(e)}
        out.write(json.dumps(r) + '\n')
        out.flush()
    _save_coverage()


def _save_coverage():
    """when the check runs under coverage.py (tools/covreport.py) the workers hand in their data, too"""
    if os.environ.get('COVERAGE_PROCESS_START'):
        try:
            import coverage
            c = coverage.Coverage.current()
            if c is not None:
                c.stop()
                c.save()
        except Exception:
            pass


class Pool:
    """worker subprocesses; a request that kills or stalls its worker is reported, the rest goes on"""

    def __init__(self, ctx, n):
        self.ctx = ctx
        Pool.count = getattr(Pool, 'count', 0) + 1
        self.base = os.path.join(core.VERIF, '.scratch', 'c17-%d-%d' % (os.getpid(), Pool.count))
        shutil.rmtree(self.base, ignore_errors=True)
        os.makedirs(self.base)
        self.n = n
        self.token = '%08x' % ctx.rng.getrandbits(32)

    def world(self, i):
        d = os.path.join(self.base, 'w%d' % i)
        return World(d, self.token)

    def _spawn(self, i):
        d = os.path.join(self.base, 'w%d' % i)
        os.makedirs(d, exist_ok=True)
        p = subprocess.Popen([sys.executable, '-B', '-m', 'harness.c17', '--worker', d, self.token], cwd=core.VERIF,
                             stdin=subprocess.PIPE, stdout=subprocess.PIPE, stderr=subprocess.DEVNULL, text=True)
        ready = p.stdout.readline()
        if not ready:
            raise core.Infra('C17 worker did not start')
        return p

    def run(self, queries, timeout=20.0, keys=None):
        """returns one result per query; {'dead': reason} when the worker died / stalled on it.
        keys[i]: after two deaths with the same key the remaining queries of that key are not run"""
        import threading
        results = [None] * len(queries)
        deaths = {}
        chunks = [list(range(i, len(queries), self.n)) for i in range(self.n)]

        def work(i, idxs):
            p = self._spawn(i)
            k = 0
            while k < len(idxs):
                qi = idxs[k]
                if keys is not None and deaths.get(keys[qi], 0) >= 2:
                    results[qi] = {'dead': 'not run: this kind of request already exhausted its worker twice', 'wall': 0}
                    k += 1
                    continue
                try:
                    p.stdin.write(json.dumps(queries[qi], separators=(',', ':')) + '\n')
                    p.stdin.flush()
                except Exception:
                    pass
                line = [None]

                def rd():
                    line[0] = p.stdout.readline()
                t = threading.Thread(target=rd, daemon=True)
                t0 = time.time()
                t.start()
                t.join(timeout)
                if line[0]:
                    results[qi] = json.loads(line[0])
                else:
                    reason = 'timeout>%ss' % timeout if t.is_alive() else 'worker died (rc=%s)' % p.poll()
                    results[qi] = {'dead': reason, 'wall': round(time.time() - t0, 2)}
                    if keys is not None:
                        deaths[keys[qi]] = deaths.get(keys[qi], 0) + 1
                    p.kill()
                    p.wait()
                    p = self._spawn(i)
                k += 1
            try:
                p.stdin.close()
                p.wait(timeout=60 if os.environ.get('COVERAGE_PROCESS_START') else 5)
            except Exception:
                p.kill()
        ths = [threading.Thread(target=work, args=(i, ch)) for i, ch in enumerate(chunks) if ch]
        [t.start() for t in ths]
        [t.join() for t in ths]
        return results

    def close(self):
        shutil.rmtree(self.base, ignore_errors=True)


# ======================================================================================= T1 facts
DEFAULT_KW = {'attribute_defaults': False, 'dtd_validation': False, 'load_dtd': False, 'no_network': True,
              'ns_clean': False, 'recover': False, 'remove_blank_text': False, 'remove_comments': True,
              'remove_pis': True, 'strip_cdata': True, 'resolve_entities': 'off', 'huge_tree': False, 'compact': True}


def kw_json(d):
    """live parser_kwargs dict -> canonical JSON form (None when a value has an unexpected type)"""
    r = {}
    for k in KW_KEYS:
        v = d.get(k, None)
        if k == 'resolve_entities':
            r[k] = 'off' if v is False else 'all' if v is True else 'internal' if v == 'internal' else None
        else:
            r[k] = v if isinstance(v, bool) else None
    return r


def ctor_defaults(cls):
    """defaults of the parser keywords in the first __init__ of the MRO that names them"""
    for c in cls.__mro__:
        init = c.__dict__.get('__init__')
        if init is None:
            continue
        try:
            sig = inspect.signature(init)
        except (TypeError, ValueError):
            continue
        if 'resolve_entities' in sig.parameters:
            d = {}
            for a in BOOL_ARGS + ['resolve_entities']:
                p = sig.parameters.get(a)
                d[a] = p.default if p is not None and p.default is not inspect.Parameter.empty else None
            return d
    return {a: None for a in BOOL_ARGS + ['resolve_entities']}


def measure_plumbing(cls):
    base = cls().parser_kwargs
    basej = kw_json(base)
    defs = ctor_defaults(cls)
    deps = {k: [] for k in KW_KEYS}
    for a in BOOL_ARGS:
        if not isinstance(defs.get(a), bool):
            continue
        flipped = not defs[a]
        got = kw_json(cls(**{a: flipped}).parser_kwargs)
        for k in KW_KEYS:
            if got[k] != basej[k]:
                deps[k].append((a, got[k] == flipped if k != 'resolve_entities' else False))
    rdep = True
    for v, name in ((False, 'off'), ('internal', 'internal'), (True, 'all')):
        got = kw_json(cls(resolve_entities=v).parser_kwargs)
        for k in KW_KEYS:
            if k == 'resolve_entities':
                rdep = rdep and got[k] == name
            elif got[k] != basej[k]:
                deps[k].append(('resolve_entities', False))
    plumb = {}
    for k in KW_KEYS:
        if k == 'resolve_entities':
            plumb[k] = 'arg' if rdep and not deps[k] else 'other'
        elif not deps[k]:
            plumb[k] = ('const', basej[k]) if basej[k] is not None else 'other'
        elif len(deps[k]) == 1 and deps[k][0][1]:
            plumb[k] = ('arg', deps[k][0][0])
        else:
            plumb[k] = 'other'
    extra = sorted(set(base) - set(KW_KEYS) - {'encoding'})
    return plumb, basej, defs, extra


_SVC = None


def at_request_kw(cls, validator, args=None, run_request=False):
    """the keyword dict of a protocol instance AT REQUEST TIME: after the validator was chosen, the Application,
    a ServerBase and a WsgiApplication were built around it (set_validator / set_app have run)"""
    global _SVC
    from spyne.server import ServerBase
    from spyne.server.wsgi import WsgiApplication
    if _SVC is None:
        _SVC = build_stack()
    Application, Svc, _ = _SVC
    real = dict(args or {})
    if 'resolve_entities' in real:
        real['resolve_entities'] = {'off': False, 'internal': 'internal', 'all': True}[real['resolve_entities']]
    if validator:
        real['validator'] = validator
    p = cls(**real)
    app = Application([Svc], TNS, in_protocol=p, out_protocol=cls())
    srv = ServerBase(app)
    WsgiApplication(app)
    if run_request:
        from spyne import MethodContext
        ctx = MethodContext(srv, MethodContext.SERVER)
        ctx.in_string = [b'<t:echo xmlns:t="%s"><t:s>x</t:s></t:echo>' % TNS.encode()]
        try:
            for c in srv.generate_contexts(ctx):
                if c.in_error is None:
                    srv.get_in_object(c)
        except Exception:
            pass
    return app.in_protocol.parser_kwargs


VALIDATORS = [None, 'soft', 'lxml']
VNAME = {None: 'none', 'soft': 'soft', 'lxml': 'lxml'}


def measure_post(cls):
    """per validator: what the configuration path does to every key, and extra keys found at request time"""
    base = {a: DEFAULT_KW[a] for a in BOOL_ARGS}
    base['resolve_entities'] = 'off'
    tests = [dict(base)] + [dict(base, **{a: not base[a]}) for a in BOOL_ARGS] + \
        [dict(base, resolve_entities=r) for r in ('internal', 'all')]
    post, live, extra = {}, {}, set()
    for v in VALIDATORS:
        obs = []
        for i, t in enumerate(tests):
            d = at_request_kw(cls, v, t, run_request=(i == 0))
            extra |= set(d) - set(KW_KEYS) - {'encoding'}
            obs.append((kw_json(cls(**dict({k: x for k, x in t.items() if k != 'resolve_entities'},
                                          resolve_entities={'off': False, 'internal': 'internal', 'all': True}[t['resolve_entities']])).parser_kwargs),
                        kw_json(d)))
        w = {}
        for k in KW_KEYS:
            if all(b[k] == a[k] for a, b in obs):
                w[k] = 'keep'
            elif len({b[k] for a, b in obs}) == 1 and obs[0][1][k] is not None:
                w[k] = ('set', obs[0][1][k])
            else:
                w[k] = 'other'
        post[VNAME[v]] = w
        live[VNAME[v]] = kw_json(at_request_kw(cls, v, None, run_request=True))
    return post, live, sorted(extra)


def probe_doc(cls, doc, **kw):
    """drive the real create_in_document of cls(**kw) on bytes; 'ok' / fault code / crash class"""
    from spyne import MethodContext, Application, ServiceBase
    from spyne.server import ServerBase
    from spyne.model.fault import Fault
    p = kw.pop('_instance', None) or cls(**kw)
    app = getattr(p, '_c17_app', None)
    if app is None:
        app = p._c17_app = Application([ServiceBase], TNS, in_protocol=p, out_protocol=cls())
    ctx = MethodContext(ServerBase(app), MethodContext.SERVER)
    ctx.in_string = [doc]
    try:
        p.create_in_document(ctx)
        return 'ok', ctx.in_document
    except Fault as e:
        return str(e.faultcode), None
    except Exception as e:
        return 'crash:' + type(e).__name__, None


def chain_doc(depth, fan, base=b'aaaaaaaaaa', attr=True):
    d = b'<!DOCTYPE r [<!ENTITY e0 "%s">' % base + b''.join(
        b'<!ENTITY e%d "%s">' % (i, b'&e%d;' % (i - 1) * fan) for i in range(1, depth + 1)) + b']>'
    return d + (b'<r k="&e%d;"/>' % depth if attr else b'<r>&e%d;</r>' % depth)


def bisect_max(ok, lo, hi):
    """largest n in [lo, hi] with ok(n) (ok monotone, ok(lo) assumed)"""
    if not ok(lo):
        return lo - 1
    while lo < hi:
        mid = (lo + hi + 1) // 2
        if ok(mid):
            lo = mid
        else:
            hi = mid - 1
    return lo


def measure_lib(scratch):
    """limits of the libxml2 build, measured through the real XmlDocument.create_in_document"""
    from lxml import etree
    from spyne.protocol.xml import XmlDocument
    lib = {}
    # explicit keywords: these are limits of libxml2, not of the repository's defaults
    ex = dict(resolve_entities=False, load_dtd=False, no_network=True, attribute_defaults=False, dtd_validation=False)
    lib['maxDepth'] = bisect_max(lambda n: probe_doc(XmlDocument, b'<a>' * n + b'</a>' * n, huge_tree=False, **ex)[0] == 'ok', 1, 5000)
    lib['maxEntDepth'] = 1 + bisect_max(lambda n: probe_doc(XmlDocument, chain_doc(n, 1), huge_tree=False, **ex)[0] == 'ok', 0, 300)
    lib['maxEntDepthHuge'] = 1 + bisect_max(lambda n: probe_doc(XmlDocument, chain_doc(n, 1), huge_tree=True, **ex)[0] == 'ok', 0, 300)
    # network schemes: "Attempt to load network entity" under no_network
    w = World(scratch, 'probe')
    os.makedirs(scratch, exist_ok=True)
    open(os.path.join(scratch, 'r1'), 'w').write('PROBE')
    import socket
    s = socket.socket()
    s.bind(('127.0.0.1', 0))
    s.listen(4)
    s.settimeout(0.0)
    w.port = s.getsockname()[1]
    isnet = {}
    for sch in ('file', 'http', 'ftp'):
        doc = ('<!DOCTYPE r [<!ENTITY e1 SYSTEM "%s">]><r>&e1;</r>' % w.uri((sch, 1))).encode()
        try:
            etree.fromstring(doc, parser=etree.XMLParser(resolve_entities=True, no_network=True))
            isnet[sch] = False
        except etree.XMLSyntaxError:
            isnet[sch] = True
    lib['isNet'] = isnet
    hit = False
    for sch in ('http', 'ftp'):
        doc = ('<!DOCTYPE r [<!ENTITY e1 SYSTEM "%s">]><r>&e1;</r>' % w.uri((sch, 1))).encode()
        import threading
        t = threading.Thread(target=lambda: _quiet(lambda: etree.fromstring(doc, parser=etree.XMLParser(resolve_entities=True, no_network=False))), daemon=True)
        t.start()
        t.join(1.0)
        try:
            c, _ = s.accept()
            c.close()
            hit = True
        except (BlockingIOError, socket.timeout, OSError):
            pass
    s.close()
    lib['netSupported'] = hit
    # lxml's module default parser and the schema tools' module-level PARSER, by behaviour
    open(os.path.join(scratch, 'r50'), 'w').write('<!ENTITY e900 "D">')
    lib['lxmlDefault'] = behavioural_kw(None, w, lib['maxDepth'])
    from spyne.interface.xml_schema import parser as schema_parser
    lib['schemaToolKw'] = behavioural_kw(getattr(schema_parser, 'PARSER', None), w, lib['maxDepth'])
    shutil.rmtree(scratch, ignore_errors=True)
    return lib


def behavioural_kw(parser, w, max_depth):
    """the keyword table of a parser object (None = lxml's module default), measured by what it does"""
    from lxml import etree
    P = lambda doc: etree.fromstring(doc, parser=parser)
    d = dict(DEFAULT_KW)
    try:
        r = P(b'<!DOCTYPE r [<!ENTITY e1 "X"><!ENTITY e2 SYSTEM "%s">]><r><a>&e1;</a><b>&e2;</b><!--c--><?p i?></r>'
              % w.uri(('file', 1)).encode())
        exp_int = r[0].text == 'X'
        exp_ext = r[1].text == 'PROBE'
        d['resolve_entities'] = 'all' if exp_ext else 'internal' if exp_int else 'off'
    except etree.XMLSyntaxError:
        d['resolve_entities'] = 'internal'        # lxml >= 5: an external entity is "not defined"
    r = P(b'<r><!--c--><?p i?></r>')
    d['remove_comments'] = not any(isinstance(c, etree._Comment) for c in r)
    d['remove_pis'] = not any(isinstance(c, etree._ProcessingInstruction) for c in r)
    try:
        P(b'<a>' * (max_depth + 5) + b'</a>' * (max_depth + 5))
        d['huge_tree'] = True
    except etree.XMLSyntaxError:
        d['huge_tree'] = False
    try:
        r = P(('<!DOCTYPE r SYSTEM "%s"><r k="&e900;"/>' % w.uri(('file', 50))).encode())
        d['load_dtd'] = r.get('k') == 'D'
    except etree.XMLSyntaxError:
        d['load_dtd'] = False
    return d


def _quiet(f):
    try:
        f()
    except Exception:
        pass


# ---------------------------------------------------------------------------- parse call sites (ast)
PARSE_FUNCS = {'fromstring', 'XML', 'XMLID', 'parse', 'iterparse', 'fromstringlist', 'XMLDTDID'}
PARSER_ARG_POS = {'fromstring': 1, 'XML': 1, 'XMLID': 1, 'parse': 1, 'fromstringlist': 1, 'XMLDTDID': 1}


class Mod:
    def __init__(self, path, rel):
        self.path, self.rel = path, rel
        self.tree = ast.parse(open(path, encoding='utf-8').read())
        self.funcs = {}          # qualname -> FunctionDef
        self.imports = {}        # local name -> (module rel path or None, original name)
        self.consts = {}         # module-level NAME = <expr>
        self.etree_names = set()
        self.html_names = set()
        for node in self.tree.body:
            if isinstance(node, (ast.FunctionDef, ast.AsyncFunctionDef)):
                self.funcs[node.name] = node
            elif isinstance(node, ast.ClassDef):
                for n in node.body:
                    if isinstance(n, (ast.FunctionDef, ast.AsyncFunctionDef)):
                        self.funcs[node.name + '.' + n.name] = n
            elif isinstance(node, ast.Assign) and len(node.targets) == 1 and isinstance(node.targets[0], ast.Name):
                self.consts[node.targets[0].id] = node.value
        for node in ast.walk(self.tree):
            if isinstance(node, ast.ImportFrom) and node.module:
                for a in node.names:
                    self.imports[a.asname or a.name] = (node.module, a.name)
                    if node.module == 'lxml' and a.name == 'etree':
                        self.etree_names.add(a.asname or a.name)
                    if node.module == 'lxml' and a.name == 'html':
                        self.html_names.add(a.asname or a.name)
            elif isinstance(node, ast.Import):
                for a in node.names:
                    if a.name == 'lxml.etree':
                        self.etree_names.add(a.asname or 'lxml.etree')


def is_etree_parse_call(m, call):
    """name of the lxml.etree parse function called, or None"""
    f = call.func
    if isinstance(f, ast.Attribute) and isinstance(f.value, ast.Name) and f.value.id in m.etree_names and f.attr in PARSE_FUNCS:
        return f.attr
    if isinstance(f, ast.Name) and f.id in PARSE_FUNCS and m.imports.get(f.id, ('',))[0] in ('lxml.etree',):
        return f.id
    return None


def is_xmlparser_ctor(m, e):
    if not isinstance(e, ast.Call):
        return False
    f = e.func
    if isinstance(f, ast.Name) and f.id == 'XMLParser' and m.imports.get('XMLParser', ('',))[0] == 'lxml.etree':
        return True
    return isinstance(f, ast.Attribute) and f.attr == 'XMLParser' and isinstance(f.value, ast.Name) and f.value.id in m.etree_names


def is_from_kwargs_ctor(m, e):
    """XMLParser(**self.parser_kwargs) and nothing else"""
    if not is_xmlparser_ctor(m, e) or e.args or len(e.keywords) != 1:
        return False
    k = e.keywords[0]
    return k.arg is None and isinstance(k.value, ast.Attribute) and k.value.attr == 'parser_kwargs' and \
        isinstance(k.value.value, ast.Name) and k.value.value.id == 'self'


class SiteScan:
    def __init__(self, repo):
        self.repo = repo
        self.mods = {}
        root = os.path.join(repo, 'spyne')
        for dp, dn, fn in os.walk(root):
            dn[:] = [d for d in dn if d not in ('test', '__pycache__')]
            for f in fn:
                if f.endswith('.py'):
                    p = os.path.join(dp, f)
                    rel = os.path.relpath(p, repo)
                    try:
                        self.mods[rel] = Mod(p, rel)
                    except SyntaxError:
                        pass
        self.calls = {}      # (rel, qual) -> list of (callee key, Call node, lexically protected)
        self.reached = {}    # (rel, qual) -> protected (AND over paths)

    def modrel(self, module):
        p = module.replace('.', '/')
        for cand in (p + '.py', p + '/__init__.py'):
            if cand in self.mods:
                return cand
        return None

    def resolve_callee(self, m, qual, call):
        f = call.func
        if isinstance(f, ast.Name):
            if f.id in m.funcs:
                return (m.rel, f.id)
            imp = m.imports.get(f.id)
            if imp:
                rel = self.modrel(imp[0])
                if rel and imp[1] in self.mods[rel].funcs:
                    return (rel, imp[1])
        if isinstance(f, ast.Attribute) and isinstance(f.value, ast.Name) and f.value.id == 'self' and '.' in qual:
            cls = qual.split('.')[0]
            if cls + '.' + f.attr in m.funcs:
                return (m.rel, cls + '.' + f.attr)
        return None

    @staticmethod
    def protected_map(fn):
        """Call node id -> is lexically inside a try that turns XMLSyntaxError into Fault('Client.XMLSyntaxError')"""
        prot = {}

        def handler_ok(h):
            names = []
            t = h.type
            for e in (t.elts if isinstance(t, ast.Tuple) else [t] if t is not None else []):
                names.append(e.id if isinstance(e, ast.Name) else e.attr if isinstance(e, ast.Attribute) else '')
            if 'XMLSyntaxError' not in names:
                return False
            for n in ast.walk(h):
                if isinstance(n, ast.Raise) and isinstance(n.exc, ast.Call) and isinstance(n.exc.func, ast.Name) \
                        and n.exc.func.id == 'Fault' and n.exc.args and isinstance(n.exc.args[0], ast.Constant) \
                        and n.exc.args[0].value == 'Client.XMLSyntaxError':
                    return True
            return False

        def rec(node, p):
            if isinstance(node, ast.Try):
                inner = p or any(handler_ok(h) for h in node.handlers)
                for b in node.body:
                    rec(b, inner)
                for h in node.handlers:
                    rec(h, p)
                for b in node.orelse + node.finalbody:
                    rec(b, p)
                return
            if isinstance(node, ast.Call):
                prot[id(node)] = p
            for c in ast.iter_child_nodes(node):
                rec(c, p)
        rec(fn, False)
        return prot

    def walk_from(self, roots):
        stack = [(r, False) for r in roots]
        while stack:
            key, prot = stack.pop()
            if key in self.reached and (self.reached[key] <= prot):
                continue        # already reached with an equally weak or weaker protection
            self.reached[key] = prot and self.reached.get(key, True)
            m = self.mods[key[0]]
            fn = m.funcs[key[1]]
            pm = self.protected_map(fn)
            for node in ast.walk(fn):
                if isinstance(node, ast.Call):
                    cal = self.resolve_callee(m, key[1], node)
                    if cal is not None and cal != key:
                        stack.append((cal, self.reached[key] or pm.get(id(node), False)))

    def classify_parser(self, m, qual, expr, depth=0):
        """-> fromKwargs | lxmlDefault | missingAttr | custom"""
        if expr is None or (isinstance(expr, ast.Constant) and expr.value is None):
            return 'lxmlDefault'
        if is_from_kwargs_ctor(m, expr):
            return 'fromKwargs'
        if is_xmlparser_ctor(m, expr):
            return 'custom'
        if isinstance(expr, ast.Call) and isinstance(expr.func, ast.Attribute) and isinstance(expr.func.value, ast.Name) \
                and expr.func.value.id == 'self' and depth < 6:
            # a method of the same class or of a base class that returns the parser
            cls = self.live_class(m, qual)
            meth = getattr(cls, expr.func.attr, None) if cls is not None else None
            try:
                rel = os.path.relpath(os.path.realpath(inspect.getsourcefile(meth)), os.path.realpath(self.repo))
                mq = meth.__qualname__
                mm = self.mods[rel]
                rets = [n.value for n in ast.walk(mm.funcs[mq]) if isinstance(n, ast.Return)]
                kinds = {self.classify_parser(mm, mq, r, depth + 1) for r in rets}
                if len(kinds) == 1:
                    return kinds.pop()
            except Exception:
                pass
            return 'custom'
        if isinstance(expr, ast.Attribute) and isinstance(expr.value, ast.Name) and expr.value.id == 'self':
            cls = self.live_class(m, qual)
            if cls is not None:
                try:
                    inst = cls()
                    if not hasattr(inst, expr.attr):
                        return 'missingAttr'
                except Exception:
                    pass
            return 'custom'
        if isinstance(expr, ast.Name) and depth < 6:
            fn = m.funcs[qual]
            params = [a.arg for a in fn.args.args]
            # a local variable assigned once in this function
            assigns = [n.value for n in ast.walk(fn) if isinstance(n, ast.Assign) and len(n.targets) == 1
                       and isinstance(n.targets[0], ast.Name) and n.targets[0].id == expr.id]
            if assigns and expr.id not in params:
                kinds = {self.classify_parser(m, qual, a, depth + 1) for a in assigns}
                return kinds.pop() if len(kinds) == 1 else 'custom'
            if expr.id in params:
                idx = params.index(expr.id)
                ndef = len(fn.args.defaults)
                default = fn.args.defaults[idx - (len(params) - ndef)] if idx >= len(params) - ndef else None
                kinds = set()
                for (rel, q), prot in list(self.reached.items()):
                    cm = self.mods[rel]
                    for node in ast.walk(cm.funcs[q]):
                        if isinstance(node, ast.Call) and self.resolve_callee(cm, q, node) == (m.rel, qual):
                            off = 1 if '.' in qual and params and params[0] == 'self' else 0
                            arg = None
                            if idx - off < len(node.args):
                                arg = node.args[idx - off]
                            for kwd in node.keywords:
                                if kwd.arg == expr.id:
                                    arg = kwd.value
                            if arg is None:
                                kinds.add(self.classify_parser(m, qual, default, depth + 1) if default is not None else 'custom')
                            else:
                                kinds.add(self.classify_parser(cm, q, arg, depth + 1))
                if not kinds:
                    return 'custom'
                for worst in ('lxmlDefault', 'custom', 'missingAttr', 'fromKwargs'):
                    if worst in kinds:
                        return worst
            if expr.id in m.consts:
                return 'custom'
        return 'custom'

    def live_class(self, m, qual):
        if '.' not in qual:
            return None
        import importlib
        try:
            mod = importlib.import_module(m.rel[:-3].replace('/', '.').replace('.__init__', ''))
            return getattr(mod, qual.split('.')[0], None)
        except Exception:
            return None

    def kw_writes(self):
        """statements that write to a `parser_kwargs` outside an __init__"""
        out = []

        def is_pk(e):
            return isinstance(e, ast.Attribute) and e.attr == 'parser_kwargs'

        def target_hits(t):
            if is_pk(t) or (isinstance(t, ast.Subscript) and is_pk(t.value)):
                return True
            if isinstance(t, (ast.Tuple, ast.List)):
                return any(target_hits(e) for e in t.elts)
            return False
        for rel, m in sorted(self.mods.items()):
            for qual, fn in sorted(m.funcs.items()):
                if qual.endswith('__init__'):
                    continue
                for node in ast.walk(fn):
                    hit = False
                    if isinstance(node, ast.Assign):
                        hit = any(target_hits(t) for t in node.targets)
                    elif isinstance(node, (ast.AugAssign, ast.AnnAssign)):
                        hit = target_hits(node.target)
                    elif isinstance(node, ast.Delete):
                        hit = any(target_hits(t) for t in node.targets)
                    elif isinstance(node, ast.Call) and isinstance(node.func, ast.Attribute) and is_pk(node.func.value) \
                            and node.func.attr in ('update', 'pop', 'popitem', 'setdefault', 'clear', '__setitem__', '__delitem__'):
                        hit = True
                    if hit:
                        out.append({'file': rel, 'line': node.lineno, 'func': qual})
        return out

    def sites(self):
        classes = proto_classes()
        roots = {}
        for name, cls in classes.items():
            fn = cls.create_in_document
            rel = os.path.relpath(os.path.realpath(inspect.getsourcefile(fn)), os.path.realpath(self.repo))
            qual = fn.__qualname__
            roots[name] = (rel, qual)
        for r in set(roots.values()):
            if r[0] not in self.mods or r[1] not in self.mods[r[0]].funcs:
                raise core.Infra('cannot locate %s in %s' % (r[1], r[0]))
        self.walk_from(sorted(set(roots.values())))
        # which roots reach which function
        reach_by = {}
        for name, r in roots.items():
            sub = SiteScan.__new__(SiteScan)
            sub.repo, sub.mods, sub.calls, sub.reached = self.repo, self.mods, {}, {}
            sub.walk_from([r])
            for k in sub.reached:
                reach_by.setdefault(k, set()).add(name)
        out = []
        xinc = 0
        for rel, m in sorted(self.mods.items()):
            for qual, fn in sorted(m.funcs.items()):
                pm = None
                for node in ast.walk(fn):
                    if not isinstance(node, ast.Call):
                        continue
                    if (rel, qual) in self.reached and isinstance(node.func, ast.Attribute) and node.func.attr in ('xinclude', 'XInclude'):
                        xinc += 1
                    name = is_etree_parse_call(m, node)
                    if name is None:
                        continue
                    pos = PARSER_ARG_POS.get(name, 1)
                    parg = node.args[pos] if len(node.args) > pos else None
                    for kwd in node.keywords:
                        if kwd.arg == 'parser':
                            parg = kwd.value
                    on_path = (rel, qual) in self.reached
                    if on_path:
                        if pm is None:
                            pm = self.protected_map(fn)
                        parser = self.classify_parser(m, qual, parg)
                        catches = bool(self.reached[(rel, qual)] or pm.get(id(node), False))
                        in_retry = self.in_valueerror_handler(fn, node)
                        by = reach_by.get((rel, qual), set())
                        if rel.endswith('soap/mime.py'):
                            role = 'mimeJoin'
                        elif by == {'xml'}:
                            role = 'xmlFallback' if in_retry else 'xmlMain'
                        else:
                            role = 'soapFallback' if in_retry else 'soapMain'
                    else:
                        parser = 'lxmlDefault' if parg is None else 'custom'
                        catches, role = False, 'offPath'
                    out.append({'file': rel, 'line': node.lineno, 'call': name, 'func': qual, 'role': role,
                                'parser': parser, 'catches': catches})
        return out, xinc, roots

    @staticmethod
    def in_valueerror_handler(fn, call):
        for node in ast.walk(fn):
            if isinstance(node, ast.ExceptHandler):
                t = node.type
                names = [e.id for e in (t.elts if isinstance(t, ast.Tuple) else [t] if t is not None else []) if isinstance(e, ast.Name)]
                if 'ValueError' in names and any(n is call for n in ast.walk(node)):
                    return True
        return False

# ---------------------------------------------------------------------------- parse sites, by behaviour
MARK = 'C17SITEPROBE'


class SiteRecorder:
    """While installed, every construction of lxml.etree.XMLParser and every call of an lxml.etree parse function
    made from spyne code is recorded: (constructor keywords, which parser object the parse call received, caller).
    Nothing about the calls is changed."""

    FUNCS = ['fromstring', 'XML', 'XMLID', 'parse', 'fromstringlist', 'iterparse', 'XMLDTDID']

    def __init__(self):
        from lxml import etree
        self.etree = etree
        self.calls = []
        self.parsers = []
        self.saved = []
        self.root = os.path.join(os.path.realpath(core.REPO), 'spyne') + os.sep
        rec = self
        Orig = etree.XMLParser

        class RecParser(Orig):
            def __init__(self, *a, **kw):
                self._c17 = (tuple(a), dict(kw))
                rec.parsers.append(id(self))
                Orig.__init__(self, *a, **kw)
        self.RecParser = RecParser

    def _wrap(self, name, orig):
        rec = self
        pos = PARSER_ARG_POS.get(name, 1)

        def wrapper(*a, **kw):
            fr = sys._getframe(1)
            if not os.path.realpath(fr.f_code.co_filename).startswith(rec.root):
                return orig(*a, **kw)       # lxml calling itself (XMLID -> XML), or this harness
            parser = kw.get('parser', a[pos] if len(a) > pos else None)
            data = a[0] if a else None
            if isinstance(data, (list, tuple)):
                data = b''.join(x if isinstance(x, bytes) else x.encode() for x in data)
            entry = {'call': name, 'file': fr.f_code.co_filename, 'line': fr.f_lineno, 'func': fr.f_code.co_name,
                     'parser': parser, 'request': isinstance(data, (bytes, str)) and
                     (MARK in data if isinstance(data, str) else MARK.encode() in data), 'raised': None}
            rec.calls.append(entry)
            try:
                return orig(*a, **kw)
            except BaseException as e:
                entry['raised'] = type(e).__name__
                raise
        wrapper._c17_orig = orig
        return wrapper

    def __enter__(self):
        etree = self.etree
        repl = {id(etree.XMLParser): self.RecParser}
        self.saved.append((etree, 'XMLParser', etree.XMLParser))
        for n in self.FUNCS:
            if hasattr(etree, n):
                o = getattr(etree, n)
                repl[id(o)] = self._wrap(n, o)
                self.saved.append((etree, n, o))
        # names imported into spyne modules (`from lxml.etree import XMLParser, fromstring`)
        for mn, mod in list(sys.modules.items()):
            if mod is None or not (mn == 'spyne' or mn.startswith('spyne.')):
                continue
            for k, v in list(vars(mod).items()):
                if id(v) in repl and not isinstance(v, type(sys)):
                    self.saved.append((mod, k, v))
        for obj, name, orig in self.saved:
            setattr(obj, name, repl[id(orig)])
        return self

    def __exit__(self, *exc):
        for obj, name, orig in self.saved:
            setattr(obj, name, orig)
        return False

    def classify(self, parser, prot):
        if parser is None:
            return 'lxmlDefault'
        c = getattr(parser, '_c17', None)
        if c is None:
            return 'custom'                 # a parser object built elsewhere (module constant, cached before the probe)
        if not c[0] and c[1] == dict(prot.parser_kwargs):
            return 'fromKwargs'
        if not c[0] and not c[1]:
            return 'lxmlDefault'            # XMLParser(): lxml's defaults
        return 'custom'


def drive_request(app, tr, body, ctype):
    """one request through the real stack -> fault code of the request (or None), class of an escaping exception"""
    import io
    from spyne import MethodContext
    from spyne.server import ServerBase
    from spyne.server.wsgi import WsgiApplication
    fault, crash = None, None
    try:
        if tr == 'server':
            srv = ServerBase(app)
            ctx = MethodContext(srv, MethodContext.SERVER)
            ctx.in_string = [body]
            for c in srv.generate_contexts(ctx):
                if c.in_error is not None:
                    fault = str(getattr(c.in_error, 'faultcode', type(c.in_error).__name__))
                else:
                    srv.get_in_object(c)
        else:
            w = WsgiApplication(app)
            env = {'REQUEST_METHOD': 'POST', 'PATH_INFO': '/', 'SCRIPT_NAME': '', 'QUERY_STRING': '',
                   'SERVER_NAME': 'c17', 'SERVER_PORT': '80', 'CONTENT_TYPE': ctype, 'CONTENT_LENGTH': str(len(body)),
                   'wsgi.input': io.BytesIO(body), 'wsgi.url_scheme': 'http', 'wsgi.errors': io.StringIO(),
                   'wsgi.version': (1, 0), 'wsgi.multithread': False, 'wsgi.multiprocess': False, 'wsgi.run_once': False}
            faults = []
            w.event_manager.add_listener('wsgi_exception', lambda c: faults.append(
                str(getattr(c.out_error, 'faultcode', type(c.out_error).__name__))))
            b''.join(w(env, lambda s_, h, e=None: None))
            fault = faults[0] if faults else None
    except Exception as e:
        crash = type(e).__name__
    return fault, crash


def measure_sites_behaviour():
    """the call-site facts, derived from what actually happens while requests are served: which parse calls receive
    the request, which parser object each of them is given and what keywords that object was constructed with,
    whether a fresh parser is made per request, and what becomes of an XMLSyntaxError at each stage"""
    global _SVC
    if _SVC is None:
        _SVC = build_stack()
    Application, Svc, _ = _SVC
    classes = proto_classes()
    world = World('/nonexistent', 'probe')
    fake = type('W', (), {'world': world})()
    repo = os.path.realpath(core.REPO)
    good_toks = [T(MARK)]
    ent = dtd([(1, INT(lit('IENT1')))])
    sites, fresh = {}, True
    catches = {}

    def note_catch(role, fault, crash):
        ok = fault == 'Client.XMLSyntaxError' and crash is None
        catches[role] = catches.get(role, True) and ok

    with SiteRecorder() as rec:
        for name, cls in classes.items():
            scen = [('server', False, False), ('wsgi', False, False)]
            if name != 'xml':
                scen += [('wsgi', True, False), ('wsgi', 'cloc', False), ('wsgi', False, True)]
            for tr, mp, ud in scen:
                prot = cls()
                app = Application([Svc], TNS, in_protocol=prot, out_protocol=cls())

                def send(d, toks, broken=False):
                    q = {'req': {'doc': request_doc(name, d, world, text=('s', toks)), 'multipart': mp, 'unicode_decl': ud}}
                    body, ctype = Worker.request_bytes(fake, q)
                    if broken:
                        body = body.replace(b'</t:s>', b'</t:broken>', 1)
                    del rec.calls[:]
                    fc = drive_request(app, tr, body, ctype)
                    return [c for c in rec.calls if c['request']], fc
                ids = []
                for rep in range(2):
                    calls, _ = send(None, good_toks)
                    prev_valueerror = False
                    for i, c in enumerate(calls):
                        if name == 'xml':
                            role = 'xmlMain' if i == 0 else 'xmlFallback'
                        elif mp and i < len(calls) - 1:
                            role = 'mimeJoin'
                        else:
                            role = 'soapFallback' if prev_valueerror else 'soapMain'
                        prev_valueerror = c['raised'] == 'ValueError'
                        kind = rec.classify(c['parser'], prot)
                        rel = os.path.relpath(os.path.realpath(c['file']), repo)
                        key = (rel, c['line'], c['call'], role)
                        order = ['fromKwargs', 'missingAttr', 'custom', 'lxmlDefault']
                        old = sites.get(key, 'fromKwargs')
                        sites[key] = kind if order.index(kind) > order.index(old) else old
                        if c['parser'] is not None:
                            ids.append((rep, id(c['parser'])))
                    if not calls:
                        sites[('?', 0, 'none', 'xmlMain' if name == 'xml' else 'soapMain')] = 'custom'
                fresh = fresh and not ({i for r, i in ids if r == 0} & {i for r, i in ids if r == 1})
                # what becomes of an XMLSyntaxError: in the (first) parse of the request ...
                main = 'xmlMain' if name == 'xml' else 'soapFallback' if ud else 'soapMain'
                _, (fault, crash) = send(None, good_toks, broken=True)
                note_catch('mimeJoin' if mp else main, fault, crash)
                if mp:
                    # ... and in the parse that follows the re-serialisation (a kept reference is undeclared there)
                    _, (fault, crash) = send(ent, [T(MARK), ref(1)])
                    note_catch(main, fault, crash)
    out = [{'file': k[0], 'line': k[1], 'call': k[2], 'func': '', 'role': k[3], 'parser': v, 'catches': bool(catches.get(k[3], False))}
           for k, v in sorted(sites.items())]
    return out, fresh


KINDS = ['unicode', 'arrayItem', 'nestedMember', 'xmlData', 'anyDictLeaf', 'anyXml', 'anyHtml', 'multiMember', 'integer',
         'byteArray', 'enumValue', 'iterableItem', 'headerMember', 'hrefTarget']


def measure_deliver():
    """how each kind of value is read from the tree: an internal entity referenced after some text inside a value
    of that kind, default settings, through the real stack"""
    global _SVC
    from spyne import MethodContext
    from spyne.server import ServerBase
    if _SVC is None:
        _SVC = build_stack()
    Application, Svc, captured = _SVC
    cls = proto_classes()['xml']
    app = Application([Svc], TNS, in_protocol=cls(), out_protocol=cls())
    world = World('/nonexistent', 'probe')
    ent = dtd([(1, INT(lit('IENT1')))])
    toks = [T('pre-'), ref(1), T('-post')]
    rules = {}

    def run(doc):
        del captured[:]
        srv = ServerBase(app)       # (`app` is rebound below for the SOAP-only kinds)
        ctx = MethodContext(srv, MethodContext.SERVER)
        ctx.in_string = [render(doc, world)]
        try:
            for c in srv.generate_contexts(ctx):
                if c.in_error is None:
                    srv.get_in_object(c)
                if c.in_error is None:
                    srv.get_out_object(c)
        except Exception:
            pass
        return dict(captured[0]) if captured else None
    r = run(request_doc('xml', ent, world, text=('s', toks)))
    obs = {'unicode': None if r is None else r['s']}
    for pos, (kind, _tag) in PROBE_POS.items():
        r = run(probe_doc_req('xml', ent, world, pos, toks))
        obs[kind] = None if r is None else r[{'x.leaf': 'x', 'h.p': 'h'}.get(pos, pos)]
    expect = {}
    for pos, (kind, _tag) in TYPED_POS.items():
        lit_, ent_, subst = TYPED_FILL[pos]
        r = run(typed_doc_req('xml', dtd(TYPED_DTD), world, pos, [T(lit_), ref(ent_)]))
        obs[kind] = None if r is None else r[pos]
        expect[kind] = (lit_, subst)
    # SOAP-only paths: header members, multi-reference targets
    s11 = proto_classes()['soap11']
    app = Application([Svc], TNS, in_protocol=s11(), out_protocol=s11())
    r = run(request_doc('soap11', ent, world, text=('hdr.token', toks)))
    obs['headerMember'] = None if r is None else r['hdr.token']
    r = run(request_doc('soap11', ent, world, text=('href.s', toks)))
    obs['hrefTarget'] = None if r is None else r['s']
    for kind, v in obs.items():
        lit_, subst = expect.get(kind, ('pre-', None))
        if v is None:
            rules[kind] = 'refused'          # the method was not called at all
        elif 'IENT1' in v or v == subst:
            rules[kind] = 'stringValue'
        elif kind in ('anyXml', 'anyHtml'):
            rules[kind] = 'element' if '&e1;' in v else 'other'
        else:
            rules[kind] = 'textNodesOnly' if v == lit_ else 'other'
    return rules


def measure_facts(ctx):
    import logging
    logging.disable(logging.CRITICAL)       # spyne logs every rejected document in full
    classes = proto_classes()
    f = {'plumb': {}, 'live': {}, 'ctor': {}, 'extra': {}}
    for name, cls in classes.items():
        plumb, live, defs, extra = measure_plumbing(cls)
        f['plumb'][name], f['live'][name], f['extra'][name] = plumb, live, extra
        f['ctor'][name] = {a: defs[a] for a in BOOL_ARGS}
        f['ctor'][name]['resolve_entities'] = {False: 'off', True: 'all', 'internal': 'internal'}.get(defs['resolve_entities'], None) \
            if isinstance(defs['resolve_entities'], (bool, str)) else None
    # instances do not share their keyword dict
    iso = True
    for name, cls in classes.items():
        a = cls()
        before = kw_json(a.parser_kwargs)
        b = cls(resolve_entities=True, huge_tree=True, load_dtd=True, no_network=False)
        iso = iso and kw_json(a.parser_kwargs) == before and a.parser_kwargs is not b.parser_kwargs \
            and kw_json(cls().parser_kwargs) == before
    f['kwIsolated'] = iso
    scratch = os.path.join(core.VERIF, '.scratch', 'c17-probe-%d' % os.getpid())
    lib = measure_lib(scratch)
    f['lib'] = lib
    # a parser is built from parser_kwargs for every request
    per_req = True
    deep = b'<a>' * (lib['maxDepth'] + 10) + b'</a>' * (lib['maxDepth'] + 10)
    for name, cls in classes.items():
        inst = cls()
        doc = deep if name == 'xml' else None
        if doc is None:
            ns = NS_S11 if name == 'soap11' else NS_S12
            doc = b'<e:Envelope xmlns:e="%s"><e:Body>%s</e:Body></e:Envelope>' % (ns.encode(), deep)
        r1 = probe_doc(cls, doc, _instance=inst)[0]
        inst.parser_kwargs['huge_tree'] = True
        r2 = probe_doc(cls, doc, _instance=inst)[0]
        inst.parser_kwargs['huge_tree'] = False
        r3 = probe_doc(cls, doc, _instance=inst)[0]
        per_req = per_req and r1 == 'Client.XMLSyntaxError' and r2 == 'ok' and r3 == 'Client.XMLSyntaxError'
    f['parserPerRequest'] = per_req
    scan = SiteScan(core.REPO)
    ast_sites, f['xincludeCalls'], f['roots'] = scan.sites()
    # the call-site facts come from behaviour; the ast pass contributes the off-path listing and a cross-check
    beh, fresh = measure_sites_behaviour()
    f['parserPerRequest'] = bool(f['parserPerRequest'] and fresh)
    f['sites'] = beh + [s_ for s_ in ast_sites if s_['role'] == 'offPath']
    f['astSites'] = [s_ for s_ in ast_sites if s_['role'] != 'offPath']
    f['kwWrites'] = scan.kw_writes()
    f['deliver'] = measure_deliver()
    f['post'], f['liveAt'] = {}, {}
    for name, cls in classes.items():
        f['post'][name], f['liveAt'][name], ex = measure_post(cls)
        f['extra'][name] = sorted(set(f['extra'][name]) | set(ex))
    return f


def lean_bool(b):
    return 'true' if b else 'false'


def lean_bsrc(v):
    if v == 'other':
        return '.other'
    if v[0] == 'const':
        return '.const %s' % lean_bool(v[1])
    return '.arg .%s' % lean_camel(v[1])


def lean_kw(d):
    parts = []
    for k in KW_KEYS:
        if k == 'resolve_entities':
            parts.append('resolveEntities := .%s' % (d[k] if d[k] in ('off', 'internal', 'all') else 'all'))
        else:
            # a value of unexpected type is recorded as the unsafe/untidy direction
            v = d[k] if isinstance(d[k], bool) else (k not in ('no_network', 'remove_comments', 'remove_pis'))
            parts.append('%s := %s' % (lean_camel(k), lean_bool(v)))
    return '{ ' + ', '.join(parts) + ' }'


def lean_args(d):
    parts = []
    for k in BOOL_ARGS:
        v = d[k] if isinstance(d[k], bool) else (k != 'no_network')
        parts.append('%s := %s' % (lean_camel(k), lean_bool(v)))
    parts.append('resolveEntities := .%s' % (d['resolve_entities'] if d['resolve_entities'] in ('off', 'internal', 'all') else 'all'))
    return '{ ' + ', '.join(parts) + ' }'


def facts_lean(f):
    def per_proto(fn):
        return '\n'.join('    | .%s => %s' % (p, fn(p)) for p in PROTOS)

    def plumb(p):
        pl = f['plumb'][p]
        parts = []
        for k in KW_KEYS:
            if k == 'resolve_entities':
                parts.append('resolveEntities := %s' % ('.arg' if pl[k] == 'arg' else '.other'))
            else:
                parts.append('%s := %s' % (lean_camel(k), lean_bsrc(pl[k])))
        return '{ ' + ', '.join(parts) + ' }'
    def lean_write(k, w):
        if k == 'resolve_entities':
            return '.keep' if w == 'keep' else '.other' if w == 'other' or w[1] not in ('off', 'internal', 'all') else '.set .%s' % w[1]
        return '.keep' if w == 'keep' else '.other' if w == 'other' else '.set %s' % lean_bool(w[1])

    def per_pv(fn):
        return '\n'.join('    | .%s, .%s => %s' % (p, v, fn(p, v)) for p in PROTOS for v in ('none', 'soft', 'lxml'))

    def post(p, v):
        w = f['post'][p][v]
        if all(w[k] == 'keep' for k in KW_KEYS):
            return '.keepAll'
        return '{ ' + ', '.join('%s := %s' % (lean_camel(k), lean_write(k, w[k])) for k in KW_KEYS) + ' }'
    sites = ',\n'.join('    { file := "%s", line := %d, call := "%s", role := .%s, parser := .%s, catchesSyntaxError := %s }'
                       % (s['file'], s['line'], s['call'], s['role'], s['parser'], lean_bool(s['catches'])) for s in f['sites'])
    lib = f['lib']
    return '''-- GENERATED by harness/c17.py (T1) from /repo on every run. Do not edit.
import SpyneModel.XmlParserCfg
namespace SpyneModel.Generated
open SpyneModel SpyneModel.XmlCfg

def lib17 : Lib where
  maxDepth := %d
  maxEntDepth := %d
  maxEntDepthHuge := %d
  allowedExpansion := 1000000
  maxAmpl := 5
  fixedCost := 20
  isNet := fun s => match s with | .file => %s | .http => %s | .ftp => %s
  netSupported := %s

def facts17 : Facts17 where
  plumb := fun p => match p with
%s
  ctorDefaults := fun p => match p with
%s
  liveDefaults := fun p => match p with
%s
  kwIsolated := %s
  parserPerRequest := %s
  sites := [
%s
  ]
  xincludeCalls := %d
  extraKwKeys := %d
  post := fun p v => match p, v with
%s
  liveAtRequest := fun p v => match p, v with
%s
  kwWritesOutsideInit := %d
  deliver := fun k => match k with
%s
  lxmlDefault := %s
  schemaToolKw := %s
  lib := lib17

end SpyneModel.Generated
''' % (lib['maxDepth'], lib['maxEntDepth'], lib['maxEntDepthHuge'],
       lean_bool(lib['isNet']['file']), lean_bool(lib['isNet']['http']), lean_bool(lib['isNet']['ftp']),
       lean_bool(lib['netSupported']),
       per_proto(plumb), per_proto(lambda p: lean_args(f['ctor'][p])), per_proto(lambda p: lean_kw(f['live'][p])),
       lean_bool(f['kwIsolated']), lean_bool(f['parserPerRequest']), sites, f['xincludeCalls'],
       sum(len(v) for v in f['extra'].values()), per_pv(post), per_pv(lambda p, v: lean_kw(f['liveAt'][p][v])),
       len(f['kwWrites']), '\n'.join('    | .%s => .%s' % (k, f['deliver'][k]) for k in KINDS), lean_kw(lib['lxmlDefault']),
       lean_kw(lib['schemaToolKw']))



# ======================================================================================= generators
def lit(s):
    return {'l': cps(s)}


def ref(n):
    return {'r': n}


def O(tag, attrs=()):
    return {'o': tag, 'a': [[k, list(v)] for k, v in attrs]}


C = 'c'


def T(s):
    return {'t': cps(s)}


def INT(*pieces):
    return {'int': list(pieces)}


def EXT(scheme, res):
    return {'ext': [scheme, res]}


def dtd(ents=(), sub=None, pe=()):
    return {'sub': sub, 'ents': [[n, d] for n, d in ents], 'pe': [list(u) for u in pe]}


def mkdoc(d, body, world):
    doc = {'dtd': d, 'body': body, 'size': 0}
    doc['size'] = len(render(doc, world))
    return doc


def chain_ents(depth, fan, base, first=0):
    """e[first] = base literal, e[first+i] = fan references to e[first+i-1]; returns (ents, top)"""
    ents = [(first, INT(lit(base)))]
    for i in range(1, depth + 1):
        ents.append((first + i, INT(*[ref(first + i - 1)] * fan)))
    return ents, first + depth


def chain_cost(depth, fan, base_len, fixed=20):
    """libxml2's account for ONE reference to the top of the chain (mirrors the model)"""
    size = base_len
    for _ in range(depth):
        size = 4 * fan + fan * (fixed + size)
    return fixed + size


def parse_corpus(ctx, lib, world):
    """(label, abstract doc) for the `parse` op: every clause of the abstract front end"""
    docs = []

    def add(label, d, body):
        docs.append((label, mkdoc(d, body, world)))

    def wrap(inner, attrs=()):
        return [O('r', attrs)] + inner + [C]
    plain = wrap([T('x'), O('a', [('k', [lit('v')])]), T('y'), C, T('z')], [('k', [lit('v w')])])
    add('plain', None, plain)
    add('plain-doctype', dtd(), plain)
    add('unicode', None, wrap([T('héllo 世界')], [('k', [lit('ü')])]))
    e_int = [(1, INT(lit('IENT1')))]
    add('int-text', dtd(e_int), wrap([T('x'), ref(1), T('y')]))
    add('int-text-first', dtd(e_int), wrap([ref(1), T('y')]))
    add('int-text-twice', dtd(e_int), wrap([ref(1), ref(1)]))
    add('int-attr', dtd(e_int), wrap([T('t')], [('k', [lit('x'), ref(1), lit('y')])]))
    add('int-elemcontent', dtd(e_int), wrap([O('a'), T('1'), C, ref(1), O('b'), T('2'), C]))
    add('int-unref', dtd(e_int), plain)
    add('int-redeclared', dtd([(1, INT(lit('FIRST'))), (1, INT(lit('SECOND')))]), wrap([ref(1)], [('k', [ref(1)])]))
    nest = [(1, INT(lit('a'), ref(2), lit('b'))), (2, INT(lit('IENT2'))), (3, INT(ref(1), ref(1)))]
    add('int-nested-text', dtd(nest), wrap([ref(3)]))
    add('int-nested-attr', dtd(nest), wrap([], [('k', [ref(3)])]))
    for sch in ('file', 'http', 'ftp'):
        for res in (1, 100):
            e = [(1, EXT(sch, res))]
            add('ext-text:%s:%d' % (sch, res), dtd(e), wrap([T('x'), ref(1), T('y')]))
            add('ext-attr:%s:%d' % (sch, res), dtd(e), wrap([T('t')], [('k', [ref(1)])]))
        add('ext-unref:' + sch, dtd([(1, EXT(sch, 1))]), plain)
        add('ext-twice:' + sch, dtd([(1, EXT(sch, 1)), (2, EXT(sch, 2))]), wrap([ref(1), T('-'), ref(2), T('-'), ref(1)]))
        mixed = [(1, INT(lit('a'), ref(2), lit('b'))), (2, EXT(sch, 1))]
        add('int-holds-ext-text:' + sch, dtd(mixed), wrap([ref(1)]))
        add('int-holds-ext-attr:' + sch, dtd(mixed), wrap([], [('k', [ref(1)])]))
        for res in (50, 100):
            add('sub:%s:%d' % (sch, res), dtd(sub=[sch, res]), plain)
            add('sub-ref-text:%s:%d' % (sch, res), dtd(sub=[sch, res]), wrap([T('x'), ref(900), T('y')]))
            add('sub-ref-attr:%s:%d' % (sch, res), dtd(sub=[sch, res]), wrap([], [('k', [lit('x'), ref(900), lit('y')])]))
            add('pe:%s:%d' % (sch, res), dtd(pe=[[sch, res]]), plain)
            add('pe-ref-text:%s:%d' % (sch, res), dtd(pe=[[sch, res]]), wrap([T('x'), ref(900), T('y')]))
            add('pe-ref-attr:%s:%d' % (sch, res), dtd(pe=[[sch, res]]), wrap([], [('k', [lit('x'), ref(900), lit('y')])]))
        add('pe+sub:' + sch, dtd(e_int, sub=[sch, 51], pe=[[sch, 50]]), wrap([ref(900), ref(901), ref(1)], [('k', [ref(901), ref(900)])]))
        add('pe-two:' + sch, dtd(pe=[[sch, 50], [sch, 51]]), wrap([ref(901)], [('k', [ref(900)])]))
    add('internal-shadows-sub', dtd([(900, INT(lit('LOCAL')))], sub=['file', 50]), wrap([ref(900)], [('k', [ref(900)])]))
    add('undeclared-text', None, wrap([T('x'), ref(7), T('y')]))
    add('undeclared-text-dtd', dtd(e_int), wrap([ref(7)]))
    add('undeclared-attr', dtd(e_int), wrap([], [('k', [ref(7)])]))
    add('undeclared-nested-text', dtd([(1, INT(lit('a'), ref(7)))]), wrap([ref(1)]))
    add('undeclared-nested-attr', dtd([(1, INT(lit('a'), ref(7)))]), wrap([], [('k', [ref(1)])]))
    add('undeclared-nested-lenient-text', dtd([(1, INT(lit('a'), ref(7)))], sub=['file', 100]), wrap([ref(1)]))
    add('undeclared-nested-lenient-attr', dtd([(1, INT(lit('a'), ref(7)))], pe=[['file', 100]]), wrap([], [('k', [ref(1)])]))
    for nm, ents in (('loop-self', [(1, INT(lit('a'), ref(1)))]), ('loop-mutual', [(1, INT(ref(2))), (2, INT(lit('b'), ref(1)))])):
        add(nm + '-text', dtd(ents), wrap([ref(1)]))
        add(nm + '-attr', dtd(ents), wrap([], [('k', [ref(1)])]))
        add(nm + '-unref', dtd(ents), plain)
    md = lib['maxDepth']
    for n in sorted({1, 2, md - 1, md, md + 1, md + 2, md + 50, 3 * md}):
        if n >= 1:
            add('depth:%d' % n, None, [O('a')] * n + [T('x')] + [C] * n)
    add('depth-siblings', None, [O('r')] + ([O('a')] * (md - 1) + [C] * (md - 1)) * 2 + [C])
    for lim in sorted({lib['maxEntDepth'], lib['maxEntDepthHuge']}):
        for d in sorted({max(0, lim - 3), lim - 2, lim - 1, lim, lim + 5}):
            ents, top = chain_ents(d, 1, 'CHAIN')
            add('entdepth-attr:%d' % d, dtd(ents), wrap([], [('k', [ref(top)])]))
            add('entdepth-text:%d' % d, dtd(ents), wrap([ref(top)]))
    # expansion: far below and far above libxml2's budget (the accounting near the budget is not claimed)
    for d, fan in ((1, 2), (2, 3), (3, 10), (4, 10), (6, 10), (9, 10), (5, 30), (12, 4)):
        cost = chain_cost(d, fan, 10)
        if 250000 < cost < 4000000:
            continue
        ents, top = chain_ents(d, fan, 'aaaaaaaaaa')
        add('chain-attr:%dx%d' % (d, fan), dtd(ents), wrap([], [('k', [ref(top)])]))
        add('chain-text:%dx%d' % (d, fan), dtd(ents), wrap([ref(top)]))
    big = [(1, INT(lit('a' * 20000)))]
    for n in (3, 400):
        add('quadratic-attr:%d' % n, dtd(big), wrap([], [('k', [ref(1)] * n)]))
        add('quadratic-text:%d' % n, dtd(big), wrap([ref(1)] * n))
        add('quadratic-attrs:%d' % n, dtd(big), wrap([], [('k%d' % i, [ref(1)]) for i in range(n)]))
    add('xinclude', None, wrap([O('{%s}include' % NS_XI, [('href', [lit('@URI:file:1@')]), ('parse', [lit('text')])]), C]))
    add('xinclude-xml', None, wrap([O('{%s}include' % NS_XI, [('href', [lit('@URI:file:50@')])]), C]))
    add('many-attrs', None, wrap([T('t')], [('k%d' % i, [lit('v%d' % i)]) for i in range(3000)]))
    add('many-attrs-ent', dtd(e_int), wrap([T('t')], [('k%d' % i, [ref(1)]) for i in range(2000)]))
    return docs


def random_doc(rng, world, tame=False):
    """seeded random mixture of the same ingredients.
    tame: only declared names and existing local resources, at most one external DTD piece -- documents on which
    lxml reports no non-fatal error (lxml forgets a non-fatal libxml2 error when a warning follows it; that quirk
    only exists in configurations that load or substitute something and is not modelled)"""
    ents = []
    n_ent = rng.randrange(0, 5)
    names = list(range(1, n_ent + 1))
    schemes = ['file'] if tame else ['file', 'http', 'ftp']
    for n in names:
        k = rng.random()
        if k < 0.55:
            body = []
            for _ in range(rng.randrange(0, 4)):
                body.append(lit(rng.choice(['a', 'IENT%d' % n, 'xy z', 'é'])) if rng.random() < 0.6 or not names
                            else ref(rng.choice(names if tame else names + [7])))
            ents.append((n, INT(*body)))
        else:
            ents.append((n, EXT(rng.choice(schemes), rng.choice([1, 2] if tame else [1, 2, 100]))))
    sub, pe = None, []
    k = rng.random()
    if k < 0.25:
        sub = [rng.choice(schemes), rng.choice([50, 51] if tame else [50, 51, 100])]
    elif k < 0.5:
        pe = [[rng.choice(schemes), rng.choice([50, 51] if tame else [50, 51, 100])]]
    d = dtd(ents, sub, pe) if (ents or sub or pe or rng.random() < 0.5) else None
    pool = (names if tame else names + [7, 900, 901]) if d is not None else ([] if tame else [7])

    def pieces():
        return [lit(rng.choice(['v', 'x y', ''])) if rng.random() < 0.5 or not pool else ref(rng.choice(pool))
                for _ in range(rng.randrange(0, 3))]

    def content(depth):
        out = []
        for _ in range(rng.randrange(0, 4)):
            k = rng.random()
            if k < 0.35 or (k < 0.65 and not pool):
                out.append(T(rng.choice(['t', 'hello', ' ', 'a&b<c>'])))
            elif k < 0.65:
                out.append(ref(rng.choice(pool)))
            elif depth < 3:
                out.append(O(rng.choice(['a', 'b', '{urn:c17}q']), [('k%d' % i, pieces()) for i in range(rng.randrange(0, 3))]))
                out.extend(content(depth + 1))
                out.append(C)
        return out
    body = [O('r', [('k%d' % i, pieces()) for i in range(rng.randrange(0, 3))])] + content(1) + [C]
    return mkdoc(d, body, world)


CONFIGS = None


def configs():
    out = []
    for res in ('off', 'internal', 'all'):
        for ld in (False, True):
            for nn in (True, False):
                for ht in (False, True):
                    kw = dict(DEFAULT_KW, resolve_entities=res, load_dtd=ld, no_network=nn, huge_tree=ht)
                    out.append(kw)
    out.append(dict(DEFAULT_KW, attribute_defaults=True))
    out.append(dict(DEFAULT_KW, attribute_defaults=True, resolve_entities='all'))
    return out


# ---------------------------------------------------------------------------------------- requests
TEXT_POS = ['s', 'name', 'note', 'lst0', 'lst1']
CONTENT_POS = ['echo.pre', 'echo.post', 'item.pre', 'lst.pre']
SOAP_CONTENT_POS = ['env.pre', 'body.post', 'hdr.token', 'href.s', 'fault']
VALIDATED_POS = ['s', 'lst0', 'echo.pre', 'tag', 's@x', 'env@x']
ATTR_POS = ['tag', 'item@{%s}nil' % NS_XSI, 'item@{%s}type' % NS_XSI, 's@{%s}type' % NS_XSI, 'echo@x', 's@x', 'item@x', 'name@x', 'lst@x', 'lst0@x']
SOAP_ATTR_POS = ['env@x', 'body@x']


def request_doc(proto, d, world, text=None, attr=None, many_attrs=None, omit_tag=False, nonascii=False, fault_body=False):
    """a valid echo request with `text` = (position, tokens) and/or `attr` = (position, pieces) filled in"""
    tp, tt = text if text else (None, None)
    ap, av = attr if attr else (None, None)

    def at(elem, declared=()):
        a = list(declared)
        if ap and ap.startswith(elem + '@') and ap != 'tag':
            a.append((ap.split('@', 1)[1], av))
        if many_attrs and many_attrs[0] == elem:
            a += [('m%d' % i, [lit('v')]) for i in range(many_attrs[1])]
        return a

    def leaf(tag, pos, default):
        return [O('{%s}%s' % (TNS, tag), at(pos))] + (tt if tp == pos else [T(default)]) + [C]

    def slot(pos):
        return tt if tp == pos else []
    if tp == 'href.s':
        # SOAP 1.1 multi-reference: <s href="#r1"/> takes text, children and attributes from the element with id="r1"
        s_elem = [O('{%s}s' % TNS, [('href', [lit('#r1')])]), C]
    else:
        s_elem = leaf('s', 's', 'hello')
    body = [O('{%s}echo' % TNS, at('echo'))] + slot('echo.pre') + s_elem
    body += [O('{%s}item' % TNS, at('item', [] if omit_tag else [('tag', av if ap == 'tag' else [lit('tg')])]))] + slot('item.pre')
    body += leaf('name', 'name', 'nm') + leaf('note', 'note', 'nt\xe9' if nonascii else 'nt') + [C]
    body += [O('{%s}lst' % TNS, at('lst'))] + slot('lst.pre') + leaf('string', 'lst0', 'l0') + leaf('string', 'lst1', 'l1') + [C]
    body += slot('echo.post') + [C]
    if proto != 'xml':
        ns = NS_S11 if proto == 'soap11' else NS_S12
        if fault_body:
            # a request whose Body is a Fault element (what a client would receive), with the payload in its text
            body = [O('{%s}Fault' % ns), O('faultcode'), T('Client.x'), C, O('faultstring')] + (tt or [T('fs')]) + [C, C]
        hdr = []
        if tp == 'hdr.token':
            hdr = [O('{%s}Header' % ns), O('{%s}Hdr' % TNS), O('{%s}token' % TNS)] + tt + [C, C, C]
        ref_ = [O('{%s}ref' % TNS, [('id', [lit('r1')])])] + tt + [C] if tp == 'href.s' else []
        body = [O('{%s}Envelope' % ns, at('env'))] + slot('env.pre') + hdr + [O('{%s}Body' % ns, at('body'))] + body + \
            slot('body.post') + ref_ + [C, C]
    return mkdoc(d, body, world)


PROBE_POS = {          # position -> (kind, tag of the leaf element that carries the value)
    'd.key': ('anyDictLeaf', 'key'), 'x.leaf': ('anyXml', 'leaf'), 'h.p': ('anyHtml', 'p'),
    'w.val': ('xmlData', '{%s}w' % TNS), 'o.v': ('nestedMember', '{%s}v' % TNS), 'o.arr0': ('arrayItem', '{%s}string' % TNS),
    'o.multi0': ('multiMember', '{%s}multi' % TNS)}
TYPED_POS = {'n': ('integer', '{%s}n' % TNS), 'b': ('byteArray', '{%s}b' % TNS), 'e': ('enumValue', '{%s}e' % TNS),
             'it0': ('iterableItem', '{%s}string' % TNS)}
# per typed position: (valid literal, entity whose replacement text would extend it to another valid literal, that literal)
TYPED_FILL = {'n': ('12', 2, '1234'), 'b': ('QUJD', 3, 'QUJDREVG'), 'e': ('pre', 4, 'preX'), 'it0': ('pre-', 1, 'pre-IENT1')}
TYPED_DTD = [(1, {'int': [{'l': [ord(c) for c in 'IENT1']}]}), (2, {'int': [{'l': [ord(c) for c in '34']}]}),
             (3, {'int': [{'l': [ord(c) for c in 'REVG']}]}), (4, {'int': [{'l': [ord(c) for c in 'X']}]})]


def probe_doc_req(proto, d, world, pos=None, toks=None):
    """a valid request of the `probe` method (AnyDict, AnyXml, AnyHtml, XmlData, nested class, array) with
    `toks` as the character data of the leaf at `pos`"""
    def c(p_, default):
        return toks if pos == p_ else [T(default)]
    t = lambda n: '{%s}%s' % (TNS, n)
    body = [O(t('probe'))]
    body += [O(t('d')), O('key')] + c('d.key', 'kv') + [C, O('other'), T('plain'), C, C]
    body += [O(t('x')), O('any'), O('leaf')] + c('x.leaf', 'xv') + [C, C, C]
    body += [O(t('h')), O('div'), O('p')] + c('h.p', 'hv') + [C, C, C]
    body += [O(t('w'), [('at', [lit('av')])])] + c('w.val', 'wv') + [C]
    body += [O(t('o')), O(t('inner')), O(t('v'))] + c('o.v', 'ov') + [C, O(t('arr')), O(t('string'))] + c('o.arr0', 'a0') + [C, C]
    body += [O(t('multi'))] + c('o.multi0', 'm0') + [C, O(t('multi')), T('m1'), C, C, C]
    body += [C]
    if proto != 'xml':
        ns = NS_S11 if proto == 'soap11' else NS_S12
        body = [O('{%s}Envelope' % ns), O('{%s}Body' % ns)] + body + [C, C]
    return mkdoc(d, body, world)


def typed_doc_req(proto, d, world, pos=None, toks=None):
    """a valid request of the `typed` method (Integer, ByteArray, Enum, Iterable)"""
    def c(p_, default):
        return toks if pos == p_ else [T(default)]
    t = lambda n: '{%s}%s' % (TNS, n)
    body = [O(t('typed')), O(t('n'))] + c('n', '7') + [C, O(t('b'))] + c('b', 'QUJD') + [C, O(t('e'))] + c('e', 'pre') + [C]
    body += [O(t('it')), O(t('string'))] + c('it0', 'i0') + [C, C, C]
    if proto != 'xml':
        ns = NS_S11 if proto == 'soap11' else NS_S12
        body = [O('{%s}Envelope' % ns), O('{%s}Body' % ns)] + body + [C, C]
    return mkdoc(d, body, world)


def payloads(lib):
    """(label, dtd, text tokens | None, attr pieces | None, expectation)
    expectation: 'reject' = must be answered with Client.XMLSyntaxError; 'reject-attr' = only when placed in
    an attribute; 'any' = accepted or rejected, but inert"""
    P = []
    P.append(('benign', None, [T('hello')], [lit('tg')], 'any'))
    P.append(('internal', dtd([(1, INT(lit('IENT1')))]), [T('x'), ref(1), T('y')], [lit('x'), ref(1), lit('y')], 'any'))
    for sch in ('file', 'http', 'ftp'):
        P.append(('ext-general:' + sch, dtd([(1, EXT(sch, 1))]), [T('x'), ref(1), T('y')], [lit('x'), ref(1)], 'reject-attr'))
        P.append(('ext-in-internal:' + sch, dtd([(1, INT(lit('a'), ref(2))), (2, EXT(sch, 2))]), [ref(1)], [ref(1)], 'reject-attr'))
        P.append(('ext-param:' + sch, dtd(pe=[[sch, 50]]), [T('x'), ref(900)], [lit('x'), ref(900)], 'any'))
        P.append(('ext-param-noref:' + sch, dtd(pe=[[sch, 50]]), [T('hello')], [lit('tg')], 'any'))
        P.append(('ext-subset:' + sch, dtd(sub=[sch, 51]), [T('x'), ref(901)], [lit('x'), ref(901)], 'any'))
        P.append(('ext-subset-noref:' + sch, dtd(sub=[sch, 51]), [T('hello')], [lit('tg')], 'any'))
    for sch in ('file', 'http'):
        # <t:item> without its `tag` attribute: a default declared in the external subset must not appear
        P.append(('ext-subset-attlist:' + sch, dtd(sub=[sch, 51]), [T('hello')], None, 'any'))
    P.append(('xinclude-text', None, [O('{%s}include' % NS_XI, [('href', [lit('@URI:file:1@')]), ('parse', [lit('text')])]), C], None, 'any'))
    P.append(('xinclude-xml', None, [O('{%s}include' % NS_XI, [('href', [lit('@URI:file:50@')])]), C], None, 'any'))
    for d, fan in ((2, 2), (3, 3), (3, 10)):
        ents, top = chain_ents(d, fan, 'IENT0aaaaa')
        P.append(('chain:%dx%d' % (d, fan), dtd(ents), [ref(top)], [ref(top)], 'any'))
    for d, fan in ((6, 10), (9, 10), (12, 4), (5, 30)):
        ents, top = chain_ents(d, fan, 'IENT0aaaaa')
        P.append(('bomb:%dx%d' % (d, fan), dtd(ents), [ref(top)], [ref(top)], 'reject'))
    P.append(('bomb:quadratic', dtd([(1, INT(lit('IENT1' + 'a' * 20000)))]), [ref(1)] * 400, [ref(1)] * 400, 'reject'))
    P.append(('loop:self', dtd([(1, INT(lit('a'), ref(1)))]), [ref(1)], [ref(1)], 'reject'))
    P.append(('loop:mutual', dtd([(1, INT(ref(2))), (2, INT(lit('b'), ref(1)))]), [ref(1)], [ref(1)], 'reject'))
    ents, top = chain_ents(lib['maxEntDepthHuge'] + 5, 1, 'IENT0')
    P.append(('bomb:entity-nesting', dtd(ents), [ref(top)], [ref(top)], 'reject'))
    n = lib['maxDepth'] + 20
    P.append(('bomb:nesting', None, [O('q')] * n + [C] * n, None, 'reject'))
    P.append(('nesting-ok', None, [O('q')] * 60 + [C] * 60, None, 'any'))
    P.append(('undeclared', None, [T('x'), ref(7)], [ref(7)], 'reject'))
    return P


def request_corpus(ctx, lib, world):
    """(meta, query-without-kw) for the `handle` op and T3: every payload at every position"""
    cases = []
    pl = payloads(lib)
    for proto in PROTOS:
        tposs = TEXT_POS + CONTENT_POS + (SOAP_CONTENT_POS if proto != 'xml' else [])
        aposs = ATTR_POS + (SOAP_ATTR_POS if proto != 'xml' else [])
        for label, d, toks, pieces, expect in pl:
            placements = []
            if toks is not None:
                placements += [('text', p) for p in tposs]
            if pieces is not None and label != 'benign':
                placements += [('attr', p) for p in aposs]
            if label == 'benign':
                placements = [('text', 's')]
            if label.startswith('ext-subset-attlist'):
                placements = [('text', 's')]
            for kind, pos in placements:
                if pos in ('hdr.token', 'href.s', 'fault') and not (toks and all(isinstance(t_, dict) and ('t' in t_ or 'r' in t_) for t_ in toks)):
                    continue        # these positions carry character data only
                ptoks = [T('pre-')] + toks if pos in ('hdr.token', 'href.s') else toks
                doc = request_doc(proto, d, world, text=(pos, ptoks) if kind == 'text' else None,
                                  attr=(pos, pieces) if kind == 'attr' else None,
                                  omit_tag=label.startswith('ext-subset-attlist'), fault_body=(pos == 'fault'))
                exp = 'reject' if expect == 'reject' or (expect == 'reject-attr' and kind == 'attr') else 'any'
                for tr, mp in (('server', False), ('wsgi', False)) + ((('wsgi', True), ('wsgi', 'cloc'), ('wsgi', 'single')) if proto != 'xml' else ()):
                    if mp in ('cloc', 'single') and pos not in VALIDATED_POS:
                        continue
                    for val in VALIDATORS:
                        if mp in ('cloc', 'single') and val is not None:
                            continue
                        # every position without a validator; the configuration paths through set_validator /
                        # set_app (soft, lxml) at a representative subset of the positions
                        if val is not None and pos not in VALIDATED_POS:
                            continue
                        extra_meta = {}
                        if pos == 'hdr.token':
                            extra_meta = {'deliver': ('headerMember', '{%s}token' % TNS), 'field': 'hdr.token'}
                        elif pos == 'href.s':
                            # (the tree seen at before_deserialize was already rewritten by resolve_hrefs: not compared)
                            extra_meta = {'deliver': ('hrefTarget', '{%s}ref' % TNS), 'field': 's', 't2skip': True}
                        cases.append((dict({'payload': label, 'pos': pos, 'kind': kind, 'expect': exp, 'validator': VNAME[val]}, **extra_meta),
                                      {'op': 'handle', 'proto': proto, 'tr': tr, 'validator': val,
                                       'req': {'doc': doc, 'multipart': mp, 'unicode_decl': False}}))
        # values that other code takes out of the tree: AnyDict, AnyXml, AnyHtml, XmlData, nested members, array items
        for label, d, toks, pieces, expect in pl:
            if toks is None or label.split(':')[0] not in ('internal', 'ext-general', 'ext-in-internal', 'ext-param', 'ext-subset',
                                                           'chain', 'bomb', 'loop', 'undeclared') \
                    or label in ('bomb:nesting',) or 'noref' in label or 'attlist' in label:
                continue
            for pos in PROBE_POS:
                doc = probe_doc_req(proto, d, world, pos, [T('pre-')] + toks)
                for tr in ('server', 'wsgi'):
                    cases.append(({'payload': label, 'pos': pos, 'kind': 'text', 'expect': 'reject' if expect == 'reject' else 'any',
                                   'deliver': PROBE_POS[pos]},
                                  {'op': 'handle', 'proto': proto, 'tr': tr, 'req': {'doc': doc, 'multipart': False, 'unicode_decl': False}}))
        # values of non-text types: the literal in front of the reference is valid on its own, and would be another valid
        # literal if the replacement text were substituted (12|34, QUJD|REVG, pre|X)
        for pos, (lit_, ent_, subst) in TYPED_FILL.items():
            doc = typed_doc_req(proto, dtd(TYPED_DTD), world, pos, [T(lit_), ref(ent_)])
            for tr in ('server', 'wsgi'):
                for val in VALIDATORS:
                    cases.append(({'payload': 'typed-internal', 'pos': pos, 'kind': 'text', 'expect': 'any', 'deliver': TYPED_POS[pos],
                                   'forbidden': subst, 'validator': VNAME[val]},
                                  {'op': 'handle', 'proto': proto, 'tr': tr, 'validator': val,
                                   'req': {'doc': doc, 'multipart': False, 'unicode_decl': False}}))
        # the document ENCODING: non-UTF-8 bytes (ISO-8859-1 with a declaration and a non-ASCII character, UTF-16 with
        # a byte order mark), announced or not by the Content-Type, crossed with the hostile kinds
        variants = [('server', e, None) for e in ('iso-8859-1', 'utf-16')] + \
            [('wsgi', 'utf-8', None), ('wsgi', 'iso-8859-1', None), ('wsgi', 'iso-8859-1', 'iso-8859-1'), ('wsgi', 'iso-8859-1', 'utf-8'),
             ('wsgi', 'utf-16', None), ('wsgi', 'utf-16', 'utf-16'), ('wsgi', 'utf-16', 'utf-8')]
        for label, d, toks, pieces, expect in pl:
            if not (expect == 'reject' or label in ('benign', 'internal', 'ext-general:file', 'chain:2x2')):
                continue
            for kind, pos, fill in (('text', 's', toks), ('attr', 'tag', pieces)):
                if fill is None or (label == 'benign' and kind == 'attr'):
                    continue
                doc = request_doc(proto, d, world, text=(pos, fill) if kind == 'text' else None,
                                  attr=(pos, fill) if kind == 'attr' else None, nonascii=True)
                for tr, enc, cs in variants:
                    cases.append(({'payload': label, 'pos': pos, 'kind': kind + '+' + enc, 'expect': 'reject' if expect == 'reject' else 'any',
                                   'enc': '%s/%s' % (enc, cs or 'no-charset'),
                                   't2skip': enc != 'utf-8' and cs == 'utf-8'},
                                  {'op': 'handle', 'proto': proto, 'tr': tr,
                                   'req': {'doc': doc, 'multipart': False, 'encoding': enc, 'charset': cs,
                                           'unicode_decl': tr == 'wsgi' and enc == 'iso-8859-1' and cs == 'iso-8859-1'}}))
        # huge attribute counts, an encoding declaration over a charset-announcing transport
        for elem in ('echo', 's', 'item', 'lst0'):
            doc = request_doc(proto, None, world, many_attrs=(elem, 4000))
            for tr in ('server', 'wsgi'):
                cases.append(({'payload': 'many-attrs', 'pos': elem, 'kind': 'attrs', 'expect': 'any'},
                              {'op': 'handle', 'proto': proto, 'tr': tr, 'req': {'doc': doc, 'multipart': False, 'unicode_decl': False}}))
        for label, d, toks, pieces, expect in pl:
            if label in ('benign', 'internal', 'ext-general:file', 'bomb:6x10', 'bomb:nesting'):
                doc = request_doc(proto, d, world, text=('s', toks))
                for tr in ('server', 'wsgi'):
                    cases.append(({'payload': label, 'pos': 's', 'kind': 'text+xmldecl', 'expect': 'reject' if expect == 'reject' else 'any'},
                                  {'op': 'handle', 'proto': proto, 'tr': tr, 'req': {'doc': doc, 'multipart': False, 'unicode_decl': True}}))
    return cases


# ======================================================================================= comparison
def env_for(world, lib):
    e = world.env_json()
    live = lambda s: s == 'file' or (lib['isNet'].get(s) and lib['netSupported'])
    e['present'] = [u for u in e['present'] if live(u[0])]
    return e


def unplace(toks, world):
    """replace this worker's concrete URIs in attribute values by the placeholders of the abstract document"""
    if not isinstance(toks, list):
        return toks
    out = []
    for t in toks:
        if isinstance(t, dict) and 'o' in t:
            a = []
            for k, v in t['a']:
                sv = uncps(v)
                if world.dir in sv or '127.0.0.1' in sv:
                    for s in ('file', 'http', 'ftp'):
                        for r in TEXT_RES + DTD_RES + MISSING_RES:
                            sv = sv.replace(world.uri((s, r)), '@URI:%s:%d@' % (s, r))
                    v = cps(sv)
                a.append([k, v])
            t = {'o': t['o'], 'a': a}
        out.append(t)
    return out


def impl_parse_canon(r, world):
    """worker result of a `parse` query -> what the model prints"""
    if 'ok' in r:
        return {'ok': unplace(r['ok'], world)}
    if r.get('fault') == 'Client.XMLSyntaxError':
        return {'err': True}
    return {'other': r.get('fault') or r.get('crash') or r.get('dead') or r.get('worker_error')}


def model_fetch_obs(m, lib):
    """what the canaries can see of the model's fetch log: existing files opened, network contacted"""
    files = sorted({'r%d' % u[1] for u in m.get('fetch', []) if u[0] == 'file' and u[1] in TEXT_RES + DTD_RES})
    net = any(lib['isNet'].get(u[0]) and lib['netSupported'] for u in m.get('fetch', []))
    return files, net


def impl_handle_canon(r, world):
    """worker result of a `handle` query -> outcome of create_in_document as far as it can be seen from outside"""
    if r.get('dead') or r.get('worker_error'):
        return {'other': r.get('dead') or r.get('worker_error')}
    if r.get('seen') is not None:
        return {'ok': unplace(r['seen'], world)}
    if r.get('crash') == 'XMLSyntaxError':
        return {'crash': 'XMLSyntaxError'}
    if r.get('fault') == 'Client.XMLSyntaxError':
        return {'fault': 'Client.XMLSyntaxError'}
    return None     # failed after/outside create_in_document (dispatch, deserialisation): not this model's business


def model_handle_canon(m):
    for k in ('ok', 'fault', 'crash'):
        if k in m:
            return {k: m[k]}
    return m


def kwargs_cases(ctx):
    """constructor argument sets for the plumbing differential"""
    rng = ctx.rng
    cases = []
    base = {a: DEFAULT_KW[a] for a in BOOL_ARGS}
    base['resolve_entities'] = 'off'
    cases += [dict(base), dict(base), dict(base)]       # the defaults under each validator
    for a in BOOL_ARGS:
        cases += [dict(base, **{a: not base[a]})] * 3
    for r in ('internal', 'all'):
        cases.append(dict(base, resolve_entities=r))
    for a in BOOL_ARGS:
        for b in BOOL_ARGS:
            if a < b:
                cases.append(dict(base, **{a: not base[a], b: not base[b]}))
    for _ in range(400 if ctx.thorough else 60):
        c = {a: rng.random() < 0.5 for a in BOOL_ARGS}
        c['resolve_entities'] = rng.choice(['off', 'internal', 'all'])
        cases.append(c)
    return cases


def run(ctx):
    import logging
    logging.disable(logging.CRITICAL)
    # ---- T1
    f = measure_facts(ctx)
    ctx.facts = f
    lib = f['lib']
    ctx.write_generated('Facts17.lean', facts_lean(f))
    ctx.cov['facts'] = {'live_defaults': f['live'], 'lib': {k: v for k, v in lib.items() if k not in ('lxmlDefault', 'schemaToolKw')},
                        'schema_tool_parser': lib['schemaToolKw'],
                        'lxml_default_parser': lib['lxmlDefault'],
                        'request_path_sites': [s for s in f['sites'] if s['role'] != 'offPath'],
                        'off_path_sites': len([s for s in f['sites'] if s['role'] == 'offPath'])}
    for p in PROTOS:
        for k in KW_KEYS:
            if f['live'][p][k] != DEFAULT_KW[k]:
                ctx.hit('fact-bad:default:%s:%s' % (p, k))
            want = 'arg' if k == 'resolve_entities' else ('const', True) if k == 'remove_comments' else ('arg', k)
            if f['plumb'][p][k] != want:
                ctx.hit('fact-bad:plumb:%s:%s' % (p, k))
    ctx.cov['facts']['ast_crosscheck_sites'] = f['astSites']
    seen_roles = {(s_['role'], s_['parser']) for s_ in f['sites'] if s_['role'] != 'offPath'}
    for s_ in f['astSites']:
        # informative only: the ast reading of a site differs from what was observed (or the site was never exercised)
        if (s_['role'], s_['parser']) not in seen_roles:
            ctx.hit('ast-crosscheck:unobserved-or-different:%s:%s' % (s_['role'], s_['parser']))
    for s_ in f['sites']:
        if s_['role'] != 'offPath' and (s_['parser'] not in ('fromKwargs', 'missingAttr') or not s_['catches']):
            ctx.hit('fact-bad:site:%s:%s:%s' % (s_['role'], s_['parser'], 'caught' if s_['catches'] else 'uncaught'))
    # ---- proof
    ctx.prove()

    pool = Pool(ctx, min(os.cpu_count() or 4, 16))
    try:
        _run_cases(ctx, f, lib, pool)
    finally:
        pool.close()


def _run_cases(ctx, f, lib, pool):
    w0 = pool.world(0)
    env0 = env_for(w0, lib)
    Q, META = [], []     # queries for worker+model, and their bookkeeping

    # ---- kwargs (in-process: constructing the real protocol objects)
    classes = proto_classes()
    KQ = []
    for p in PROTOS:
        for n_, args in enumerate(kwargs_cases(ctx)):
            # the dict the parser is built from when a request arrives, for every validator setting
            val = VALIDATORS[n_ % 3] if n_ >= 3 else VALIDATORS[n_]
            impl = kw_json(at_request_kw(classes[p], val, args))
            q = {'op': 'kwargs', 'proto': p, 'validator': VNAME[val], 'args': args}
            KQ.append((q, impl))
            ctx.case(q)
            ctx.hit('op:kwargs')

    # ---- parse: abstract attack documents x configurations
    cfgs = configs()
    corpus = parse_corpus(ctx, lib, w0)
    for label, doc in corpus:
        Q.append({'op': 'parse', 'kw': 'defaults', 'doc': doc})
        META.append({'label': label})
        for kw in cfgs:
            if kw['huge_tree'] and is_bomb_label(label, lib):
                continue        # without libxml2's limits these really take gigabytes (on both sides)
            Q.append({'op': 'parse', 'kw': kw, 'doc': doc})
            META.append({'label': label})
    quiet = [kw for kw in cfgs if kw['resolve_entities'] == 'off' and not kw['load_dtd'] and not kw['attribute_defaults']]
    for i in range(1500 if ctx.thorough else 250):
        doc = random_doc(ctx.rng, w0)
        for kw in quiet:
            Q.append({'op': 'parse', 'kw': kw, 'doc': doc})
            META.append({'label': 'random'})
    for i in range(1500 if ctx.thorough else 250):
        doc = random_doc(ctx.rng, w0, tame=True)
        for kw in [cfgs[0]] + ctx.rng.sample(cfgs[1:], 5 if ctx.thorough else 3):
            Q.append({'op': 'parse', 'kw': kw, 'doc': doc})
            META.append({'label': 'random-tame'})
    n_parse = len(Q)

    # ---- handle: requests through the real stack, default settings (this is also T3)
    reqs = request_corpus(ctx, lib, w0)
    for meta, q in reqs:
        Q.append(dict(q, kw='defaults'))
        META.append(dict(meta, t3=True))
    # the schema tools (off the request path, anchored): hostile XSD documents under the canaries
    for label, d, toks, pieces, expect in payloads(lib):
        if toks is None or pieces is None or not all(isinstance(t_, dict) and ('t' in t_ or 'r' in t_) for t_ in toks):
            continue
        text = [{'l': t_['t']} if 't' in t_ else {'r': t_['r']} for t_ in toks]
        Q.append({'op': 'schema', 'kw': 'n/a', 'dtd': d, 'text': text, 'attr': [lit('')], 'label': label})
        META.append({'payload': label, 'pos': 'xsd.documentation', 'schema': True})
        Q.append({'op': 'schema', 'kw': 'n/a', 'dtd': d, 'text': [lit('doc')], 'attr': pieces, 'label': label})
        META.append({'payload': label, 'pos': 'xsd.element@name', 'schema': True})
        Q.append({'op': 'schema', 'kw': 'n/a', 'via': 'file', 'dtd': d, 'text': text, 'attr': [lit('')], 'label': label})
        META.append({'payload': label, 'pos': 'included-xsd.documentation', 'schema': True})
    # history: an unsafe instance of the same class is constructed after the default one
    plx = {p[0]: p for p in payloads(lib)}
    for proto in PROTOS:
        for label in ('ext-general:file', 'ext-subset:file', 'internal', 'bomb:nesting'):
            _, d, toks, pieces, exp = plx[label]
            Q.append({'op': 'handle', 'proto': proto, 'tr': 'server', 'kw': 'defaults', 'history': 'unsafe-sibling',
                      'req': {'doc': request_doc(proto, d, w0, text=('s', toks)), 'multipart': False, 'unicode_decl': False}})
            META.append({'payload': label, 'pos': 's', 'kind': 'text+unsafe-sibling', 'expect': 'reject' if exp == 'reject' else 'any', 't3': True})
    # positive controls: the same stack with unsafe settings must make the canaries fire
    controls = []
    pl = {p[0]: p for p in payloads(lib)}
    for proto in PROTOS:
        for tr in ('server', 'wsgi'):
            for label, kw in (('ext-general:file', dict(DEFAULT_KW, resolve_entities='all')),
                              ('ext-subset:file', dict(DEFAULT_KW, load_dtd=True)),
                              ('ext-param:file', dict(DEFAULT_KW, load_dtd=True)),
                              ('internal', dict(DEFAULT_KW, resolve_entities='internal')),
                              ('ext-subset-attlist:file', dict(DEFAULT_KW, attribute_defaults=True)),
                              ('bomb:nesting', dict(DEFAULT_KW, huge_tree=True))):
                _, d, toks, pieces, _e = pl[label]
                doc = request_doc(proto, d, w0, text=('s', toks), omit_tag=label.startswith('ext-subset-attlist'))
                Q.append({'op': 'handle', 'proto': proto, 'tr': tr, 'kw': kw,
                          'req': {'doc': doc, 'multipart': False, 'unicode_decl': False}})
                META.append({'payload': label, 'pos': 's', 'kind': 'text', 'control': True})
                controls.append(len(Q) - 1)

    ctx.log('cases: %d kwargs, %d parse (%d documents x configurations), %d requests (+%d controls)'
            % (len(KQ), n_parse, len(corpus), len(reqs), len(controls)))
    t = time.time()
    R = pool.run(Q, keys=[('%s|%s' % (m_.get('payload', m_.get('label')), q_.get('proto'))) for q_, m_ in zip(Q, META)])
    ctx.log('implementation side done (%.1fs)' % (time.time() - t))
    t = time.time()
    MQ = [q for q, _ in KQ] + [dict(q, env=env0, kw=DEFAULT_KW if q['kw'] == 'defaults' else q['kw']) if q['op'] != 'schema'
                               else {'op': 'kwargs', 'proto': 'xml', 'validator': 'none', 'args': dict({a: DEFAULT_KW[a] for a in BOOL_ARGS}, resolve_entities='off')}
                               for q in Q]
    # what user code receives for an attacked leaf, per kind of value
    DQ = []
    for i, (q, meta) in enumerate(zip(Q, META)):
        dl = meta.get('deliver') or (('unicode', '{%s}s' % TNS) if q['op'] == 'handle' and meta.get('pos') == 's'
                                     and meta.get('kind') == 'text' and q['kw'] == 'defaults' else None)
        if dl and dl[0] not in ('anyXml', 'anyHtml') and meta['payload'].split(':')[0] in (
                'internal', 'ext-general', 'ext-in-internal', 'ext-param', 'ext-subset', 'chain', 'benign', 'typed-internal'):
            DQ.append((i, dl))
            MQ.append({'op': 'deliver', 'kind': dl[0], 'tag': dl[1], 'doc': q['req']['doc'], 'kw': DEFAULT_KW, 'env': env0})
    # the model does not depend on the validator: identical queries are evaluated once
    for mq in MQ:
        mq.pop('validator', None) if mq.get('op') == 'handle' else None
        mq.pop('history', None)
        if mq.get('op') == 'handle':
            mq['req'] = {'doc': mq['req']['doc'], 'multipart': mq['req'].get('multipart') in (True, 'cloc'),
                         'unicode_decl': bool(mq['req'].get('unicode_decl'))}
    uniq, order = {}, []
    for mq in MQ:
        k_ = core.canon(mq)
        if k_ not in uniq:
            uniq[k_] = len(uniq)
        order.append(uniq[k_])
    UM = [None] * len(uniq)
    for mq, j in zip(MQ, order):
        UM[j] = mq
    UA = model_limited(ctx, UM)
    M = [UA[j] for j in order]
    ctx.log('model side done (%.1fs)' % (time.time() - t))
    for m in M:
        if 'driver_error' in m:
            raise core.Infra('driver error: %r' % (m,))
    MK, M, MD = M[:len(KQ)], M[len(KQ):len(KQ) + len(Q)], M[len(KQ) + len(Q):]
    # an access to the canary directory or socket under default settings is confirmed by running the same
    # request again: the canary files live in /verif/.scratch, which other processes may walk (rsync of /verif)
    def fetch_mismatch(q, r, m):
        return q['op'] == 'parse' and 'wall' in r and (r.get('files', []), bool(r.get('net'))) != model_fetch_obs(m, lib)
    sus = [i for i, (q, r, m) in enumerate(zip(Q, R, M))
           if (q['kw'] in ('defaults', DEFAULT_KW, 'n/a') and (r.get('files') or r.get('net') or r.get('dead')
                                                            or r.get('wall', 0) > TIME_LIMIT_S or r.get('rss_kb', 0) > RSS_LIMIT_KB))
           or fetch_mismatch(q, r, m)]
    # (a tree that really is slow or hungry shows it on the first dozen re-runs; do not re-run hundreds of bombs)
    heavy = [i for i in sus if R[i].get('dead') or R[i].get('wall', 0) > TIME_LIMIT_S or R[i].get('rss_kb', 0) > RSS_LIMIT_KB]
    sus = [i for i in sus if i not in set(heavy[12:])]
    if sus:
        again = Pool(ctx, 1)
        try:
            for i, r2 in zip(sus, again.run([Q[i] for i in sus], timeout=10.0)):
                if R[i].get('dead') and 'wall' in r2 and not r2.get('dead'):
                    R[i] = r2           # the worker was starved (loaded machine), not the request expensive
                    continue
                if 'wall' not in r2 or r2.get('dead'):
                    continue
                R[i]['wall'] = min(R[i].get('wall', 0), r2['wall'])
                R[i]['rss_kb'] = min(R[i].get('rss_kb', 0), r2['rss_kb'])
                R[i]['files'] = sorted(set(R[i].get('files') or []) & set(r2.get('files') or []))
                R[i]['net'] = min(R[i].get('net') or 0, r2.get('net') or 0)
                R[i]['reconfirmed'] = True
        finally:
            again.close()
        ctx.cov['external_access_rechecked'] = len(sus)

    # ---- T2 kwargs
    for (q, impl), mod in zip(KQ, MK):
        if impl != mod:
            ctx.disagree('kwargs', q, impl, mod)

    # ---- T2 deliver
    for (i, dl), md in zip(DQ, MD):
        r = R[i]
        if 'ok' not in md or not r.get('captured'):
            continue
        field = META[i].get('field') or ('s' if dl[0] == 'unicode' else META[i]['pos'])
        got = r['captured'][0].get(field)
        ctx.case({'op': 'deliver', 'kind': dl[0], 'payload': META[i]['payload'], 'proto': Q[i]['proto'], 'tr': Q[i]['tr'],
                  'val': Q[i].get('validator'), 'mp': Q[i]['req'].get('multipart')})
        ctx.hit('op:deliver')
        ctx.hit('deliver:' + dl[0])
        if cps(got or '') != md['ok']:
            ctx.disagree('deliver', {'kind': dl[0], 'case': META[i]['payload'] + '@' + META[i]['pos'], 'proto': Q[i]['proto'],
                                     'doc': Q[i]['req']['doc']}, got, uncps(md['ok']))
    secrets = w0.secrets()
    for i, (q, r, m, meta) in enumerate(zip(Q, R, M, META)):
        wi = i % pool.n
        world = pool.world(wi)
        secrets = world.secrets()
        if r.get('worker_error') and 'inotify' in str(r.get('worker_error')):
            raise core.Infra('worker: %s' % r['worker_error'])
        if q['op'] == 'schema':
            ctx.case({'op': 'schema', 'payload': meta['payload'], 'pos': meta['pos']})
            ctx.hit('op:schema')
            ctx.hit('schema:' + ('parsed' if r.get('exc') is None and 'result' in r else str(r.get('exc') or r.get('dead'))))
            ctx.cov['traces_validated_against_impl'] += 1
            rep = {'query': q, 'case': 'schema tool %s@%s' % (meta['payload'], meta['pos']), 'observed': r}
            if r.get('dead') or r.get('worker_error'):
                ctx.finding('t3:resource:schema-tool', 'parse_schema_string on %s exhausted time or memory' % meta['payload'], rep)
            elif r.get('files') or r.get('net'):
                ctx.finding('t3:file-read:schema-tool', 'parse_schema_string (%s) opened %s' % (meta['payload'], r.get('files') or 'the network'), rep)
            elif any(sct in (r.get('result', '') + r.get('msg', '')) for sct in secrets):
                ctx.finding('t3:leak:schema-tool', 'parse_schema_string (%s): content of an external resource in the result' % meta['payload'], rep)
            elif r['wall'] > TIME_LIMIT_S or r['rss_kb'] > RSS_LIMIT_KB:
                ctx.finding('t3:resource:schema-tool', 'parse_schema_string (%s) took %.2fs / %d kB' % (meta['payload'], r['wall'], r['rss_kb']), rep)
            continue
        if q['op'] == 'parse':
            ctx.case({'op': 'parse', 'kw': q['kw'], 'doc': q['doc']}, nontrivial=meta['label'] != 'plain')
            ctx.hit('op:parse')
            ctx.hit('parse:' + ('ok' if 'ok' in m else 'err:' + m.get('err', '?')))
            impl = impl_parse_canon(r, world)
            mod = {'ok': m['ok']} if 'ok' in m else {'err': True}
            mfiles, mnet = model_fetch_obs(m, lib)
            ifiles, inet = r.get('files', []), bool(r.get('net'))
            safe = q['kw'] in ('defaults', cfgs[0])
            if impl != mod:
                ctx.disagree('parse', {'label': meta['label'], 'kw': short_kw(q['kw']), 'doc': q['doc']}, show(impl), show(m))
            elif (ifiles, inet) != (mfiles, mnet) and ('ok' in m or safe):
                ctx.disagree('parse.fetch', {'label': meta['label'], 'kw': short_kw(q['kw']), 'doc': q['doc']},
                             {'files': ifiles, 'net': inet}, {'files': mfiles, 'net': mnet})
            if q['kw'] == 'defaults' and (ifiles or inet):
                ctx.finding('t3:parse:external-access', 'XmlDocument() with default settings touched %s while parsing (%s)'
                            % (ifiles or 'the network', meta['label']), {'query': q, 'observed': r})
            continue
        # ---------------- handle
        vtag = '/validator=%s' % q['validator'] if q.get('validator') else ''
        desc = '%s/%s%s%s %s@%s' % (q['proto'], q['tr'], ('/multipart' + ('-' + q['req']['multipart'] if isinstance(q['req']['multipart'], str) else '')) if q['req']['multipart'] else '', vtag, meta['payload'], meta['pos'])
        ctx.case({'op': 'handle', 'proto': q['proto'], 'tr': q['tr'], 'mp': q['req']['multipart'], 'ud': q['req']['unicode_decl'], 'val': q.get('validator'),
                  'kw': short_kw(q['kw']), 'payload': meta['payload'], 'pos': meta['pos'], 'kind': meta['kind']})
        ctx.hit('op:handle')
        ctx.hit('proto:%s/%s%s' % (q['proto'], q['tr'], ('/multipart' + ('-' + q['req']['multipart'] if isinstance(q['req']['multipart'], str) else '')) if q['req']['multipart'] else ''))
        ctx.hit('payload:' + meta['payload'].split(':')[0])
        ctx.hit('validator:%s' % (q.get('validator') or 'none'))
        if meta.get('enc'):
            ctx.hit('encoding:' + meta['enc'])
        if meta.get('deliver'):
            ctx.hit('kind:' + meta['deliver'][0])
        impl = impl_handle_canon(r, world)
        mod = model_handle_canon(m)
        if meta.get('t2skip'):
            ctx.hit('handle:not-compared:' + ('href-rewritten' if meta['pos'] == 'href.s' else 'charset-mismatch'))
        elif impl is None:
            ctx.hit('handle:failed-after-parse:' + str(r.get('crash') or r.get('fault')))
        else:
            ctx.hit('handle:' + next(iter(impl)))
            if impl != mod and not (meta.get('control') and meta['payload'].startswith('ext-subset-attlist')):
                # (ATTLIST defaults under attribute_defaults=True are not part of the abstract front end)
                ctx.disagree('handle', {'case': desc, 'kw': short_kw(q['kw']), 'req': q['req'], 'proto': q['proto'], 'tr': q['tr']},
                             show(impl), show(mod))
        if meta.get('control'):
            continue
        # ---------------- T3: the property itself, default settings
        ctx.cov['traces_validated_against_impl'] += 1
        rep = {'query': q, 'case': desc, 'observed': {k: v for k, v in r.items() if k != 'seen'}}
        site = '%s:%s%s%s' % (q['proto'], q['tr'], (':multipart' + ('-' + q['req']['multipart'] if isinstance(q['req']['multipart'], str) else '')) if q['req']['multipart'] else '',
                              ':after-unsafe-sibling' if q.get('history') else '') + \
            (':validator=%s' % q['validator'] if q.get('validator') else '')
        if r.get('dead') or r.get('worker_error'):
            ctx.finding('t3:resource:%s' % site,
                        'request %s exhausted time or memory: %s' % (desc, r.get('dead') or r.get('worker_error')), rep)
            continue
        if r['files']:
            ctx.finding('t3:file-read:%s' % site,
                        'request %s made the server open local file(s) %s' % (desc, r['files']), rep)
        if r['net']:
            ctx.finding('t3:network:%s' % site,
                        'request %s made the server connect to the canary socket' % desc, rep)
        blob = json.dumps(r['captured'], ensure_ascii=False) + r['resp']
        if any(sct in blob for sct in secrets):
            ctx.finding('t3:leak:%s' % site,
                        'request %s: content of an external resource reached user code or the response' % desc, rep)
        # entity substitution is off: replacement text must not be substituted into element text
        for c in r['captured']:
            # everything user code received, except values of XML attributes (libxml2 substitutes internal entities
            # inside attribute values whatever resolve_entities says; see NOTES)
            vals = []
            for k_, v_ in c.items():
                if k_ in ('tag', 'w@at'):
                    continue
                vals += [x_ for x_ in (v_ if isinstance(v_, list) else [v_]) if isinstance(x_, str)]
            if meta.get('forbidden') and meta['forbidden'] in vals:
                ctx.finding('t3:text-entity-expanded:%s' % site,
                            'request %s: user code received %r, the literal extended by the replacement text of the entity '
                            'referenced after it' % (desc, meta['forbidden']), rep)
            if any('IENT' in v for v in vals):
                ctx.finding('t3:text-entity-expanded:%s' % site,
                            'request %s: an entity reference in element content was replaced by its replacement text in what '
                            'user code received: %r' % (desc, [v[:40] for v in vals if 'IENT' in v][:1]), rep)
        if meta['kind'].startswith('text') and 'IENT' in r['resp']:
            ctx.finding('t3:text-entity-expanded:%s' % site,
                        'request %s: the replacement text of an entity referenced in element content is in the response' % desc, rep)
        if r['wall'] > TIME_LIMIT_S or r['rss_kb'] > RSS_LIMIT_KB:
            ctx.finding('t3:resource:%s' % site,
                        'request %s took %.2fs and %d kB of additional peak RSS' % (desc, r['wall'], r['rss_kb']), rep)
        if meta['expect'] == 'reject' and r.get('fault') != 'Client.XMLSyntaxError':
            ctx.finding('t3:not-client-syntax-fault:%s' % site,
                        'request %s must be rejected with Client.XMLSyntaxError, got fault=%r crash=%r'
                        % (desc, r.get('fault'), r.get('crash')), rep)
        ctx.hit('t3:' + ('fault' if r.get('fault') else 'crash' if r.get('crash') else 'ok'))
        ctx.cov['max_wall_s'] = max(ctx.cov.get('max_wall_s', 0), r['wall'])
        ctx.cov['max_rss_growth_kb'] = max(ctx.cov.get('max_rss_growth_kb', 0), r['rss_kb'])

    # ---- the canaries must be able to fire (otherwise the negative results above mean nothing)
    fired = {'file': 0, 'leak': 0, 'text': 0, 'nest': 0, 'attlist': 0}
    for i in controls:
        r, meta = R[i], META[i]
        world = pool.world(i % pool.n)
        if meta['payload'] in ('ext-general:file', 'ext-subset:file', 'ext-param:file') and r.get('files'):
            fired['file'] += 1
        if meta['payload'] == 'ext-general:file' and any(s_ in json.dumps(r.get('captured')) for s_ in world.secrets()):
            fired['leak'] += 1
        if meta['payload'] == 'ext-subset-attlist:file' and world.attlist_marker(51) in json.dumps(r.get('captured')):
            fired['attlist'] += 1
        if meta['payload'] == 'internal' and 'IENT1' in json.dumps(r.get('captured')):
            fired['text'] += 1
        if meta['payload'] == 'bomb:nesting' and not r.get('fault'):
            fired['nest'] += 1
    ctx.cov['oracle_positive_controls'] = fired
    if not all(fired.values()) and not (ctx.proof_broken or ctx.corr_broken or ctx.found_input):
        raise core.Infra('C17 oracle self-test failed: with unsafe settings the canaries must fire, got %r' % fired)
    ctx.cov['rule'] = (
        'parse: %d abstract attack documents (one or more per clause of the abstract front end: internal/external general '
        'entities over file/http/ftp, external subsets and parameter entities existing/missing, undeclared and lenient '
        'references, loops, element nesting and entity nesting at limit-1/limit/limit+1, expansion chains far below and far '
        'above the amplification budget, XInclude, thousands of attributes) x 26 parser configurations + seeded random '
        'documents x 4 configurations, through the real XmlDocument(**kw).create_in_document; handle/T3: %d payloads at every '
        'text, element-content and attribute position of a valid echo request, XmlDocument/Soap11/Soap12 x ServerBase/WSGI '
        '(+ multipart/related for SOAP over WSGI); distinct = distinct (op, configuration, document|placement); non-trivial = '
        'all but the attack-free document' % (len(corpus), len(payloads(lib))))


def is_bomb_label(label, lib):
    if label.startswith('quadratic') and label.endswith(':400'):
        return True
    if label.startswith('chain-'):
        d, fan = label.split(':')[1].split('x')
        return chain_cost(int(d), int(fan), 10) > 1000000
    return False


def model_limited(ctx, queries):
    """ctx.model with an address-space limit on the driver processes (a modelling slip must not eat the machine)"""
    import resource
    old = resource.getrlimit(resource.RLIMIT_AS)
    try:
        resource.setrlimit(resource.RLIMIT_AS, (28 << 30, old[1]))
        return ctx.model(queries)
    finally:
        resource.setrlimit(resource.RLIMIT_AS, old)


def short_kw(kw):
    if kw == 'defaults':
        return 'defaults'
    return ','.join('%s=%s' % (k, v) for k, v in sorted(kw.items()) if DEFAULT_KW.get(k) != v) or 'defaults'


def show(o):
    s = json.dumps(o, ensure_ascii=False)
    return s if len(s) < 600 else s[:600] + '...'


def replay(ctx, obj):
    """re-execute one recorded case on the implementation (fresh worker) and on the model"""
    import logging
    logging.disable(logging.CRITICAL)
    print('replay of:', obj.get('what'))
    q = obj.get('query')
    if q is None and obj.get('disagreements'):
        print('no single failing input; broken:', obj.get('broken_theorems'), obj.get('broken_correspondence'))
        return 0
    if q is None:
        print('nothing to replay in this file')
        return 0
    f = measure_facts(ctx)
    pool = Pool(ctx, 1)
    try:
        r = pool.run([q])[0]
        w = pool.world(0)
        if q['op'] == 'handle':
            body, ctype = Worker.request_bytes(type('W', (), {'world': w})(), q)
            print('request (%s, %s, Content-Type: %s):' % (q['proto'], q['tr'], ctype))
            print(body[:1500].decode('utf-8', 'replace') + ('...' if len(body) > 1500 else ''))
        print('implementation:', show({k: v for k, v in r.items() if k != 'seen'}))
        try:
            mq = dict(q, env=env_for(w, f['lib']), kw=DEFAULT_KW if q['kw'] == 'defaults' else q['kw'])
            if mq.get('op') == 'handle':
                mq['req'] = dict(mq['req'], multipart=mq['req'].get('multipart') in (True, 'cloc'))
            m = model_limited(ctx, [mq])[0]
            print('model         :', show(m))
        except Exception as e:
            print('model         : (not available: %s)' % e)
    finally:
        pool.close()
    return 0


if __name__ == '__main__':
    if len(sys.argv) >= 4 and sys.argv[1] == '--worker':
        worker_main(sys.argv[2], sys.argv[3])
