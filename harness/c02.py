"""C02 — dict-document wire fidelity (JSON, YAML, MessagePack).

T1: behaviour switches of the dict-document code measured on the real code -> Generated/Facts02.lean
Proof: lean/Props/C02.lean (round trip of members, requests, responses; documented alternative spellings)
T2: model-vs-implementation on whole requests (valid and mutated) and on response documents, all 32 configurations
T3: the user function receives exactly the sent arguments; the response decodes (independent reference decoder)
    to exactly the returned value
Shared machinery: harness/hierblock.py
"""
from . import core
from . import hierblock as H


def run(ctx):
    from . import c08
    c08.refresh_facts(ctx)      # leaf switches -> Generated/Facts08.lean (Props import Facts08Good)
    H.load_known(ctx)
    H.t1(ctx)
    ctx.prove()
    H.part_c02(ctx)
    H.part_t3_extra_leaves(ctx)


def replay(ctx, obj):
    return H.replay(ctx, obj)
