"""Dict-document codec block (JSON / YAML / MessagePack): shared machinery of C02 and of the
dict-document parts of C04 C05 C16 C10.

Vocabulary (same JSON goes to the Lean driver `lean/Driver/C02.lean`):
  Ty   {"k":"int","kind":"i8","r":{"ge":..},"occ":{..}} | bool | str | date | time | dt | dur | bytes | enum
       {"k":"obj","name","ns","base","fields":[[n,Ty]..],"occ"} | {"k":"arr","member","elem":Ty,"occ"}
       extra T3-only leaf kinds (no Lean counterpart in the shared vocabulary): dec, dbl, uuid
  Val  null | {"i":"digits"} | {"b":bool} | {"s":[cps]} | {"date":[y,m,d]} | {"time":[h,mi,s,us]} |
       {"dt":[y,mo,d,h,mi,s,us,tz|null]} | {"dur":"us"} | {"x":[bytes]} | {"e":[cps]} |
       {"o":[cls,[[n,Val]..]]} | {"l":[Val..]}      (T3-only: {"dec":str} {"dbl":repr} {"uuid":hex})
  Doc  null | {"B":bool} | {"I":"digits"} | {"F":"int-digits"|null} | {"O":1} | {"S":[cps]} | {"X":[bytes]} |
       {"N":1} (NaN) | {"L":[Doc..]} | {"M":[[Key,Doc]..]}     Key = {"s":[cps]} | {"x":[bytes]} | {"i":"digits"} | {"o":1}
"""
import base64, binascii, datetime as pydt, decimal, json, math, uuid as pyuuid

from . import core

TNS = 'tns'
PROTOS = ('json', 'yaml', 'msgpack', 'msgpackrpc')
KIND_RANGE = {'i8': (-2 ** 7, 2 ** 7 - 1), 'i16': (-2 ** 15, 2 ** 15 - 1), 'i32': (-2 ** 31, 2 ** 31 - 1),
              'i64': (-2 ** 63, 2 ** 63 - 1), 'u8': (0, 2 ** 8 - 1), 'u16': (0, 2 ** 16 - 1),
              'u32': (0, 2 ** 32 - 1), 'u64': (0, 2 ** 64 - 1), 'unbounded': (None, None)}
DAY = 86400 * 10 ** 6
DUR_MIN, DUR_MAX = -999999999 * DAY, 999999999 * DAY + DAY - 1


def cps(s):
    return [ord(c) for c in s]


def uncps(l):
    return ''.join(chr(c) for c in l)


def occ(nillable=True, mn=0, mx=1):
    return {'nillable': nillable, 'min': mn, 'max': mx}


def is_rep(o):
    return o['max'] is None or o['max'] > 1


# ===================================================================================== spyne classes
class Builder:
    """turns Ty JSON into real spyne classes (cached per class name / structural key)"""

    _keep = []      # spyne memoises per id(cls): never let a generated class be collected (its id could be reused)

    def __init__(self):
        Builder._keep.append(self)
        self.classes = {}       # name -> ComplexModel subclass
        self.enums = {}
        self._n = 0

    def obj_class(self, ty):
        from spyne.model.complex import ComplexModelMeta, ComplexModel
        name = ty['name']
        c = self.classes.get(name)
        if c is not None:
            return c
        base = ComplexModel
        nbase = 0
        if ty.get('base'):
            base = self.classes[ty['base']]
            nbase = len(base.get_flat_type_info(base))
        own = [(n, self.py_type(t)) for n, t in ty['fields'][nbase:]]
        body = {'__namespace__': ty.get('ns') or TNS, '_type_info': own}
        if ty.get('attrs_of'):
            # `class Attributes(Other.Attributes)`: the idiom for taking over another model's settings (it also takes over
            # that model's list of subclasses)
            body['Attributes'] = type('Attributes', (self.classes[ty['attrs_of']].Attributes,), {})
        c = ComplexModelMeta(str(name), (base,), body)
        self.classes[name] = c
        return c

    def register(self, classdefs):
        """classes of a universe, bases first: [{"name","ns","base","fields"}]"""
        for cd in classdefs:
            self.obj_class(dict(cd, k='obj'))

    def py_type(self, ty, as_serializer=False):
        from spyne.model import primitive as P
        from spyne.model import ByteArray, Enum, Array
        o = ty.get('occ') or occ()
        kw = {}
        if not o['nillable']:
            kw['nillable'] = False
        if o['min'] != 0:
            kw['min_occurs'] = o['min']
        if o['max'] != 1:
            kw['max_occurs'] = 'unbounded' if o['max'] is None else o['max']
        if as_serializer and o['max'] == 1:
            # Array() would customize(max_occurs=inf) the serializer itself, which resets the max_str_len guard of
            # integer types to infinity: hand it a serializer that is unbounded already
            kw['max_occurs'] = 'unbounded'
        k = ty['k']
        if ty.get('pa'):
            # per-protocol attributes: {protocol name: {attribute: value}} -> pa={ProtocolClass: {...}}
            kw['pa'] = {proto_class(pn): dict(a) for pn, a in ty['pa'].items()}
        if k == 'int':
            cls = {'unbounded': P.Integer, 'i8': P.Integer8, 'i16': P.Integer16, 'i32': P.Integer32,
                   'i64': P.Integer64, 'u8': P.UnsignedInteger8, 'u16': P.UnsignedInteger16,
                   'u32': P.UnsignedInteger32, 'u64': P.UnsignedInteger64}[ty.get('kind', 'unbounded')]
            for f, v in (ty.get('r') or {}).items():
                if v is not None:
                    kw[f] = int(v)
            if ty.get('vals'):
                kw['values'] = [int(x) for x in ty['vals']]        # (T3 only: the shared PrimTy has `values` on strings only)
            if kw:
                # customising an integer type resets its max_str_len guard to infinity; declare the guard of the
                # plain class explicitly so that every generated integer type has the guard the model knows
                kw['max_str_len'] = cls.Attributes.max_str_len
            return cls(**kw) if kw else cls
        if k == 'bool':
            if ty.get('vals'):
                kw['values'] = list(ty['vals'])
            return P.Boolean(**kw) if kw else P.Boolean
        if k == 'str':
            if ty.get('minLen'):
                kw['min_len'] = ty['minLen']
            if ty.get('maxLen') is not None:
                kw['max_len'] = ty['maxLen']
            if ty.get('pattern'):
                kw['pattern'] = pattern_regex(ty['pattern'])
            if ty.get('values'):
                kw['values'] = [uncps(v) for v in ty['values']]
            return P.Unicode(**kw) if kw else P.Unicode
        if k in ('date', 'time', 'dt', 'dur', 'dec', 'dbl', 'uuid'):
            cls = {'date': P.Date, 'time': P.Time, 'dt': P.DateTime, 'dur': P.Duration, 'dec': P.Decimal,
                   'dbl': P.Double, 'uuid': P.Uuid}[k]
            # ge / gt / le / lt for these kinds are outside the shared Lean universe (T3 only): {"rng": {"ge": <Val JSON>}}
            for f, fv in (ty.get('rng') or {}).items():
                kw[f] = self.to_native({'k': k, 'occ': occ()}, fv)
            if ty.get('vals') and k in ('dec', 'dbl'):
                kw['values'] = [decimal.Decimal(x) if k == 'dec' else float(x) for x in ty['vals']]
            if k == 'dec' and ty.get('td') is not None:
                return P.Decimal(ty['td'], ty.get('fd') or 0, **kw)         # total_digits, fraction_digits
            return cls(**kw) if kw else cls
        if k == 'bytes':
            enc = ty.get('enc', 'base64')
            if enc == 'hex':
                kw['encoding'] = 'hex'
            elif enc == 'urlsafe':
                kw['encoding'] = 'urlsafe_base64'
            return ByteArray(**kw) if kw else ByteArray
        if k == 'enum':
            key = tuple(uncps(n) for n in ty['names'])
            e = self.enums.get(key)
            if e is None:
                self._n += 1
                e = Enum(*key, type_name='Enum%d' % self._n)
                self.enums[key] = e
            return e.customize(**kw) if kw else e
        if k == 'obj':
            c = self.obj_class(ty)
            if ty.get('nw'):
                kw['not_wrapped'] = True        # the class is used without its wrapper at this place
            if ty.get('nofreq'):
                kw['validate_freq'] = False     # Cls.novalidate_freq()
            return c.customize(**kw) if kw else c
        if k == 'file':
            from spyne.model.binary import File
            return File(**kw) if kw else File
        if k == 'arr':
            elem = self.py_type(ty['elem'], as_serializer=True)
            return Array(elem, **kw)
        raise ValueError(k)

    # ------------------------------------------------------------------ values
    def native(self, ty, v):
        """Val JSON -> native python value; nodes that carry the same "id" become one Python object"""
        self._alias = {}
        return self.to_native(ty, v)

    _alias = {}

    def to_native(self, ty, v):
        """Val JSON -> native python value for the declared type"""
        if v is None:
            return None
        if is_rep(ty.get('occ') or occ()) and 'l' in v and not ty.get('_item'):
            it = dict(ty, _item=True)
            return [self.to_native(it, x) for x in v['l']]
        k = ty['k']
        if 'i' in v:
            return int(v['i'])
        if 'b' in v:
            return v['b']
        if 's' in v:
            return uncps(v['s'])
        if 'date' in v:
            return pydt.date(*v['date'])
        if 'time' in v:
            return pydt.time(*v['time'])
        if 'dt' in v:
            import pytz
            a = v['dt']
            return pydt.datetime(*a[:7], tzinfo=None if a[7] is None else pytz.FixedOffset(a[7]))
        if 'dur' in v:
            return pydt.timedelta(microseconds=int(v['dur']))
        if 'x' in v:
            # native ByteArray values are sequences of chunks whose concatenation is the value; {"x": .., "chunks": [n, ..]}
            # presents the same value in chunks of those lengths (a tuple when "tuple" is set)
            bs = bytes(v['x'])
            if v.get('chunks') is not None:
                out, i = [], 0
                for n in v['chunks']:
                    out.append(bs[i:i + n])
                    i += n
                assert i == len(bs)
                return tuple(out) if v.get('tuple') else out
            return [bs]
        if 'e' in v:
            return getattr(self.py_type(dict(ty, occ=occ())), uncps(v['e']))
        if 'dec' in v:
            return decimal.Decimal(v['dec'])
        if 'dbl' in v:
            return float(v['dbl'])
        if 'uuid' in v:
            return pyuuid.UUID(hex=v['uuid'])
        if 'o' in v:
            # {"o": ..., "id": n}: every node with the same id is the same Python object (aliasing)
            memo = self._alias
            if v.get('id') is not None and v['id'] in memo:
                return memo[v['id']]
            cname, fvs = v['o']
            cls = self.classes[cname]
            inst = cls()
            if v.get('id') is not None:
                memo[v['id']] = inst
            fti = dict(self.flat_fields(cname, ty))
            for n, fv in fvs:
                setattr(inst, n, self.to_native(fti[n], fv))
            return inst
        if 'l' in v:
            return [self.to_native(ty['elem'], x) for x in v['l']]
        raise ValueError(v)

    def flat_fields(self, cname, ty):
        if ty['k'] == 'obj' and ty['name'] == cname:
            return ty['fields']
        return self.universe_fields[cname]

    universe_fields = {}

    def from_native(self, ty, x, item=False):
        """native python value -> Val JSON; raises Leak when a node is not a value of the declared type"""
        o = ty.get('occ') or occ()
        if x is None:
            return None
        if is_rep(o) and not item:
            if not isinstance(x, (list, tuple)):
                raise Leak('repeated:%s' % type(x).__name__)
            return {'l': [self.from_native(ty, y, True) for y in x]}
        k = ty['k']
        if k == 'int':
            if isinstance(x, bool) or not isinstance(x, int):
                if isinstance(x, bool):
                    return {'i': str(int(x))}       # bool is an int
                raise Leak('int:%s' % type(x).__name__)
            return {'i': str(x)}
        if k == 'bool':
            if not isinstance(x, bool):
                raise Leak('bool:%s' % type(x).__name__)
            return {'b': x}
        if k == 'str':
            if not isinstance(x, str):
                raise Leak('str:%s' % type(x).__name__)
            return {'s': cps(x)}
        if k == 'date':
            if isinstance(x, pydt.datetime) or not isinstance(x, pydt.date):
                raise Leak('date:%s' % type(x).__name__)
            return {'date': [x.year, x.month, x.day]}
        if k == 'time':
            if not isinstance(x, pydt.time):
                raise Leak('time:%s' % type(x).__name__)
            return {'time': [x.hour, x.minute, x.second, x.microsecond]}
        if k == 'dt':
            if not isinstance(x, pydt.datetime):
                raise Leak('dt:%s' % type(x).__name__)
            off = x.utcoffset()
            tz = None if off is None else (off.days * 86400 + off.seconds) // 60
            return {'dt': [x.year, x.month, x.day, x.hour, x.minute, x.second, x.microsecond, tz]}
        if k == 'dur':
            if not isinstance(x, pydt.timedelta):
                raise Leak('dur:%s' % type(x).__name__)
            return {'dur': str((x.days * 86400 + x.seconds) * 1000000 + x.microseconds)}
        if k == 'bytes':
            if isinstance(x, (bytes, bytearray)):
                return {'x': list(x)}
            if isinstance(x, (list, tuple)) and all(isinstance(c, (bytes, bytearray)) for c in x):
                return {'x': list(b''.join(x))}
            raise Leak('bytes:%s' % type(x).__name__)
        if k == 'enum':
            names = [uncps(n) for n in ty['names']]
            s = str(x)
            if type(x).__name__ != 'EnumValue' or s not in names:
                raise Leak('enum:%s' % type(x).__name__)
            return {'e': cps(s)}
        if k == 'dec':
            if not isinstance(x, decimal.Decimal):
                raise Leak('dec:%s' % type(x).__name__)
            return {'dec': str(x)}
        if k == 'dbl':
            # the serialisers cannot tell 1 from 1.0: an int is accepted as the value of a Double
            if isinstance(x, bool) or not isinstance(x, (float, int)):
                raise Leak('dbl:%s' % type(x).__name__)
            return {'dbl': repr(float(x))}
        if k == 'uuid':
            if not isinstance(x, pyuuid.UUID):
                raise Leak('uuid:%s' % type(x).__name__)
            return {'uuid': x.hex}
        if k == 'file':
            return file_value_json(x)
        if k == 'obj':
            if isinstance(x, list) and len(x) == 0:
                return {'l': []}                    # `_doc_to_object(None)` -> [] (reported as is)
            decl = self.classes[ty['name']]
            if not isinstance(x, decl):
                raise Leak('obj:%s' % type(x).__name__)
            cname = type(x).get_type_name()
            fields = self.flat_fields(cname, ty)
            return {'o': [cname, [[n, self.from_native(ft, getattr(x, n, None))] for n, ft in fields]]}
        if k == 'arr':
            if not isinstance(x, (list, tuple)):
                raise Leak('arr:%s' % type(x).__name__)
            return {'l': [self.from_native(ty['elem'], y, True) for y in x]}
        raise ValueError(k)


FILE_TYPE_DEFAULT = 'application/octet-stream'


def file_value_json(x):
    """type walk of a File.Value as user code sees it: name / type are str or None, data is None or a sequence of
    bytes chunks (declared: name = Unicode, type = Unicode, data = ByteArray) -> Val JSON of the FileValue object"""
    from spyne.model.binary import File
    if not isinstance(x, File.Value):
        raise Leak('file:%s' % type(x).__name__)
    out = []
    for a in ('name', 'type'):
        val = getattr(x, a, None)
        if val is not None and not isinstance(val, str):
            raise Leak('file.%s:%s' % (a, type(val).__name__))
        out.append([a, None if val is None else {'s': cps(val)}])
    data = getattr(x, 'data', None)
    if data is None:
        out.append(['data', None])
    elif isinstance(data, (bytes, bytearray)):
        out.append(['data', {'x': list(data)}])
    elif isinstance(data, (list, tuple)) and all(isinstance(c, (bytes, bytearray)) for c in data):
        out.append(['data', {'x': list(b''.join(data))}])
    else:
        raise Leak('file.data:%s' % (type(data).__name__ if not isinstance(data, (list, tuple))
                                       else 'seq of ' + '/'.join(sorted({type(c).__name__ for c in data}))))
    return {'o': ['FileValue', out]}


class Leak(Exception):
    """user code received a node that is not a value of the declared type"""


def pattern_regex(p):
    def esc(c):
        ch = chr(c)
        return '\\' + ch if ch in '\\]^-[' else ch
    cls = ''.join(esc(lo) if lo == hi else '%s-%s' % (esc(lo), esc(hi)) for lo, hi in p['ranges'])
    return '[%s]{%d,%s}' % (cls, p.get('min', 0), '' if p.get('max') is None else p['max'])


# ===================================================================================== documents
class Opaque:
    """a foreign native object inside a parsed document (e.g. a YAML timestamp)"""

    def __init__(self, x):
        self.x = x


def doc_to_json(d):
    """python document (as produced by json.loads / yaml.load / msgpack.unpackb) -> Doc JSON"""
    if d is None:
        return None
    if isinstance(d, bool):
        return {'B': d}
    if isinstance(d, int):
        return {'I': str(d)}
    if isinstance(d, float):
        if d != d:
            return {'N': 1}
        return {'F': str(int(d)) if (math.isfinite(d) and d == int(d)) else None}
    if isinstance(d, str):
        return {'S': cps(d)}
    if isinstance(d, (bytes, bytearray)):
        return {'X': list(d)}
    if isinstance(d, (list, tuple)):
        return {'L': [doc_to_json(x) for x in d]}
    if isinstance(d, dict):
        return {'M': [[key_to_json(k), doc_to_json(v)] for k, v in d.items()]}
    return {'O': 1}


def key_to_json(k):
    if isinstance(k, str):
        return {'s': cps(k)}
    if isinstance(k, bytes):
        return {'x': list(k)}
    if isinstance(k, int) and not isinstance(k, bool):
        return {'i': str(k)}
    return {'o': 1}


def json_to_doc(j, tuples=False):
    if j is None:
        return None
    if 'B' in j:
        return j['B']
    if 'I' in j:
        return int(j['I'])
    if 'F' in j:
        return float(j['F']) if j['F'] is not None else 0.5
    if 'S' in j:
        return uncps(j['S'])
    if 'X' in j:
        return bytes(j['X'])
    if 'L' in j:
        return [json_to_doc(x) for x in j['L']]
    if 'M' in j:
        return {json_to_key(k): json_to_doc(v) for k, v in j['M']}
    if 'O' in j:
        return pydt.date(2020, 1, 2)
    if 'N' in j:
        return float('nan')
    raise ValueError(j)


def json_to_key(k):
    if 's' in k:
        return uncps(k['s'])
    if 'x' in k:
        return bytes(k['x'])
    if 'i' in k:
        return int(k['i'])
    return pydt.date(2020, 1, 2)


# ---- third-party (de)serialisers as oracles bytes <-> Doc
def dump(proto, pydoc):
    if proto == 'json':
        return json.dumps(pydoc).encode('utf8')
    if proto == 'yaml':
        import yaml
        return yaml.safe_dump(pydoc, allow_unicode=True, encoding='utf-8')
    import msgpack
    return msgpack.packb(pydoc, use_bin_type=True)


def load(proto, data):
    if proto == 'json':
        return json.loads(data.decode('utf8'))
    if proto == 'yaml':
        import yaml
        return yaml.safe_load(data.decode('utf8'))
    import msgpack
    return msgpack.unpackb(data, raw=False, strict_map_key=False)


def dumpable(proto, j):
    """can the Doc JSON be written by the protocol's serialiser at all?"""
    if j is None:
        return True
    if 'X' in j:
        return proto != 'json'
    if 'O' in j:
        return proto == 'yaml'
    if 'I' in j:
        return proto in ('json', 'yaml') or -2 ** 63 <= int(j['I']) < 2 ** 64
    if 'L' in j:
        return all(dumpable(proto, x) for x in j['L'])
    if 'M' in j:
        ks = [canon_key(k) for k, _ in j['M']]
        if len(set(ks)) != len(ks):
            return False
        for k, v in j['M']:
            if 'x' in k and proto == 'json' or ('o' in k or 'i' in k) and proto != 'yaml':
                return False
            if not dumpable(proto, v):
                return False
        return True
    return True


def canon_key(k):
    return core.canon(k)


# ===================================================================================== implementation runner
CFG_DEFAULT = {'proto': 'json', 'validator': None, 'iw': True, 'cas': 'dict', 'poly': False}


def cfg_key(cfg):
    k = (cfg['proto'], cfg['validator'], cfg['iw'], cfg['cas'], cfg['poly'])
    if mp_opts(cfg) != (False, True):
        k += ('raw=%s' % cfg['raw'], 'use_bin_type=%s' % cfg['bin'])
    return k


def mp_opts(cfg):
    """MessagePackDocument(raw=, use_bin_type=): the constructor options that select the leaf handler table"""
    return (bool(cfg.get('raw', False)), bool(cfg.get('bin', True)))


def load_as_server(cfg, data):
    """the document the protocol's own create_in_document hands to the decoder (MessagePackRpc passes `raw` to the
    unpacker: with raw=True every str arrives as bytes; MessagePackDocument does not)"""
    if cfg['proto'] == 'msgpackrpc' and mp_opts(cfg)[0]:
        import msgpack
        return msgpack.unpackb(data, raw=True, strict_map_key=False)
    return load(cfg['proto'], data)


def proto_class(name):
    if name == 'json':
        from spyne.protocol.json import JsonDocument
        return JsonDocument
    if name == 'yaml':
        from spyne.protocol.yaml import YamlDocument
        return YamlDocument
    if name == 'msgpack':
        from spyne.protocol.msgpack import MessagePackDocument
        return MessagePackDocument
    from spyne.protocol.msgpack import MessagePackRpc
    return MessagePackRpc


class Impl:
    """one generated service `f(arg0..argN) -> ret` under every configuration, driven through the real
    pipeline (Application + ServerBase).  `ret_fn(args)` decides what the user function returns."""

    def __init__(self, B, sig, method='f'):
        self.B, self.sig, self.method = B, sig, method
        self.calls = []
        self.ret_value = None
        self.servers = {}
        from spyne import rpc, ServiceBase
        argt = [B.py_type(t) for _, t in sig['args']]
        rett = B.py_type(sig['ret']) if sig.get('ret') is not None else None
        me = self

        # a user function with exactly the declared positional parameters (as real services have)
        names = [n for n, _ in sig['args']]
        env = {'me': me}
        exec('def %s(ctx%s):\n    me.calls.append((%s))\n    return me.ret_value\n' % (
            method, ''.join(', ' + n for n in names), ''.join(n + ', ' for n in names)), env)
        f = env[method]
        kw = {'_args': [n for n, _ in sig['args']]}
        if rett is not None:
            kw['_returns'] = rett
        self.service = type('Svc', (ServiceBase,), {method: rpc(*argt, **kw)(f)})

    def in_ty(self):
        return {'k': 'obj', 'name': self.method, 'ns': TNS, 'base': None, 'fields': self.sig['args'], 'occ': occ()}

    def server(self, cfg):
        k = cfg_key(cfg)
        s = self.servers.get(k)
        if s is None:
            from spyne import Application
            from spyne.server import ServerBase
            pc = proto_class(cfg['proto'])
            cas = list if cfg['cas'] == 'list' else dict
            kw = {}
            if cfg['proto'].startswith('msgpack') and mp_opts(cfg) != (False, True):
                kw = {'raw': mp_opts(cfg)[0], 'use_bin_type': mp_opts(cfg)[1]}
            app = Application([self.service], TNS, name='App',
                              in_protocol=pc(validator=cfg['validator'], ignore_wrappers=cfg['iw'], complex_as=cas,
                                             polymorphic=cfg['poly'], **kw),
                              out_protocol=pc(ignore_wrappers=cfg['iw'], complex_as=cas, polymorphic=cfg['poly'], **kw))
            s = ServerBase(app)
            self.servers[k] = s
        return s

    def run(self, cfg, data, ret=None):
        """request bytes -> {'outcome': ok/fault/crash/leak ..., 'out': response bytes | None, 'calls': n}"""
        from spyne import MethodContext
        server = self.server(cfg)
        self.calls = []
        self.ret_value = ret
        res = {'calls': 0, 'out': None, 'stage': None}
        stage = 'generate_contexts'
        ctx = None
        try:
            initial = MethodContext(server, MethodContext.SERVER)
            initial.in_string = [data]
            ctxs = server.generate_contexts(initial)
            ctx = ctxs[0]
            if ctx.in_error is None:
                stage = 'get_in_object'
                server.get_in_object(ctx)
            if ctx.in_error is None:
                stage = 'get_out_object'
                server.get_out_object(ctx)
            stage = 'get_out_string'
            server.get_out_string(ctx)
            out = b''.join(ctx.out_string)
            res['out'] = out
            od = getattr(ctx, 'out_document', None)
            res['out_doc'] = od[0] if isinstance(od, (list, tuple)) and len(od) == 1 else od
        except Exception as e:
            res['calls'] = len(self.calls)
            res['stage'] = stage
            res['where'] = crash_site(e)
            if stage == 'get_out_string' and ctx is not None and ctx.in_error is None and len(self.calls) == 1 \
                    and getattr(ctx, 'out_error', None) is None:
                # the request was delivered; it is the response that cannot be written
                res['resp_crash'] = type(e).__name__
                self._args_outcome(res)
                return res
            res['outcome'] = {'crash': type(e).__name__}
            return res
        res['calls'] = len(self.calls)
        err = ctx.out_error if ctx.out_error is not None else ctx.in_error
        if err is not None:
            code = str(getattr(err, 'faultcode', ''))
            res['faultcode'] = code
            if code.startswith('Client'):
                res['outcome'] = {'fault': 'Client'}
            else:
                res['outcome'] = {'crash': 'Fault:' + code.split('.')[0]}
                # ServerBase wraps a non-Fault exception of the input protocol into a Server fault; find out
                # which exception it was (class and innermost spyne frame) by driving the protocol directly
                exc = self.diagnose(cfg, data)
                if exc is not None:
                    res['outcome'] = {'crash': type(exc).__name__}
                    res['where'] = crash_site(exc)
            return res
        if len(self.calls) != 1:
            res['outcome'] = {'crash': 'calls=%d' % len(self.calls)}
            return res
        self._args_outcome(res)
        return res

    def _args_outcome(self, res):
        try:
            args = self.calls[0]
            res['outcome'] = {'ok': {'o': [self.method, [[n, self.B.from_native(t, a)]
                                                        for (n, t), a in zip(self.sig['args'], args)]]}}
        except Leak as e:
            res['outcome'] = {'leak': True}
            res['leak'] = str(e)


def _diagnose(self, cfg, data):
    from spyne import MethodContext
    from spyne.model.fault import Fault
    server = self.server(cfg)
    calls = self.calls
    try:
        ctx = MethodContext(server, MethodContext.SERVER)
        ctx.in_string = [data]
        p = server.app.in_protocol
        p.create_in_document(ctx, None)
        p.decompose_incoming_envelope(ctx, p.REQUEST)
        ctx, = p.generate_method_contexts(ctx)
        p.deserialize(ctx, message=p.REQUEST)
    except Fault:
        return None
    except Exception as e:
        return e
    finally:
        self.calls = calls
    return None


Impl.diagnose = _diagnose


def crash_site(e):
    import traceback
    tb = traceback.extract_tb(e.__traceback__)
    for fr in reversed(tb):
        if '/spyne/' in fr.filename:
            return '%s:%s:%d' % (type(e).__name__, fr.filename.split('/spyne/')[-1], fr.lineno)
    return type(e).__name__


# ===================================================================================== generators
INT_KINDS = ['unbounded', 'i8', 'i16', 'i32', 'i64', 'u8', 'u16', 'u32', 'u64']
LEAF_KINDS = ['int', 'bool', 'str', 'date', 'time', 'dt', 'dur', 'bytes', 'enum']
CHAR_POOL = [0, 1, 9, 10, 13, 32, 34, 39, 47, 48, 57, 65, 92, 97, 122, 127, 128, 0xe9, 0x7ff, 0x800, 0xd7ff, 0xe000,
             0xfffd, 0xffff, 0x10000, 0x1f600, 0x10ffff, 0x3b1, 0x4e2d, 0x5d0]


def gen_occ(rng, allow_rep=True, plain=False):
    if plain or rng.random() < 0.35:
        return occ()
    mx = rng.choice([1, 1, 1, 2, 3, None]) if allow_rep else 1
    mn = rng.choice([0, 0, 1, 2 if (mx is None or mx >= 2) else 1])
    if mx is not None and mn > mx:
        mn = mx
    return occ(rng.random() < 0.6, mn, mx)


def gen_range(rng, kind):
    lo, hi = KIND_RANGE[kind]
    r = {}
    if rng.random() < 0.5:
        return r
    pool = [-3, -1, 0, 1, 2, 5, 10, 100]
    if lo is not None:
        pool += [lo, lo + 1, hi - 1, hi]
    else:
        pool += [-2 ** 63, 2 ** 63, 2 ** 64, 10 ** 30, -10 ** 30]
    a, b = sorted([rng.choice(pool), rng.choice(pool)])
    if rng.random() < 0.7:
        r[rng.choice(['ge', 'gt'])] = str(a)
    if rng.random() < 0.7:
        r[rng.choice(['le', 'lt'])] = str(b)
    return r


def gen_leaf(rng, kind=None, o=None, facets=True):
    k = kind or rng.choice(LEAF_KINDS + ['int', 'str'])
    t = {'k': k, 'occ': o if o is not None else gen_occ(rng)}
    if k == 'int':
        t['kind'] = rng.choice(INT_KINDS)
        t['r'] = gen_range(rng, t['kind']) if facets else {}
    elif k == 'str':
        t['minLen'] = rng.choice([0, 0, 0, 1, 2]) if facets else 0
        t['maxLen'] = rng.choice([None, None, 2, 3, 5]) if facets else None
        if t['maxLen'] is not None and t['maxLen'] < t['minLen']:
            t['maxLen'] = t['minLen']
        t['pattern'] = None
        t['values'] = []
        if facets and rng.random() < 0.25:
            lo = rng.choice([97, 48, 65, 0x3b1])
            t['pattern'] = {'ranges': [[lo, lo + rng.choice([0, 2, 5])]] + ([[95, 95]] if rng.random() < 0.3 else []),
                            'min': rng.choice([0, 1]), 'max': rng.choice([None, 2, 4])}
        elif facets and rng.random() < 0.2:
            t['values'] = [cps(s) for s in rng.sample(['a', 'bb', 'ccc', '', 'é', 'x y'], rng.choice([1, 2, 3]))]
            # keep the facets satisfiable: the enumerated values are inside the length bounds
            t['minLen'] = min(t['minLen'], min(len(v) for v in t['values']))
            if t['maxLen'] is not None:
                t['maxLen'] = max(t['maxLen'], max(len(v) for v in t['values']))
    elif k == 'bytes':
        t['enc'] = rng.choice(['base64', 'base64', 'hex', 'urlsafe'])
    elif k == 'enum':
        t['names'] = [cps(s) for s in rng.sample(['red', 'green', 'blue', 'x', 'Yy', 'z_1'], rng.choice([1, 2, 3]))]
    return t


class Universe:
    """generated class tree: classes C0.. (flattened fields, bases first), used as object types"""

    def __init__(self, rng, nclasses=4, depth=3, inherit=True, facets=True, rep=True, kinds=None, nw_p=0.0, nf_p=0.0):
        self.rng, self.facets, self.rep, self.kinds = rng, facets, rep, kinds
        self.nw_p, self.nw = nw_p, set()         # classes used with not_wrapped=True everywhere
        self.nf_p, self.nf = nf_p, set()         # classes used with validate_freq=False everywhere
        self.classes = []       # ClassDef JSON, bases first
        self.by_name = {}
        for i in range(nclasses):
            self.new_class(depth if i == nclasses - 1 else rng.randrange(1, depth + 1), inherit)

    def new_class(self, depth, inherit=True):
        rng = self.rng
        name = 'C%d' % len(self.classes)
        base = None
        fields = []
        if inherit and self.classes and rng.random() < 0.4:
            base = rng.choice(self.classes)
            fields = list(base['fields'])
        n0 = len(fields)
        # every class has at least one member of its own (spyne registers a subclass without own members
        # under its grandparent)
        for j in range(rng.choice([1, 2, 2, 3, 4])):
            # member names sort like they are declared (yaml.dump sorts mapping keys): f0..f9, fa, fb, ...
            ix = n0 + j
            fields.append(['%s_f%s' % (name.lower(), ix if ix < 10 else chr(ord('a') + ix - 10)), self.gen_ty(depth - 1)])
        cd = {'name': name, 'ns': TNS, 'base': base['name'] if base else None, 'fields': fields}
        self.classes.append(cd)
        self.by_name[name] = cd
        if self.nw_p and rng.random() < self.nw_p:
            self.nw.add(name)
        if self.nf_p and rng.random() < self.nf_p:
            self.nf.add(name)
        return cd

    def obj_ty(self, cd, o=None):
        t = {'k': 'obj', 'name': cd['name'], 'ns': cd['ns'], 'base': cd['base'], 'fields': cd['fields'],
             'occ': o if o is not None else occ()}
        if cd['name'] in getattr(self, 'nw', ()):
            t['nw'] = True
        if cd['name'] in getattr(self, 'nf', ()):
            t['nofreq'] = True
        return t

    def gen_ty(self, depth, o=None, allow_rep=True):
        rng = self.rng
        allow_rep = allow_rep and self.rep
        o = o if o is not None else gen_occ(rng, allow_rep)
        r = rng.random()
        if depth <= 0 or r < 0.5 or not self.classes and r < 0.8:
            return gen_leaf(rng, rng.choice(self.kinds) if self.kinds else None, o, self.facets)
        if r < 0.7:
            elem = self.gen_ty(depth - 1, occ(rng.random() < 0.7, 0, 1), allow_rep=False)
            return {'k': 'arr', 'member': 'm', 'elem': elem, 'occ': dict(o, max=1)}
        if self.classes:
            return self.obj_ty(rng.choice(self.classes), o)
        return gen_leaf(rng, None, o, self.facets)

    def subclasses(self, name):
        res = []
        for cd in self.classes:
            b = cd['base']
            while b is not None:
                if b == name:
                    res.append(cd)
                    break
                b = self.by_name[b]['base']
        return res

    def registry(self):
        return self.classes


def gen_sig(rng, U, nargs=None, depth=3):
    n = nargs if nargs is not None else rng.choice([1, 1, 2, 3])
    args = [['a%d' % i, U.gen_ty(depth)] for i in range(n)]
    ret = U.gen_ty(depth, occ(), allow_rep=False)
    return {'args': args, 'ret': ret}


# ---- values
def gen_text(rng, t):
    if t.get('values'):
        return list(rng.choice(t['values']))
    mn = t.get('minLen') or 0
    mx = t.get('maxLen')
    p = t.get('pattern')
    if p:
        mn = max(mn, p.get('min', 0))
        if p.get('max') is not None:
            mx = p['max'] if mx is None else min(mx, p['max'])
    hi = mx if mx is not None else mn + rng.choice([0, 1, 3, 8])
    n = rng.choice([mn, hi, rng.randint(mn, max(mn, hi))])
    if p:
        pool = [c for lo, hi2 in p['ranges'] for c in range(lo, hi2 + 1)]
        return [rng.choice(pool) for _ in range(n)]
    return [rng.choice(CHAR_POOL) if rng.random() < 0.5 else rng.randrange(32, 127) for _ in range(n)]


def int_bounds(t):
    lo, hi = KIND_RANGE[t.get('kind', 'unbounded')]
    r = t.get('r') or {}
    if r.get('ge') is not None:
        lo = int(r['ge']) if lo is None else max(lo, int(r['ge']))
    if r.get('gt') is not None:
        lo = int(r['gt']) + 1 if lo is None else max(lo, int(r['gt']) + 1)
    if r.get('le') is not None:
        hi = int(r['le']) if hi is None else min(hi, int(r['le']))
    if r.get('lt') is not None:
        hi = int(r['lt']) - 1 if hi is None else min(hi, int(r['lt']) - 1)
    return lo, hi


BIG_INTS = [0, 1, -1, 2 ** 31, 2 ** 63 - 1, 2 ** 63, -2 ** 63, -2 ** 63 - 1, 2 ** 64 - 1, 2 ** 64, 10 ** 40, -10 ** 40, 2 ** 200]


def gen_one(rng, t, U, none_p=0.15):
    """a conformant non-null value for one occurrence of t (None if impossible)"""
    k = t['k']
    if k == 'int':
        lo, hi = int_bounds(t)
        if lo is not None and hi is not None:
            if lo > hi:
                return None
            return {'i': str(rng.choice([lo, hi, rng.randint(lo, hi), min(hi, max(lo, 0))]))}
        if lo is not None:
            return {'i': str(lo + rng.choice([0, 1, 7, 2 ** 64, 10 ** 30]))}
        if hi is not None:
            return {'i': str(hi - rng.choice([0, 1, 7, 2 ** 64, 10 ** 30]))}
        return {'i': str(rng.choice(BIG_INTS + [rng.randrange(-1000, 1000), rng.getrandbits(rng.choice([8, 62, 64, 65, 130])) * rng.choice([1, -1])]))}
    if k == 'bool':
        return {'b': rng.random() < 0.5}
    if k == 'str':
        return {'s': gen_text(rng, t)}
    if k == 'date':
        return {'date': gen_date(rng)}
    if k == 'time':
        return {'time': gen_time(rng)}
    if k == 'dt':
        d = gen_date(rng)
        tz = rng.choice([None, None, 0, 60, -289, 330, 840, -840, 1439, -1439, rng.randrange(-1439, 1440)])
        if d[0] in (1, 9999) and tz is not None:
            # DateTime.validate_native compares the UTC instant with 0001-01-01Z .. 9999-12-31T23:59:59.999999Z;
            # the shared `validateNative` has no such clause (see fixes/HIER-NOTES.md), so stay inside
            tz = 0
        return {'dt': d + gen_time(rng) + [tz]}
    if k == 'dur':
        return {'dur': str(rng.choice([0, 1, -1, 5, 999999, 10 ** 6, 1500000, DAY, -DAY, DAY + 1, DUR_MIN, DUR_MAX,
                                       rng.randrange(-10 ** 12, 10 ** 12), rng.randrange(DUR_MIN, DUR_MAX)]))}
    if k == 'bytes':
        n = rng.choice([0, 1, 2, 3, 4, 5, 16, 33])
        return {'x': [rng.randrange(256) for _ in range(n)]}
    if k == 'enum':
        return {'e': list(rng.choice(t['names']))}
    if k == 'obj':
        return {'o': [t['name'], [[n, gen_field(rng, ft, U, none_p)] for n, ft in t['fields']]]}
    if k == 'arr':
        n = rng.choice([0, 1, 2, 3])
        return {'l': [gen_item(rng, t['elem'], U, none_p) for _ in range(n)]}
    raise ValueError(k)


def gen_item(rng, t, U, none_p=0.15, allow_none=True):
    """one occurrence: None iff nillable (with probability none_p)"""
    o = t.get('occ') or occ()
    if allow_none and o['nillable'] and rng.random() < none_p:
        return None
    v = gen_one(rng, t, U, none_p)
    if v is None and not o['nillable']:
        raise Unsat()
    return v


def gen_field(rng, t, U, none_p=0.15):
    """value of a member / argument: None, a conformant occurrence, or a list for repeated members"""
    o = t.get('occ') or occ()
    if is_rep(o):
        if o['min'] == 0 and rng.random() < none_p:
            return None
        hi = o['max'] if o['max'] is not None else o['min'] + 3
        n = rng.choice([o['min'], hi, rng.randint(o['min'], hi)])
        return {'l': [gen_item(rng, t, U, none_p / 2) for _ in range(n)]}
    if rng.random() < none_p and (o['min'] == 0 or o['nillable']):
        return None
    try:
        v = gen_item(rng, t, U, none_p, allow_none=False)
    except Unsat:
        v = None
    if v is None and not (o['min'] == 0 or o['nillable']):
        raise Unsat()
    return v


class Unsat(Exception):
    """no conformant value exists for the type (contradictory facets)"""


def gen_date(rng):
    if rng.random() < 0.3:
        return list(rng.choice([(1, 1, 1), (9999, 12, 31), (2024, 2, 29), (2000, 2, 29), (1900, 2, 28), (2020, 12, 31)]))
    d = pydt.date.fromordinal(rng.randrange(1, pydt.date.max.toordinal() + 1))
    return [d.year, d.month, d.day]


def gen_time(rng):
    return [rng.choice([0, 23, rng.randrange(24)]), rng.choice([0, 59, rng.randrange(60)]), rng.choice([0, 59, rng.randrange(60)]),
            rng.choice([0, 0, 1, 5, 500000, 999999, rng.randrange(10 ** 6)])]


# ===================================================================================== python re-statement of `conforms`
def pattern_match(p, s):
    return (all(any(lo <= c <= hi for lo, hi in p['ranges']) for c in s) and p.get('min', 0) <= len(s)
            and (p.get('max') is None or len(s) <= p['max']))


def days_in_month(y, m):
    if m == 2:
        return 29 if (y % 4 == 0 and (y % 100 != 0 or y % 400 == 0)) else 28
    return 30 if m in (4, 6, 9, 11) else 31


def date_ok(a):
    y, m, d = a
    return 1 <= y <= 9999 and 1 <= m <= 12 and 1 <= d <= days_in_month(y, m)


def time_ok(a):
    return a[0] < 24 and a[1] < 60 and a[2] < 60 and a[3] < 10 ** 6


def value_ok(t, v):
    k = t['k']
    if k == 'int' and 'i' in v:
        i = int(v['i'])
        lo, hi = int_bounds(t)
        return (lo is None or lo <= i) and (hi is None or i <= hi)
    if k == 'bool' and 'b' in v:
        return True
    if k == 'str' and 's' in v:
        s = v['s']
        return ((t.get('minLen') or 0) <= len(s) and (t.get('maxLen') is None or len(s) <= t['maxLen'])
                and (not t.get('pattern') or pattern_match(t['pattern'], s))
                and (not t.get('values') or s in t['values']))
    if k == 'date' and 'date' in v:
        return date_ok(v['date'])
    if k == 'time' and 'time' in v:
        return time_ok(v['time'])
    if k == 'dt' and 'dt' in v:
        a = v['dt']
        return date_ok(a[:3]) and time_ok(a[3:7]) and (a[7] is None or -1440 < a[7] < 1440)
    if k == 'dur' and 'dur' in v:
        return DUR_MIN <= int(v['dur']) <= DUR_MAX
    if k == 'bytes' and 'x' in v:
        return all(0 <= b < 256 for b in v['x'])
    if k == 'enum' and 'e' in v:
        return v['e'] in t['names']
    return False


def conforms_one(t, v):
    o = t.get('occ') or occ()
    if v is None:
        return o['nillable']
    k = t['k']
    if k == 'obj':
        if 'o' not in v or v['o'][0] != t['name']:
            return False
        return conforms_fields(t['fields'], v['o'][1])
    if k == 'arr':
        return 'l' in v and all(conforms_one(t['elem'], x) for x in v['l'])
    return value_ok(t, v)


def conforms(t, v):
    o = t.get('occ') or occ()
    if is_rep(o):
        if v is None:
            return o['min'] == 0
        if 'l' not in v:
            return False
        n = len(v['l'])
        return o['min'] <= n and (o['max'] is None or n <= o['max']) and all(conforms_one(t, x) for x in v['l'])
    return conforms_one(t, v)


def conforms_fields(fields, fvs):
    if len(fields) != len(fvs):
        return False
    for (n, t), (m, v) in zip(fields, fvs):
        if n != m:
            return False
        o = t.get('occ') or occ()
        if v is None:
            if not (o['min'] == 0 or (o['nillable'] and not is_rep(o))):
                return False
        elif not conforms(t, v):
            return False
    return True


# ===================================================================================== reference codec (documented conventions)
def iso_date(a):
    return '%04d-%02d-%02d' % tuple(a)


def iso_time(a):
    return '%02d:%02d:%02d' % tuple(a[:3]) + ('.%06d' % a[3] if a[3] else '')


def iso_offset(m):
    return ('-' if m < 0 else '+') + '%02d:%02d' % divmod(abs(m), 60)


def iso_dur(us):
    """xs:duration for a number of microseconds (canonical D/H/M/S split)"""
    neg, v = us < 0, abs(us)
    days, rem = divmod(v, DAY)
    secs, micro = divmod(rem, 10 ** 6)
    h, m, s = secs // 3600, secs // 60 % 60, secs % 60
    out = ('-P' if neg else 'P') + ('%dD' % days if days else '')
    tpart = ('%dH' % h if h else '') + ('%dM' % m if m else '')
    if s or micro:
        tpart += '%d' % s + ('.%06d' % micro if micro else '') + 'S'
    if not tpart and not days:
        tpart = '0S'
    return out + ('T' + tpart if tpart else '')


def ref_leaf(cfg, t, v):
    """documented wire form of a non-null leaf value"""
    mp = cfg['proto'].startswith('msgpack')
    k = t['k']
    if k == 'int':
        i = int(v['i'])
        if mp and not (-2 ** 63 <= i < 2 ** 64):
            return str(i)
        return i
    if k == 'bool':
        return v['b']
    if k == 'str':
        return uncps(v['s'])
    if k == 'date':
        return iso_date(v['date'])
    if k == 'time':
        return iso_time(v['time'])
    if k == 'dt':
        a = v['dt']
        return iso_date(a[:3]) + 'T' + iso_time(a[3:7]) + ('' if a[7] is None else iso_offset(a[7]))
    if k == 'dur':
        return iso_dur(int(v['dur']))
    if k == 'bytes':
        b = bytes(v['x'])
        enc = t.get('enc', 'base64')
        if enc == 'hex':
            return binascii.hexlify(b).decode('ascii')
        if enc == 'urlsafe':
            return base64.urlsafe_b64encode(b).decode('ascii')
        return b if mp else base64.b64encode(b).decode('ascii')
    if k == 'enum':
        return uncps(v['e'])
    if k == 'dec':
        return v['dec']
    if k == 'dbl':
        return float(v['dbl'])
    if k == 'uuid':
        return str(pyuuid.UUID(hex=v['uuid']))
    raise ValueError(k)


def ref_key(cfg, n, bytes_keys=False):
    return n.encode('utf8') if bytes_keys else n


def ref_encode(cfg, t, v, U=None, bytes_keys=False, item=False):
    """reference encoder: native value (Val JSON) -> python document by the documented conventions"""
    o = t.get('occ') or occ()
    if v is None:
        return None
    if is_rep(o) and not item:
        return [ref_encode(cfg, t, x, U, bytes_keys, True) for x in v['l']]
    k = t['k']
    if k == 'arr':
        return [ref_encode(cfg, t['elem'], x, U, bytes_keys, True) for x in v['l']]
    if k == 'obj':
        cname, fvs = v['o']
        fields = t['fields'] if cname == t['name'] else U.by_name[cname]['fields']
        if cfg['cas'] == 'list':
            body = [ref_encode(cfg, ft, fv, U, bytes_keys) for (n, ft), (_, fv) in zip(fields, fvs)]
        else:
            body = {}
            for (n, ft), (_, fv) in zip(fields, fvs):
                # an absent member is left out; a nil one (min_occurs > 0, nillable) is an explicit null
                if fv is not None or (ft.get('occ') or occ())['min'] > 0:
                    body[ref_key(cfg, n, bytes_keys)] = ref_encode(cfg, ft, fv, U, bytes_keys)
        if cfg['iw'] or cname in cfg.get('nw', ()):
            return body             # (not_wrapped classes travel without their wrapper)
        return {ref_key(cfg, cname, bytes_keys): body}
    return ref_leaf(cfg, t, v)


def ref_request(cfg, method, in_ty, args_val, U=None, bytes_keys=False):
    """request document: method name as the single key (msgpack-rpc: [0, msgid, method, params])"""
    body = ref_encode(dict(cfg, iw=True), in_ty, args_val, U, bytes_keys)
    # nested objects carry wrappers when the protocol does not ignore them
    if not cfg['iw']:
        body = ref_encode(cfg, in_ty, args_val, U, bytes_keys)
        body = next(iter(body.values()))
    if cfg['proto'] == 'msgpackrpc':
        return [0, 1, method, body if cfg['iw'] else {ref_key(cfg, method, bytes_keys): body}]
    return {ref_key(cfg, method, bytes_keys): body}


class RefError(Exception):
    pass


def as_text(cfg, d):
    if isinstance(d, str):
        return d
    if isinstance(d, bytes) and cfg['proto'].startswith('msgpack'):
        return d.decode('utf8')
    raise RefError('text expected, got %r' % type(d).__name__)


def ref_leaf_in(cfg, t, d):
    k = t['k']
    if k == 'int':
        if isinstance(d, bool) or not isinstance(d, int):
            return {'i': str(int(as_text(cfg, d)))}
        return {'i': str(d)}
    if k == 'bool':
        if not isinstance(d, bool):
            raise RefError('bool expected')
        return {'b': d}
    if k == 'str':
        return {'s': cps(as_text(cfg, d))}
    if k == 'date':
        x = pydt.date.fromisoformat(as_text(cfg, d))
        return {'date': [x.year, x.month, x.day]}
    if k == 'time':
        x = pydt.time.fromisoformat(as_text(cfg, d))
        return {'time': [x.hour, x.minute, x.second, x.microsecond]}
    if k == 'dt':
        x = pydt.datetime.fromisoformat(as_text(cfg, d))
        off = x.utcoffset()
        tz = None if off is None else (off.days * 86400 + off.seconds) // 60
        return {'dt': [x.year, x.month, x.day, x.hour, x.minute, x.second, x.microsecond, tz]}
    if k == 'dur':
        return {'dur': str(parse_dur(as_text(cfg, d)))}
    if k == 'bytes':
        enc = t.get('enc', 'base64')
        if enc == 'base64' and cfg['proto'].startswith('msgpack'):
            if not isinstance(d, bytes):
                raise RefError('bin expected')
            return {'x': list(d)}
        s = as_text(cfg, d)
        if enc == 'hex':
            return {'x': list(binascii.unhexlify(s))}
        if enc == 'urlsafe':
            return {'x': list(base64.urlsafe_b64decode(s))}
        return {'x': list(base64.b64decode(s, validate=True))}
    if k == 'enum':
        return {'e': cps(as_text(cfg, d))}
    if k == 'dec':
        return {'dec': str(decimal.Decimal(as_text(cfg, d) if not isinstance(d, (int, float)) or isinstance(d, bool) else repr(d)))}
    if k == 'dbl':
        if isinstance(d, bool) or not isinstance(d, (int, float)):
            raise RefError('number expected')
        return {'dbl': repr(float(d))}
    if k == 'uuid':
        return {'uuid': pyuuid.UUID(as_text(cfg, d)).hex}
    raise ValueError(k)


def parse_dur(s):
    import re
    m = re.fullmatch(r'(-?)P(?:(\d+)D)?(?:T(?:(\d+)H)?(?:(\d+)M)?(?:(\d+)(?:\.(\d+))?S)?)?', s)
    if not m:
        raise RefError('duration %r' % s)
    sg, d, h, mi, sec, fr = m.groups()
    us = ((int(d or 0) * 24 + int(h or 0)) * 60 + int(mi or 0)) * 60 * 10 ** 6 + int(sec or 0) * 10 ** 6
    if fr:
        if len(fr) > 6:
            raise RefError('fraction')
        us += int(fr.ljust(6, '0'))
    return -us if sg else us


def key_text(cfg, k):
    if isinstance(k, str):
        return k
    if isinstance(k, bytes) and cfg['proto'].startswith('msgpack'):
        return k.decode('utf8')
    raise RefError('key %r' % (k,))


def ref_decode(cfg, t, d, U=None, item=False):
    """reference decoder: python document -> Val JSON by the documented conventions"""
    o = t.get('occ') or occ()
    if d is None:
        return None
    if is_rep(o) and not item:
        if not isinstance(d, (list, tuple)):
            raise RefError('list expected')
        return {'l': [ref_decode(cfg, t, x, U, True) for x in d]}
    k = t['k']
    if k == 'arr':
        if not isinstance(d, (list, tuple)):
            raise RefError('list expected')
        return {'l': [ref_decode(cfg, t['elem'], x, U, True) for x in d]}
    if k == 'obj':
        cname, fields = t['name'], t['fields']
        if not cfg['iw'] and cfg['cas'] != 'list' and cname not in cfg.get('nw', ()):
            if not isinstance(d, dict) or len(d) != 1:
                raise RefError('wrapper expected')
            (wk, d), = d.items()
            wk = key_text(cfg, wk)
            if wk != cname:
                sub = [c for c in (U.subclasses(cname) if U else []) if c['name'] == wk]
                if not sub:
                    raise RefError('unknown class %r' % wk)
                cname, fields = wk, sub[0]['fields']
        if isinstance(d, dict):
            dd = {key_text(cfg, kk): vv for kk, vv in d.items()}
            for kk in dd:
                if kk not in [n for n, _ in fields]:
                    raise RefError('unknown member %r' % kk)
            return {'o': [cname, [[n, ref_decode(cfg, ft, dd.get(n), U)] for n, ft in fields]]}
        if isinstance(d, (list, tuple)):
            if len(d) != len(fields):
                raise RefError('positional arity')
            return {'o': [cname, [[n, ref_decode(cfg, ft, x, U)] for (n, ft), x in zip(fields, d)]]}
        raise RefError('object expected')
    return ref_leaf_in(cfg, t, d)


def ref_response(cfg, method, ret_ty, d, U=None):
    """response document -> returned value"""
    if cfg['proto'] == 'msgpackrpc':
        if not (isinstance(d, (list, tuple)) and len(d) == 4 and d[0] == 1 and d[2] is None):
            raise RefError('msgpack-rpc response envelope')
        d = d[3]
        wrapped = True
    else:
        wrapped = not cfg['iw']
    if wrapped:
        if cfg['cas'] == 'list':
            if not isinstance(d, (list, tuple)) or len(d) != 1:
                raise RefError('positional response')
            d = d[0]
        else:
            if not (cfg['iw'] and cfg['proto'] == 'msgpackrpc'):
                if not isinstance(d, dict) or len(d) != 1:
                    raise RefError('response wrapper')
                (wk, d), = d.items()
                if key_text(cfg, wk) != method + 'Response':
                    raise RefError('response wrapper name')
            if not isinstance(d, dict) or len(d) > 1:
                raise RefError('result member')
            if len(d) == 0:
                return None
            (wk, d), = d.items()
            if key_text(cfg, wk) != method + 'Result':
                raise RefError('result member name')
    return ref_decode(cfg, ret_ty, d, U)


# ===================================================================================== cases
ALL_CFGS = [{'proto': p, 'validator': v, 'iw': iw, 'cas': cas, 'poly': False}
            for p in PROTOS for v in (None, 'soft') for iw in (True, False) for cas in ('dict', 'list')]
# the MessagePack constructor matrix: (raw, use_bin_type) selects the leaf handler table (msgpack.py:94-98); the default
# (False, True) is in ALL_CFGS. JsonDocument / YamlDocument have no constructor option that selects a handler table
# (`from_serstr` is `from_unicode` always; YamlDocument(safe=False) selects the loader class, not a table).
MP_EXTRA_CFGS = [{'proto': p, 'validator': v, 'iw': True, 'cas': 'dict', 'poly': False, 'raw': r, 'bin': b}
                 for p in ('msgpack', 'msgpackrpc') for v in (None, 'soft') for (r, b) in ((True, False), (True, True), (False, False))]


def strip_item(t):
    return {k: v for k, v in t.items() if k != '_item'}


def fully_populated(v):
    """no None at a member position (positional form is documented for fully populated objects)"""
    if v is None:
        return False
    if 'o' in v:
        return all(fully_populated(x) for _, x in v['o'][1])
    if 'l' in v:
        return all(fully_populated(x) for x in v['l'])
    return True


class Case:
    """one generated scenario: universe, signature, builder, implementation"""

    def __init__(self, rng, **kw):
        self.rng = rng
        for _ in range(50):
            self.U = Universe(rng, **kw)
            self.B = Builder()
            try:
                self.B.register(self.U.classes)
                break
            except ValueError:
                continue        # spyne refuses contradictory facets at class creation (e.g. lt <= min_bound)
        self.B.universe_fields = {c['name']: c['fields'] for c in self.U.classes}
        for _ in range(50):
            try:
                self.sig = gen_sig(rng, self.U)
                self.impl = Impl(self.B, self.sig)
                self.impl.server(CFG_DEFAULT)       # the interface must accept the signature
                break
            except (ValueError, AssertionError):
                continue
        self.in_ty = self.impl.in_ty()

    def gen_args(self, none_p=0.15):
        for _ in range(20):
            try:
                return {'o': ['f', [[n, gen_field(self.rng, t, self.U, none_p)] for n, t in self.sig['args']]]}
            except Unsat:
                continue
        return None

    def query(self, op, cfg, **kw):
        if getattr(self.U, 'nf', None) and 'nofreq' not in cfg:
            cfg = dict(cfg, nofreq=sorted(self.U.nf))
        if getattr(self.U, 'nw', None) and 'nw' not in cfg:
            cfg = dict(cfg, nw=sorted(self.U.nw))
        q = {'op': op, 'cfg': cfg, 'reg': self.U.registry()}
        q.update(kw)
        return q


# ===================================================================================== T1 facts
GOOD_FACTS = {'occCount': 'perItem', 'mpNameAnyKey': True, 'nullComplexIsNone': True, 'repeatedScalarFault': True,
              'leafKindFault': True, 'boolCoerced': True, 'utf8Fault': True, 'jsonNullDateOk': True,
              'intFromFloat': True, 'nativeKindFault': True, 'binKindFault': True, 'rawBytesKindFault': True, 'nestedArrayOk': True, 'parseErrorsFault': True, 'binTextValidated': True, 'missingBodyFault': True,
              'guardPathLocal': True, 'fileFormValidated': True, 'mpBoolPassThrough': [], 'tableUtf8Fault': True,
              'bytesJoinBeforeEncode': True, 'retagSubclassChecked': True,
              'notWrappedStrKeys': True, 'notWrappedBytesKeys': True, 'nonNumberForNumber': [], 'noFreqKeepsValidation': True, 'valuesNullTestIsNone': True, 'attrCachesPerInstance': True}

FACT_WHAT = {
    'occCount': 'D09: _doc_to_object counts one occurrence per key, not per item: 3 items pass max_occurs=2 and 2 items '
                'fail min_occurs=2 under soft validation (hier.py:358)',
    'mpNameAnyKey': 'D10: MessagePackDocument looks the request body up under the bytes method name only; a str-keyed '
                    'request loses its arguments and ends in a Server fault (msgpack.py get_class_name / hier.py:93)',
    'nullComplexIsNone': 'a null in the place of an object/array member is delivered to user code as [] instead of None '
                         '(hier.py:245 via _from_dict_value)',
    'repeatedScalarFault': 'a scalar in the place of a repeated member (max_occurs>1) raises TypeError at hier.py:349 '
                           'instead of a ValidationError',
    'leafKindFault': 'a non-text document node for Date/Time/DateTime/Duration reaches re.match/strptime and raises '
                     'TypeError instead of a ValidationError (validator=None; yaml/msgpack also with soft)',
    'boolCoerced': '_ret_bool hands the number 1/0 (int or float) to user code where a bool is declared',
    'utf8Fault': 'undecodable bytes for a Unicode member raise UnicodeDecodeError instead of a ValidationError',
    'jsonNullDateOk': 'JsonDocument.validate rejects null for nillable Date/Time/DateTime members (json.py:143); yaml and '
                      'msgpack accept it',
    'intFromFloat': 'an integral float (2.0) for an Integer member is delivered to user code as float',
    'nativeKindFault': 'validate_native compares a foreign document node (e.g. a YAML timestamp in an Integer slot) with '
                       'Decimal bounds and raises TypeError',
    'binKindFault': 'ByteArray text decoders raise TypeError instead of a ValidationError: from_urlsafe_base64 takes len() of a '
                    'number (binary.py:149); from_base64/from_hex join a list of non-bytes outside the try (binary.py:122,161)',
    'rawBytesKindFault': 'MessagePack: a ByteArray without text encoding wraps any document node (str, int, list) into a '
                         'tuple and hands it to user code, also under soft validation',
    'nestedArrayOk': 'with ignore_wrappers _object_to_doc strips both wrappers of Array(Array(X)) at once and serializes every '
                     'inner list as if it were one X: ValueError / AttributeError / garbage for arrays of arrays (hier.py:402-412)',
    'binTextValidated': 'validate_string (min_len / max_len) is skipped for Unicode members that arrive as bytes (msgpack bin, which '
                        'MessagePackDocument itself writes for every string; yaml !!binary): a too long string passes soft validation',
    'parseErrorsFault': 'D17: bytes the parser cannot decode end in an internal error: YamlDocument catches ParserError only '
                        '(ScannerError, ReaderError, ComposerError, ConstructorError, ValueError, UnicodeDecodeError escape), '
                        'JsonDocument not RecursionError, MessagePackDocument joins non-str e.args (TypeError), MessagePackRpc '
                        'raises NotImplementedError / AssertionError / UnicodeDecodeError for envelopes it cannot serve',
    'missingBodyFault': 'a request whose body under the method name is null / missing calls the user function without '
                        'arguments: TypeError, Server fault (hier.py:93-96,245)',
    'guardPathLocal': 'the cycle-detection set of _object_to_doc is shared by the whole traversal (_get_member_pairs adds to '
                      'the caller\'s set instead of a copy): an object referenced from two sibling members is written once '
                      'and dropped the second time, an array that holds an object twice is written as null '
                      '(witness: Seg(start=p, end=p, more=[q, r, q]) as a JSON result)',
    'attrCachesPerInstance': 'the attribute caches of the protocols (get_cls_attrs, with the per-protocol attributes `pa=` merged in) are shared '
                             'between protocol instances: after an instance of the protocol named in `pa` has used a type, every other protocol '
                             'in the process validates it with that protocol\'s relaxed attributes (a mandatory member may be missing)',
    'valuesNullTestIsNone': 'the null branch of the `values` check of SimpleModel.validate_native tests falsiness instead of `is None`: a nillable '
                            'type accepts the falsy value of its kind (the empty string, 0, 0.0, False) although it is not in the enumeration',
    'noFreqKeepsValidation': 'for a class with validate_freq=False (novalidate_freq(), the self of @mrpc methods) soft validation is switched off '
                             'for the whole subtree instead of skipping only the occurrence check: numbers / lists / objects reach user code '
                             'where a (nested) Unicode member is declared, out-of-range and too long values are accepted',
    'nonNumberForNumber': 'under soft validation a native document node that is no number (YAML timestamp / set / binary, MessagePack ext / '
                          'timestamp / bin / map ...) reaches user code where Double or Decimal (plain or customized) is declared, or makes an '
                          'exception escape: listed as proto:type:kind:what',
    'notWrappedStrKeys': 'JsonDocument / YamlDocument (str keys branch of _complex_to_dict): a class customized not_wrapped=True is written inside '
                         'its {ClassName: ...} wrapper when wrappers are kept',
    'notWrappedBytesKeys': 'MessagePackDocument / MessagePackRpc (encoded keys branch of _complex_to_dict): a class customized not_wrapped=True '
                           'is written inside its {b"ClassName": ...} wrapper when wrappers are kept, and the reader (which honours '
                           'not_wrapped) no longer finds its members',
    'bytesJoinBeforeEncode': 'a ByteArray value given in several chunks is not encoded as the concatenation of its chunks (base64 chunk by '
                             'chunk puts "=" padding inside the text): the response does not decode to the returned bytes',
    'retagSubclassChecked': 'a wrapper key that names a class from the subclass list of the declared class is accepted without checking that it '
                            'is a subclass: a model whose Attributes class derives from another model\'s Attributes inherits that model\'s '
                            'list, and user code receives an instance of an unrelated class',
    'mpBoolPassThrough': 'MessagePackDocument / MessagePackRpc constructed with the listed (raw, use_bin_type) read a Boolean with a '
                         'pass-through handler: a str / number / list / map sent for a Boolean reaches user code, also under soft validation',
    'tableUtf8Fault': 'MessagePackDocument(raw=True, use_bin_type=False) reads leaves with the from_bytes handlers: date_from_bytes & co '
                      'decode bytes as UTF-8 outside any guard, undecodable bytes (b"\\xff\\xfe" for a Date) raise UnicodeDecodeError -> '
                      'Server fault',
    'fileFormValidated': 'the object form of a File value is read by _doc_to_object without the validator of the protocol: '
                         'with validator=soft, {"f": {"name": 5}} hands File.Value.name = 5 (declared Unicode) to user code',
}


def _probe(sig_args, cfg, pydoc, ret=None):
    B = Builder()
    impl = Impl(B, {'args': sig_args, 'ret': {'k': 'int', 'occ': occ()}})
    return impl.run(dict(CFG_DEFAULT, **cfg), dump(cfg.get('proto', 'json'), pydoc)), impl


FACT_WITNESS = {
    'occCount': ([['m', {'k': 'int', 'occ': occ(True, 0, 2)}]], {'validator': 'soft'}, {'f': {'m': [1, 2, 3]}}),
    'mpNameAnyKey': ([['a', {'k': 'int', 'occ': occ()}]], {'proto': 'msgpack'}, {'f': {'a': 1}}),
    'nullComplexIsNone': ([['o', {'k': 'obj', 'name': 'P0', 'ns': TNS, 'base': None,
                                  'fields': [['x', {'k': 'int', 'occ': occ()}]], 'occ': occ()}]], {}, {'f': {'o': None}}),
    'repeatedScalarFault': ([['m', {'k': 'int', 'occ': occ(True, 0, 2)}]], {}, {'f': {'m': 5}}),
    'leafKindFault': ([['d', {'k': 'date', 'occ': occ()}]], {}, {'f': {'d': 5}}),
    'boolCoerced': ([['b', {'k': 'bool', 'occ': occ()}]], {'validator': 'soft'}, {'f': {'b': 1}}),
    'utf8Fault': ([['s', {'k': 'str', 'occ': occ()}]], {'proto': 'msgpack', 'validator': 'soft'}, {b'f': {b's': b'\xff'}}),
    'jsonNullDateOk': ([['d', {'k': 'date', 'occ': occ()}]], {'validator': 'soft'}, {'f': {'d': None}}),
    'intFromFloat': ([['i', {'k': 'int', 'occ': occ()}]], {'validator': 'soft'}, {'f': {'i': 2.0}}),
    'nativeKindFault': ([['i', {'k': 'int', 'occ': occ()}]], {'proto': 'yaml', 'validator': 'soft'},
                        {'f': {'i': pydt.date(2020, 1, 2)}}),
    'binKindFault': ([['x', {'k': 'bytes', 'enc': 'urlsafe', 'occ': occ()}], ['y', {'k': 'bytes', 'occ': occ()}]], {},
                     {'f': {'x': 5}}, {'f': {'y': [1]}}),
    'rawBytesKindFault': ([['x', {'k': 'bytes', 'occ': occ()}]], {'proto': 'msgpack', 'validator': 'soft'},
                          {b'f': {b'x': 'abc'}}),
    'nestedArrayOk': ([], {}, {'f': {}}),
    'binTextValidated': ([['s', {'k': 'str', 'minLen': 0, 'maxLen': 2, 'pattern': None, 'values': [], 'occ': occ()}]],
                         {'proto': 'msgpack', 'validator': 'soft'}, {b'f': {b's': b'abcdef'}}),
    'parseErrorsFault': ([['a', {'k': 'int', 'occ': occ()}]], {}, {'f': {}}),
    'missingBodyFault': ([['a', {'k': 'int', 'occ': occ()}]], {}, {'f': None}),
}
# switches measured by a probe of their own (replayed by name)
PROBE_FACTS = ('guardPathLocal', 'fileFormValidated', 'mpBoolPassThrough', 'tableUtf8Fault', 'bytesJoinBeforeEncode', 'retagSubclassChecked',
               'notWrappedStrKeys', 'notWrappedBytesKeys', 'nonNumberForNumber', 'noFreqKeepsValidation', 'valuesNullTestIsNone', 'attrCachesPerInstance')


PARSE_WITNESSES = [('yaml', b'a: b: c'), ('yaml', b'\x00'), ('yaml', b'*alias'), ('yaml', b'!!python/object:os.system {}'),
                   ('yaml', b'\xff\xfe'), ('yaml', b'a: !!int "x"'), ('yaml', b'!!timestamp "junk"'), ('json', b'[' * 2000),
                   ('msgpack', b'\x81\xa1f\xc0\x00'), ('msgpackrpc', b'\x81\xa1f\xc0\x00'), ('msgpackrpc', b'\x93\x02\x01\xa1f'),
                   ('msgpackrpc', b'\x94\x01\x01\xa1f\x90'), ('msgpackrpc', b'\x94\x90\x01\xa1f\x90'), ('msgpackrpc', b'\x94\x00\x01\xc4\x02\xff\xfe\x90')]


def _probe_parse_errors():
    """requests the parser cannot decode / envelopes the server cannot serve -> {witness: outcome} of those that are
    not answered with a client fault"""
    B = Builder()
    impl = Impl(B, {'args': [['a', {'k': 'int', 'occ': occ()}]], 'ret': {'k': 'int', 'occ': occ()}})
    bad = {}
    for proto, data in PARSE_WITNESSES:
        r = impl.run(dict(CFG_DEFAULT, proto=proto), data)
        if 'fault' not in r['outcome']:
            bad['%s:%r' % (proto, data[:24])] = r['outcome']
    return bad


def _probe_nested():
    """an Array(Array(Array(Date))) result under ignore_wrappers"""
    B = Builder()
    d = {'k': 'date', 'occ': occ()}
    ret = {'k': 'arr', 'member': 'm', 'occ': occ(), 'elem': {'k': 'arr', 'member': 'm', 'occ': occ(),
           'elem': {'k': 'arr', 'member': 'm', 'occ': occ(), 'elem': d}}}
    impl = Impl(B, {'args': [], 'ret': ret})
    val = [[[pydt.date(2020, 1, 2)], []], [[pydt.date(2021, 3, 4), pydt.date(2022, 5, 6)]]]
    r = impl.run(dict(CFG_DEFAULT), dump('json', {'f': {}}), ret=val)
    if r['out'] is None or 'ok' not in r['outcome']:
        return r['outcome']
    return {'ok': load('json', r['out'])}


POINT_TY = {'k': 'obj', 'name': 'Pt', 'ns': TNS, 'base': None, 'occ': occ(),
            'fields': [['x', {'k': 'int', 'kind': 'unbounded', 'r': {}, 'occ': occ()}],
                       ['y', {'k': 'int', 'kind': 'unbounded', 'r': {}, 'occ': occ()}]]}
SEGMENT_TY = {'k': 'obj', 'name': 'Seg', 'ns': TNS, 'base': None, 'occ': occ(),
              'fields': [['start', POINT_TY], ['end', POINT_TY],
                         ['more', {'k': 'arr', 'member': 'm', 'elem': POINT_TY, 'occ': occ()}]]}


def _pt(x, y, ident=None):
    v = {'o': ['Pt', [['x', {'i': str(x)}], ['y', {'i': str(y)}]]]}
    if ident is not None:
        v['id'] = ident
    return v


ALIAS_WITNESS = {'o': ['Seg', [['start', _pt(3, 4, 1)], ['end', _pt(3, 4, 1)], ['more', {'l': [_pt(0, 0, 2), _pt(5, 6), _pt(0, 0, 2)]}]]]}


def _probe_alias():
    """a result that references one Point object from two members and another one from two slots of an array:
    `Seg(start=p, end=p, more=[q, r, q])`"""
    B = Builder()
    B.register([{'name': 'Pt', 'ns': TNS, 'base': None, 'fields': POINT_TY['fields']},
                {'name': 'Seg', 'ns': TNS, 'base': None, 'fields': SEGMENT_TY['fields']}])
    impl = Impl(B, {'args': [], 'ret': SEGMENT_TY})
    r = impl.run(dict(CFG_DEFAULT), dump('json', {'f': {}}), ret=B.native(SEGMENT_TY, ALIAS_WITNESS))
    if r['out'] is None or 'ok' not in r['outcome']:
        return r['outcome']
    return {'ok': load('json', r['out'])}


ALIAS_EXPECTED = {'ok': {'start': {'x': 3, 'y': 4}, 'end': {'x': 3, 'y': 4}, 'more': [{'x': 0, 'y': 0}, {'x': 5, 'y': 6}, {'x': 0, 'y': 0}]}}

FILE_TY = {'k': 'file', 'occ': occ()}
FILE_WITNESS_DOCS = [{'f': {'f': {'name': 5}}}, {'f': {'f': {'type': [1]}}}, {'f': {'f': {'name': True}}}]


def _probe_file():
    """the object form of a File argument with a non-string name / type, under soft validation: every witness has to
    be answered with a fault"""
    B = Builder()
    impl = Impl(B, {'args': [['f', FILE_TY]], 'ret': {'k': 'int', 'occ': occ()}})
    bad = {}
    for doc in FILE_WITNESS_DOCS:
        r = impl.run(dict(CFG_DEFAULT, validator='soft'), dump('json', doc))
        if 'fault' not in r['outcome']:
            bad[json.dumps(doc)] = dict(r['outcome'], what=r.get('leak'))
    return bad


MP_OPTS = [(False, True), (True, False), (True, True), (False, False)]        # (raw, use_bin_type), the default first
BOOL_FOREIGN = ['x', 5, [1], {b'a': 1}, 1.5, b'yes']


def _probe_mp_tables():
    """the MessagePackDocument constructor matrix (raw, use_bin_type) under soft validation:
    which settings read Date text from `bytes` (= the `_from_bytes_handlers` table is selected), which let a non-boolean
    through for a Boolean, and whether undecodable bytes for a Date are a client fault with the bytes table"""
    B = Builder()
    impl = Impl(B, {'args': [['b', {'k': 'bool', 'occ': occ()}], ['d', {'k': 'date', 'occ': occ()}]], 'ret': {'k': 'int', 'occ': occ()}})
    bytes_table, bool_pass, utf8_bad, obs = [], [], {}, {}
    for raw, bn in MP_OPTS:
        cfg = dict(CFG_DEFAULT, proto='msgpack', validator='soft', raw=raw, bin=bn)
        r = impl.run(cfg, dump('msgpack', {b'f': {b'd': b'2020-01-02'}}))
        if 'ok' in r['outcome']:
            bytes_table.append([raw, bn])
            r = impl.run(cfg, dump('msgpack', {b'f': {b'd': b'\xff\xfe'}}))
            if 'fault' not in r['outcome']:
                utf8_bad['raw=%s,use_bin_type=%s' % (raw, bn)] = r['outcome']
        for w in BOOL_FOREIGN:
            r = impl.run(cfg, dump('msgpack', {b'f': {b'b': w}}))
            if 'fault' not in r['outcome']:
                if [raw, bn] not in bool_pass:
                    bool_pass.append([raw, bn])
                obs.setdefault('raw=%s,use_bin_type=%s' % (raw, bn), {})[repr(w)] = dict(r['outcome'], what=r.get('leak'))
    return bytes_table, bool_pass, utf8_bad, obs


CHUNK_TY = {'k': 'obj', 'name': 'Blob', 'ns': TNS, 'base': None, 'occ': occ(),
            'fields': [['b0', {'k': 'bytes', 'enc': 'base64', 'occ': occ()}], ['b1', {'k': 'bytes', 'enc': 'hex', 'occ': occ()}],
                       ['b2', {'k': 'bytes', 'enc': 'urlsafe', 'occ': occ()}]]}
CHUNK_WITNESS = {'o': ['Blob', [[n, {'x': [97, 98, 99, 100], 'chunks': [1, 3]}] for n in ('b0', 'b1', 'b2')]]}
CHUNK_EXPECTED = {'ok': {'b0': 'YWJjZA==', 'b1': '61626364', 'b2': 'YWJjZA=='}}


def _probe_chunks():
    """a ByteArray result given as the chunks [b'a', b'bcd'] (base64, hex, urlsafe members), as a JSON result"""
    B = Builder()
    B.register([{'name': 'Blob', 'ns': TNS, 'base': None, 'fields': CHUNK_TY['fields']}])
    impl = Impl(B, {'args': [], 'ret': CHUNK_TY})
    r = impl.run(dict(CFG_DEFAULT), dump('json', {'f': {}}), ret=B.native(CHUNK_TY, CHUNK_WITNESS))
    if r['out'] is None or 'ok' not in r['outcome']:
        return r.get('resp_crash') or r['outcome']
    return {'ok': load('json', r['out'])}


INT_PLAIN = {'k': 'int', 'kind': 'unbounded', 'r': {}, 'occ': occ()}
STR_PLAIN = {'k': 'str', 'minLen': 0, 'maxLen': None, 'pattern': None, 'values': [], 'occ': occ()}
BOOL_PLAIN = {'k': 'bool', 'occ': occ()}


def attrs_universe():
    """D <- S1 <- S2, an unrelated Y, and X whose Attributes class derives from D.Attributes (X is no subclass of D, but
    X.get_subclasses() lists S1 and S2)"""
    d = [['d0', INT_PLAIN]]
    s1 = d + [['s1_f1', STR_PLAIN]]
    s2 = s1 + [['s2_f2', BOOL_PLAIN]]
    return [{'name': 'D', 'ns': TNS, 'base': None, 'fields': d}, {'name': 'S1', 'ns': TNS, 'base': 'D', 'fields': s1},
            {'name': 'S2', 'ns': TNS, 'base': 'S1', 'fields': s2}, {'name': 'Y', 'ns': TNS, 'base': None, 'fields': [['y0', INT_PLAIN]]},
            {'name': 'X', 'ns': TNS, 'base': None, 'fields': [['x0', STR_PLAIN], ['x1', INT_PLAIN]], 'attrs_of': 'D'}]


def model_registry(classdefs):
    """the registry as the model sees it: a class that inherits a non-empty subclass list through its Attributes gets a
    placeholder subclass (never named in a document), because the code looks at the wrapper key iff that list is non-empty"""
    out = []
    for cd in classdefs:
        out.append({k: v for k, v in cd.items() if k != 'attrs_of'})
        if cd.get('attrs_of'):
            out.append({'name': cd['name'] + '__listed', 'ns': cd['ns'], 'base': cd['name'],
                        'fields': cd['fields'] + [['zz_listed', INT_PLAIN]]})
    return out


RETAG_WITNESS_DOCS = [{'f': {'x': {'S1': {'d0': 1, 's1_f1': 'a'}}}}, {'f': {'x': {'S2': {'d0': 1}}}}, {'f': {'x': {'S1': {'x0': 'a', 'x1': 2}}}}]


def _probe_retag():
    """f(x: X), ignore_wrappers=False: a wrapper key naming a class of the inherited subclass list has to be refused"""
    B = Builder()
    U = attrs_universe()
    B.register(U)
    B.universe_fields = {c['name']: c['fields'] for c in U}
    xt = dict(U[-1], k='obj', occ=occ())
    impl = Impl(B, {'args': [['x', xt]], 'ret': {'k': 'int', 'occ': occ()}})
    bad = {}
    for v in (None, 'soft'):
        for doc in RETAG_WITNESS_DOCS:
            r = impl.run(dict(CFG_DEFAULT, iw=False, validator=v), dump('json', doc))
            if 'fault' not in r['outcome']:
                bad['%s %s' % (v, json.dumps(doc))] = dict(r['outcome'], what=r.get('leak'))
    return bad


NW_INNER = {'k': 'obj', 'name': 'NwInner', 'ns': TNS, 'base': None, 'occ': occ(), 'fields': [['y', INT_PLAIN]], 'nw': True}
NW_PLAIN = {'k': 'obj', 'name': 'NwPlain', 'ns': TNS, 'base': None, 'occ': occ(), 'fields': [['z', INT_PLAIN]]}
NW_OUTER = {'k': 'obj', 'name': 'NwOuter', 'ns': TNS, 'base': None, 'occ': occ(), 'nw': True,
            'fields': [['inner', NW_INNER], ['plain', NW_PLAIN], ['x', INT_PLAIN]]}
NW_WITNESS = {'o': ['NwOuter', [['inner', {'o': ['NwInner', [['y', {'i': '2'}]]]}], ['plain', {'o': ['NwPlain', [['z', {'i': '3'}]]]}], ['x', {'i': '1'}]]]}
NW_EXPECTED = {'fResponse': {'fResult': {'inner': {'y': 2}, 'plain': {'NwPlain': {'z': 3}}, 'x': 1}}}


def _probe_not_wrapped():
    """a result of a class customized not_wrapped=True with a not_wrapped and an ordinary member, ignore_wrappers=False:
    json (str keys branch of _complex_to_dict) and msgpack (encoded keys branch) -> {branch: response document}"""
    B = Builder()
    B.register([{'name': t['name'], 'ns': TNS, 'base': None, 'fields': t['fields']} for t in (NW_INNER, NW_PLAIN, NW_OUTER)])
    impl = Impl(B, {'args': [], 'ret': NW_OUTER})
    out = {}
    for proto in ('json', 'msgpack'):
        cfg = dict(CFG_DEFAULT, proto=proto, iw=False)
        doc = {b'f': {b'f': {}}} if proto == 'msgpack' else {'f': {'f': {}}}
        r = impl.run(cfg, dump(proto, doc), ret=B.native(NW_OUTER, NW_WITNESS))
        out[proto] = _destr(load(proto, r['out'])) if r['out'] is not None and 'ok' in r['outcome'] else (r.get('resp_crash') or r['outcome'])
    return out


NF_INNER = {'k': 'obj', 'name': 'NfInner', 'ns': TNS, 'base': None, 'occ': occ(), 'fields': [['s', STR_PLAIN]]}
NF_ACCOUNT = {'k': 'obj', 'name': 'NfAccount', 'ns': TNS, 'base': None, 'occ': occ(), 'nofreq': True,
              'fields': [['inner', NF_INNER], ['n', dict(INT_PLAIN, kind='u8')], ['owner', dict(STR_PLAIN, maxLen=3)],
                         ['tags', dict(STR_PLAIN, occ=occ(True, 2, 3))]]}
NF_WITNESS_FAULT = [{'owner': 5}, {'owner': ['a']}, {'owner': 'toolong'}, {'n': 300}, {'n': 'x'}, {'inner': {'s': 5}}, {'inner': {'s': {'a': 1}}},
                    {'tags': ['a', 7]}]
NF_WITNESS_OK = [{'owner': 'abc', 'n': 255, 'tags': ['a', 'b']}, {'tags': ['a']}, {'tags': ['a', 'b', 'c', 'd']}, {}]


def _probe_nofreq():
    """f(self: NfAccount with validate_freq=False), soft: kind / facet violations (also in the nested object) have to be
    refused; violations of min_occurs / max_occurs of its own members are let through -> {document: outcome} of what differs"""
    B = Builder()
    B.register([{'name': t['name'], 'ns': TNS, 'base': None, 'fields': t['fields']} for t in (NF_INNER, NF_ACCOUNT)])
    B.universe_fields = {t['name']: t['fields'] for t in (NF_INNER, NF_ACCOUNT)}
    impl = Impl(B, {'args': [['self', NF_ACCOUNT]], 'ret': INT_PLAIN})
    bad = {}
    for proto in ('json', 'yaml', 'msgpack'):
        cfg = dict(CFG_DEFAULT, proto=proto, validator='soft')
        for docs, want in ((NF_WITNESS_FAULT, 'fault'), (NF_WITNESS_OK, 'ok')):
            for d in docs:
                r = impl.run(cfg, dump(proto, {'f': {'self': d}}))
                if want not in r['outcome']:
                    bad['%s %s' % (proto, json.dumps(d))] = dict({k: (v if k != 'ok' else '...') for k, v in r['outcome'].items()}, what=r.get('leak'))
    return bad


VALUES_WITNESS = [([['v', dict(STR_PLAIN, values=[cps('a'), cps('bb')])]], {'v': ''}), ([['v', dict(INT_PLAIN, vals=['1', '2', '5'])]], {'v': 0}),
                  ([['v', {'k': 'bool', 'occ': occ(), 'vals': [True]}]], {'v': False}), ([['v', {'k': 'dbl', 'occ': occ(), 'vals': ['1.5', '2.0']}]], {'v': 0.0})]


def _probe_values_falsy():
    """nillable types with a `values` enumeration that does not hold the falsy value of their kind ('' / 0 / False / 0.0), soft
    validation: the falsy value has to be refused (it is not None), null has to be accepted -> what differs"""
    bad = {}
    for args, doc in VALUES_WITNESS:
        B = Builder()
        impl = Impl(B, {'args': args, 'ret': INT_PLAIN})
        for proto in ('json', 'yaml', 'msgpack'):
            cfg = dict(CFG_DEFAULT, proto=proto, validator='soft')
            r = impl.run(cfg, dump(proto, {'f': doc}))
            if 'fault' not in r['outcome']:
                bad['%s %s <- %r' % (proto, args[0][1]['k'], doc['v'])] = r['outcome']
            r = impl.run(cfg, dump(proto, {'f': {'v': None}}))
            if r['outcome'] != {'ok': {'o': ['f', [['v', None]]]}}:
                bad['%s %s <- None' % (proto, args[0][1]['k'])] = r['outcome']
    return bad


BIG_FLOATS = [2.0, -3.0, 2.0 ** 53, -(2.0 ** 53), 2.0 ** 53 + 2, 1e16, -1e16, 2.0 ** 63, 1e22]


def _probe_int_floats():
    """integral floats, also at and beyond 2**53, for Integer / Integer64 / UnsignedInteger64 (argument and array item), soft and
    no validation, json / yaml / msgpack: user code gets exactly the `int` (or a fault when the type's range excludes it)"""
    bad = {}
    B = Builder()
    kinds = ['unbounded', 'i64', 'u64']
    args = [['a_%s' % k, dict(INT_PLAIN, kind=k)] for k in kinds] + [['l_%s' % k, {'k': 'arr', 'member': 'm', 'elem': dict(INT_PLAIN, kind=k), 'occ': occ()}] for k in kinds]
    impl = Impl(B, {'args': args, 'ret': INT_PLAIN})
    for proto in ('json', 'yaml', 'msgpack'):
        K = (lambda s_: s_.encode('utf8')) if proto == 'msgpack' else (lambda s_: s_)
        for validator in (None, 'soft'):
            cfg = dict(CFG_DEFAULT, proto=proto, validator=validator)
            for k in kinds:
                lo, hi = KIND_RANGE[k]
                for x in BIG_FLOATS:
                    inr = (lo is None or lo <= int(x)) and (hi is None or int(x) <= hi)
                    for name, node, want in (('a_' + k, x, {'i': str(int(x))}), ('l_' + k, [x], {'l': [{'i': str(int(x))}]})):
                        r = impl.run(cfg, dump(proto, {K('f'): {K(name): node}}))
                        o = r['outcome']
                        got = dict(o['ok']['o'][1]).get(name) if 'ok' in o else None
                        ok = got == want if (inr or validator is None) else 'fault' in o
                        if not ok:
                            bad['%s %s %s <- %r' % (proto, validator, name, x)] = {kk: (vv if kk != 'ok' else got) for kk, vv in o.items()}
    return bad


def _probe_prot_attrs():
    """f(s: Unicode(min_occurs=1, pa={<first protocol class>: {min_occurs: 0}})), soft validation, a request without `s`:
    the protocol named in `pa` accepts it, every other protocol refuses it -- also after an instance of the named protocol
    has served a request for the same type in this process (attribute caches are per protocol instance) -> what differs"""
    bad = {}
    for first, second in (('msgpack', 'json'), ('json', 'yaml'), ('yaml', 'msgpack'), ('json', 'msgpackrpc')):
        verdicts = {}
        for history in (False, True):
            B = Builder()                   # fresh type objects: the caches are keyed by class
            t = dict(STR_PLAIN, occ=occ(True, 1, 1), pa={first: {'min_occurs': 0}})
            impl = Impl(B, {'args': [['s', t], ['x', INT_PLAIN]], 'ret': INT_PLAIN})

            def ask(proto):
                K = (lambda s_: s_.encode('utf8')) if proto.startswith('msgpack') else (lambda s_: s_)
                doc = [0, 1, 'f', {K('x'): 1}] if proto == 'msgpackrpc' else {K('f'): {K('x'): 1}}
                return next(iter(impl.run(dict(CFG_DEFAULT, proto=proto, validator='soft'), dump(proto, doc))['outcome']))
            if history:
                v = ask(first)
                if v != 'ok':
                    bad['%s named in pa: request without the member' % first] = v
            verdicts[history] = ask(second)
        if verdicts[False] != 'fault' or verdicts[True] != verdicts[False]:
            bad['%s after %s' % (second, first)] = {'alone': verdicts[False], 'after the other instance served a request': verdicts[True]}
    return bad


def measure_facts():
    f, obs = {}, {}
    o = _probe_prot_attrs()
    f['attrCachesPerInstance'], obs['attrCachesPerInstance'] = o == {}, o
    o = _probe_values_falsy()
    f['valuesNullTestIsNone'], obs['valuesNullTestIsNone'] = o == {}, o
    o = _probe_nofreq()
    f['noFreqKeepsValidation'], obs['noFreqKeepsValidation'] = o == {}, o
    o = _probe_number_kinds()
    f['nonNumberForNumber'], obs['nonNumberForNumber'] = o, o
    o = _probe_not_wrapped()
    obs['notWrappedStrKeys'], obs['notWrappedBytesKeys'] = o['json'], o['msgpack']
    f['notWrappedStrKeys'], f['notWrappedBytesKeys'] = o['json'] == NW_EXPECTED, o['msgpack'] == NW_EXPECTED
    o = _probe_retag()
    obs['retagSubclassChecked'] = o
    f['retagSubclassChecked'] = o == {}
    o = _probe_chunks()
    obs['bytesJoinBeforeEncode'] = o
    f['bytesJoinBeforeEncode'] = o == CHUNK_EXPECTED
    bt, bp, ub, bobs = _probe_mp_tables()
    f['mpBytesTable'], obs['mpBytesTable'] = bt, bt
    f['mpBoolPassThrough'], obs['mpBoolPassThrough'] = bp, bobs
    f['tableUtf8Fault'], obs['tableUtf8Fault'] = ub == {}, ub
    o = _probe_alias()
    obs['guardPathLocal'] = o
    f['guardPathLocal'] = o == ALIAS_EXPECTED
    o = _probe_file()
    obs['fileFormValidated'] = o
    f['fileFormValidated'] = o == {}
    for name, w in FACT_WITNESS.items():
        args, cfg, doc = w[0], w[1], w[2]
        if name == 'parseErrorsFault':
            o = _probe_parse_errors()
            obs[name] = o
            f[name] = o == {}
            continue
        if name == 'nestedArrayOk':
            o = _probe_nested()
            obs[name] = o
            f[name] = o == {'ok': [[['2020-01-02'], []], [['2021-03-04', '2022-05-06']]]}
            continue
        r, _ = _probe(args, cfg, doc)
        o = r['outcome']
        for extra in w[3:]:             # every witness document has to be answered with a fault
            o2 = _probe(args, cfg, extra)[0]['outcome']
            if 'fault' not in o2:
                o = o2
        obs[name] = o
        if name == 'occCount':
            f[name] = 'perItem' if 'fault' in o else 'perKey'
        elif name in ('mpNameAnyKey',):
            f[name] = 'ok' in o
        elif name == 'nullComplexIsNone':
            f[name] = o == {'ok': {'o': ['f', [['o', None]]]}}
        elif name in ('repeatedScalarFault', 'leafKindFault', 'utf8Fault', 'nativeKindFault', 'missingBodyFault',
                      'binKindFault', 'rawBytesKindFault', 'binTextValidated'):
            f[name] = 'fault' in o
        elif name == 'boolCoerced':
            f[name] = o == {'ok': {'o': ['f', [['b', {'b': True}]]]}}
        elif name == 'jsonNullDateOk':
            f[name] = 'ok' in o
        elif name == 'intFromFloat':
            big = _probe_int_floats()
            f[name] = o == {'ok': {'o': ['f', [['i', {'i': '2'}]]]}} and big == {}
            if big:
                obs[name] = {'2.0': o, 'integral floats up to and beyond 2**53': big}
    return f, obs


def facts_lean(f):
    b = lambda x: 'true' if x else 'false'
    lines = ['  occCount := .%s' % f['occCount']]
    for k in ['mpNameAnyKey', 'nullComplexIsNone', 'repeatedScalarFault', 'leafKindFault', 'boolCoerced', 'utf8Fault',
              'jsonNullDateOk', 'intFromFloat', 'nativeKindFault', 'binKindFault', 'rawBytesKindFault', 'nestedArrayOk', 'binTextValidated', 'parseErrorsFault', 'missingBodyFault', 'guardPathLocal', 'fileFormValidated',
              'bytesJoinBeforeEncode', 'retagSubclassChecked', 'notWrappedStrKeys', 'notWrappedBytesKeys', 'noFreqKeepsValidation', 'valuesNullTestIsNone', 'attrCachesPerInstance']:
        lines.append('  %s := %s' % (k, b(f[k])))
    pl = lambda l: '[' + ', '.join('(%s, %s)' % (b(x), b(y)) for x, y in l) + ']'
    lines.append('  mpBytesTable := %s' % pl(f['mpBytesTable']))
    lines.append('  mpBoolPassThrough := %s' % pl(f['mpBoolPassThrough']))
    lines.append('  tableUtf8Fault := %s' % b(f['tableUtf8Fault']))
    lines.append('  nonNumberForNumber := [%s]' % ', '.join(json.dumps(x) for x in f['nonNumberForNumber']))
    return ('-- GENERATED by harness/hierblock.py (T1) from /repo on every run. Do not edit.\n'
            'import SpyneModel.Hier\nnamespace SpyneModel.Generated\nopen SpyneModel SpyneModel.Hier\n\n'
            'def facts02 : Facts02 where\n' + '\n'.join(lines) + '\n\nend SpyneModel.Generated\n')


# which properties' theorems depend on which switch (Props/*: GoodRT for C02 / C16, Good for C04 / C05 / C10)
SWITCH_PROPS = {
    'occCount': {'C02', 'C05', 'C16', 'C04', 'C10'}, 'nullComplexIsNone': {'C02', 'C04', 'C05', 'C16', 'C10'},
    'jsonNullDateOk': {'C02', 'C05', 'C16', 'C04', 'C10'}, 'nestedArrayOk': {'C02', 'C16', 'C04', 'C05', 'C10'},
    'mpNameAnyKey': {'C02', 'C05', 'C10', 'C04'}, 'binTextValidated': {'C05'}, 'parseErrorsFault': {'C10'}, 'missingBodyFault': {'C04', 'C05', 'C10'},
    'guardPathLocal': {'C02'}, 'fileFormValidated': {'C04'},
    'mpBoolPassThrough': {'C04', 'C05', 'C10'}, 'tableUtf8Fault': {'C04', 'C05', 'C10'},
    'bytesJoinBeforeEncode': {'C02'}, 'retagSubclassChecked': {'C04'},
    'notWrappedStrKeys': {'C02'}, 'notWrappedBytesKeys': {'C02'}, 'nonNumberForNumber': {'C04', 'C05'},
    'noFreqKeepsValidation': {'C04', 'C05'}, 'valuesNullTestIsNone': {'C05'}, 'attrCachesPerInstance': {'C05'},
}


def t1(ctx):
    """measure the behaviour switches, regenerate Facts02.lean, report bad switches with their witnesses"""
    f, obs = measure_facts()
    ctx.facts02 = f
    ctx.write_generated('Facts02.lean', facts_lean(f))
    for k, good in GOOD_FACTS.items():
        if f[k] != good and ctx.prop in SWITCH_PROPS.get(k, {'C04', 'C05', 'C10'}):
            if k in PROBE_FACTS:
                ctx.hit('fact-bad:' + k)
                wit = {'guardPathLocal': ALIAS_WITNESS, 'fileFormValidated': FILE_WITNESS_DOCS,
                       'mpBoolPassThrough': 'f(b: Boolean) <- {b"f": {b"b": w}} for w in %r, validator=soft, every (raw, use_bin_type)' % (BOOL_FOREIGN,),
                       'tableUtf8Fault': 'f(d: Date) <- {b"f": {b"d": b"\\xff\\xfe"}}, validator=soft, raw=True, use_bin_type=False',
                       'bytesJoinBeforeEncode': CHUNK_WITNESS, 'retagSubclassChecked': RETAG_WITNESS_DOCS,
                       'notWrappedStrKeys': NW_WITNESS, 'notWrappedBytesKeys': NW_WITNESS,
                       'attrCachesPerInstance': 'f(s: Unicode(min_occurs=1, pa={P1: {min_occurs: 0}}), x) <- a request without s: P2 alone / P2 after P1 '
                                                'served one, (P1, P2) in (msgpack, json), (json, yaml), (yaml, msgpack), (json, msgpackrpc); soft',
                       'valuesNullTestIsNone': [[a[0][1], d] for a, d in VALUES_WITNESS],
                       'noFreqKeepsValidation': {'type': NF_ACCOUNT, 'refused': NF_WITNESS_FAULT, 'accepted': NF_WITNESS_OK},
                       'nonNumberForNumber': 'f(a: Double | Double(ge=..) | Decimal | Decimal(le=..), box: NumBox{the same}) <- every kind of number_foreign(proto), '
                                             'yaml / msgpack / msgpackrpc, validator=soft'}[k]
                ctx.finding('switch:%s=%s' % (k, f[k]), FACT_WHAT[k],
                            {'op': 'probe', 'fact': k, 'measured': f[k], 'observed': obs[k],
                             'expected': {'guardPathLocal': ALIAS_EXPECTED, 'bytesJoinBeforeEncode': CHUNK_EXPECTED, 'notWrappedStrKeys': NW_EXPECTED,
                                          'notWrappedBytesKeys': NW_EXPECTED}.get(k, 'a Client fault for every document'),
                             'witness': wit})
                continue
            args, cfg, doc = FACT_WITNESS[k][:3]
            ctx.hit('fact-bad:' + k)
            ctx.finding('switch:%s=%s' % (k, f[k]), FACT_WHAT[k],
                        {'op': 'witness', 'fact': k, 'measured': f[k], 'args': args, 'cfg': dict(CFG_DEFAULT, **cfg),
                         'doc': doc_to_json(doc), 'observed': obs[k]})
    return f


# ===================================================================================== document mutation
NASTY_TEXT = ['', ' ', 'x', 'ab', 'true', 'false', '1', '0', '-1', '1.5', '1e3', 'null', 'None', '2020-01-02', '2020-13-01',
              '2020-01-02T03:04:05', '2020-01-02T03:04:05Z', '2020-01-02T03:04:05+25:00', '24:00:00', '12:00:00', '12:00:00xyz',
              'P1D', 'PT1.5S', 'P', 'hello', 'YWJj', 'YWJ', '0102ff', '0102f', 'zz', '====', 'é', '\x00', '1_0', ' 1',
              '9' * 30, '1' * 1025, 'red', 'a', 'bb']


def scalar_pool(rng, proto):
    pool = [None, True, False, 0, 1, 2, 5, -1, 255, 256, 2 ** 63, 2 ** 64 - 1, 1.0, 2.0, 0.0, 1.5, -0.5,
            [], [1], ['a'], [None], [[1]], {}, {'k': 1}, {'a': {'b': 1}}] + [rng.choice(NASTY_TEXT) for _ in range(6)]
    if proto in ('json', 'yaml'):
        pool += [2 ** 70, -2 ** 70, float('inf'), float('nan')]
    if proto != 'json':
        pool += [b'', b'ab', b'\xff\xfe', b'12', b'YWJj', b'2020-01-02', 'h\xe9'.encode('utf8')]
    if proto == 'yaml':
        pool += [pydt.date(2020, 1, 2), pydt.datetime(2020, 1, 2, 3, 4, 5)]
    return pool


def paths(doc, pre=()):
    """all node paths of a python document"""
    yield pre
    if isinstance(doc, dict):
        for k, v in doc.items():
            yield from paths(v, pre + (k,))
    elif isinstance(doc, list):
        for i, v in enumerate(doc):
            yield from paths(v, pre + (i,))


def get_at(doc, path):
    for p in path:
        doc = doc[p]
    return doc


def set_at(doc, path, val):
    if not path:
        return val
    parent = get_at(doc, path[:-1])
    parent[path[-1]] = val
    return doc


def deep(doc):
    if isinstance(doc, dict):
        return {k: deep(v) for k, v in doc.items()}
    if isinstance(doc, list):
        return [deep(v) for v in doc]
    return doc


def mutate_doc(rng, doc, proto, names=()):
    """one structure-aware mutation of a request document; returns (new_doc, tag)"""
    doc = deep(doc)
    ps = list(paths(doc))
    op = rng.choice(['kind', 'kind', 'kind', 'text', 'delkey', 'addkey', 'renkey', 'dupitem', 'delitem', 'wraplist',
                     'wrapdict', 'tolist', 'todict', 'keykind', 'rewrap', 'swap'])
    path = rng.choice(ps)
    node = get_at(doc, path)
    if op == 'kind':
        return set_at(doc, path, rng.choice(scalar_pool(rng, proto))), 'kind'
    if op == 'text':
        leaves = [p for p in ps if isinstance(get_at(doc, p), str)]
        if leaves:
            p = rng.choice(leaves)
            s = get_at(doc, p)
            t = rng.choice(NASTY_TEXT) if rng.random() < 0.5 else _edit(rng, s)
            return set_at(doc, p, t), 'text'
        return set_at(doc, path, rng.choice(NASTY_TEXT)), 'text'
    dicts = [p for p in ps if isinstance(get_at(doc, p), dict)]
    lists = [p for p in ps if isinstance(get_at(doc, p), list)]
    if op in ('delkey', 'addkey', 'renkey', 'keykind', 'rewrap', 'tolist') and dicts:
        p = rng.choice(dicts)
        d = get_at(doc, p)
        if op == 'delkey' and d:
            del d[rng.choice(list(d))]
            return doc, 'delkey'
        if op == 'addkey':
            d[rng.choice(['zz', 'unknown', '', 'f'] + list(names))] = rng.choice(scalar_pool(rng, proto))
            return doc, 'addkey'
        if op == 'renkey' and d:
            k = rng.choice(list(d))
            v = d.pop(k)
            d[rng.choice(['zz', ''] + list(names))] = v
            return doc, 'renkey'
        if op == 'keykind' and d and proto != 'json':
            k = rng.choice(list(d))
            v = d.pop(k)
            if isinstance(k, str):
                nk = k.encode('utf8') if rng.random() < 0.7 or proto != 'yaml' else rng.choice([1, 0, 7, pydt.date(2020, 1, 2)])
            elif isinstance(k, bytes):
                nk = rng.choice([k.decode('utf8', 'replace'), b'\xff' + k])
            else:
                nk = 'k'
            d[nk] = v
            return doc, 'keykind'
        if op == 'rewrap' and len(d) == 1:
            k = next(iter(d))
            v = d.pop(k)
            nk = rng.choice(list(names) + ['Nope'])
            d[nk if isinstance(k, str) else nk.encode('utf8')] = v
            return doc, 'rewrap'
        if op == 'tolist':
            return set_at(doc, p, list(d.values())), 'tolist'
    if op in ('dupitem', 'delitem', 'todict', 'swap') and lists:
        p = rng.choice(lists)
        l = get_at(doc, p)
        if op == 'dupitem' and l:
            l.insert(rng.randrange(len(l) + 1), deep(rng.choice(l)))
            return doc, 'dupitem'
        if op == 'delitem' and l:
            del l[rng.randrange(len(l))]
            return doc, 'delitem'
        if op == 'swap' and len(l) > 1:
            i, j = rng.sample(range(len(l)), 2)
            l[i], l[j] = l[j], l[i]
            return doc, 'swap'
        if op == 'todict':
            return set_at(doc, p, {('k%d' % i): v for i, v in enumerate(l)}), 'todict'
    if op == 'wraplist':
        return set_at(doc, path, [node]), 'wraplist'
    if op == 'wrapdict':
        return set_at(doc, path, {rng.choice(list(names) + ['w']): node}), 'wrapdict'
    return set_at(doc, path, rng.choice(scalar_pool(rng, proto))), 'kind'


def _edit(rng, s):
    alphabet = '0123456789-:.TZ+ xPYMDHSabcé_='
    if not s:
        return rng.choice(alphabet)
    i = rng.randrange(len(s) + 1)
    op = rng.randrange(4)
    if op == 0:
        return s[:i] + rng.choice(alphabet) + s[i:]
    if op == 1 and i < len(s):
        return s[:i] + s[i + 1:]
    if op == 2 and i < len(s):
        return s[:i] + rng.choice(alphabet) + s[i + 1:]
    return s[:i] + s[i:i + 2][::-1] + s[i + 2:]


def has_text_bytes(t):
    """does the type contain a ByteArray leaf that is carried as base64 / hex text?"""
    k = t['k']
    if k == 'bytes':
        return True
    if k == 'obj':
        return any(has_text_bytes(ft) for _, ft in t['fields'])
    if k == 'arr':
        return has_text_bytes(t['elem'])
    return False


def lenient_only(s):
    """CPython's non-validating b64decode accepts `s` (skipping foreign characters) although it is not a
    base64 / urlsafe-base64 literal: outside the shared (strict) Binary model"""
    if isinstance(s, str):
        try:
            s = s.encode('ascii')
        except UnicodeEncodeError:
            return True
    for url in (False, True):
        try:
            (base64.urlsafe_b64decode if url else base64.b64decode)(s)
        except Exception:
            continue
        try:
            t = s.translate(bytes.maketrans(b'-_', b'+/')) if url else s
            if url and (b'+' in s or b'/' in s):
                return True
            base64.b64decode(t, validate=True)
        except Exception:
            return True
    return False


def modelled_doc(pydoc, in_ty):
    """is the (parsed) request inside what the Lean leaf model covers?  Excluded: base64 text that only
    CPython's lenient decoder accepts when the signature has a text-encoded ByteArray; non-ASCII text where a
    date/time/duration is expected is handled by the leaf model (fault) and stays in."""
    if not has_text_bytes(in_ty):
        return True

    def nodes(d):
        # (the msgpack parser of the server hands out tuples, `load` lists)
        yield d
        if isinstance(d, dict):
            for v in d.values():
                yield from nodes(v)
        elif isinstance(d, (list, tuple)):
            for v in d:
                yield from nodes(v)

    for n in nodes(pydoc):
        if isinstance(n, (str, bytes)) and lenient_only(n):
            return False
        if isinstance(n, str) and any(lenient_only(c) for c in set(n)):
            return False        # strings are iterated character by character where a sequence is expected
        if isinstance(n, dict):
            for k in n:
                if isinstance(k, (str, bytes)) and lenient_only(k):
                    return False
    return True


# ===================================================================================== check parts
def load_known(ctx):
    """known findings proposed by this block (fixes/<PID>-known.json) count until they are merged centrally"""
    import os
    p = os.path.join(core.VERIF, 'fixes', '%s-known.json' % ctx.prop)
    if os.path.exists(p):
        have = {k.get('id') for k in ctx.known_findings}
        for k in json.load(open(p)):
            if k.get('property') == ctx.prop and k.get('id') not in have:
                ctx.known_findings.append(k)


def has_none_obj_item(t, v, item=False):
    """does the value hold a None among the items of an array / repeated member of object type?"""
    if v is None:
        return False
    o = t.get('occ') or occ()
    if is_rep(o) and not item and 'l' in v:
        return any(x is None and t['k'] == 'obj' or has_none_obj_item(t, x, True) for x in v['l'])
    if t['k'] == 'arr' and 'l' in v:
        e = t['elem']
        return any(x is None and e['k'] == 'obj' or has_none_obj_item(e, x, True) for x in v['l'])
    if t['k'] == 'obj' and 'o' in v:
        return any(has_none_obj_item(ft, fv) for (_, ft), (_, fv) in zip(t['fields'], v['o'][1]))
    return False


def none_among_objects(v):
    """type-free variant: some list in the value holds None next to (or instead of) objects"""
    if v is None:
        return False
    if 'l' in v:
        objs = [x for x in v['l'] if x is not None and 'o' in x]
        if any(x is None for x in v['l']) and (objs or not [x for x in v['l'] if x is not None]):
            return True
        return any(none_among_objects(x) for x in v['l'])
    if 'o' in v:
        return any(none_among_objects(x) for _, x in v['o'][1])
    return False


def mp_readable(t):
    k = t['k']
    if k in ('date', 'dt', 'dur', 'enum'):
        return False
    if k == 'obj':
        return all(mp_readable(ft) for _, ft in t['fields'])
    if k == 'arr':
        return mp_readable(t['elem'])
    return True


def nontrivial(t, v, depth=0):
    """value tree has at least two non-None leaves and the type nests"""
    def leaves(v):
        if v is None:
            return 0
        if 'o' in v:
            return sum(leaves(x) for _, x in v['o'][1])
        if 'l' in v:
            return sum(leaves(x) for x in v['l'])
        return 1

    def tdepth(t):
        if t['k'] == 'obj':
            return 1 + max([tdepth(ft) for _, ft in t['fields']] + [0])
        if t['k'] == 'arr':
            return 1 + tdepth(t['elem'])
        return 0
    return leaves(v) >= 2 and tdepth(t) >= 2


class Batch:
    """collects model queries with the matching implementation outcomes"""

    def __init__(self, ctx):
        self.ctx, self.q, self.impl, self.meta = ctx, [], [], []

    def add(self, q, impl, meta=None):
        self.q.append(q)
        self.impl.append(impl)
        self.meta.append(meta)

    def run(self, op_name):
        ctx = self.ctx
        ans = ctx.model(self.q, driver='C02')
        n = 0
        for q, impl, a, m in zip(self.q, self.impl, ans, self.meta):
            if 'driver_error' in a:
                raise core.Infra('driver error: %r' % (a,))
            ctx.cov['traces_validated_against_impl'] += 1
            if a != impl:
                n += 1
                qq = {k: v for k, v in q.items() if k != 'reg'}
                ctx.disagree(op_name, qq, show(impl), show(a))
        return ans


def show(o):
    return json.loads(json.dumps(o, default=str)[:1500]) if len(json.dumps(o, default=str)) <= 1500 else json.dumps(o, default=str)[:1500]


def request_body(cfg, parsed):
    """what `decodeRequest` of the model takes: the parsed document (msgpack-rpc: params of a request envelope)"""
    if cfg['proto'] == 'msgpackrpc':
        if not (isinstance(parsed, (list, tuple)) and len(parsed) == 4 and parsed[0] == 0 and parsed[2] in ('f', b'f')):
            return None, False
        return parsed[3], True
    return parsed, True


def same_doc(a, b):
    """parsed == dumped document, up to tuple/list and NaN identity"""
    if isinstance(a, (list, tuple)) and isinstance(b, (list, tuple)):
        return len(a) == len(b) and all(same_doc(x, y) for x, y in zip(a, b))
    if isinstance(a, dict) and isinstance(b, dict):
        return len(a) == len(b) and all(k in b and same_doc(v, b[k]) for k, v in a.items())
    if isinstance(a, float) and isinstance(b, float) and a != a and b != b:
        return True
    return type(a) is type(b) and a == b


def part_c02(ctx, ncases=None, seed_cases=True):
    """C02: conformant requests through every configuration (T2 request/response, T3 argument and response
    fidelity), mutated requests (T2), codec oracles."""
    rng = ctx.rng
    ncases = ncases or (240 if ctx.thorough else 80)
    B_req, B_req_good, B_resp, B_mut = Batch(ctx), Batch(ctx), Batch(ctx), Batch(ctx)
    pending = []            # T3 argument failures waiting for the model's explanation
    for ci in range(ncases):
        if ci % 4 == 3:
            # classes customized not_wrapped=True wherever they are used (arguments, results, members, array items)
            c = Case(rng, nclasses=rng.choice([2, 3, 4]), depth=rng.choice([2, 3]), inherit=False, nw_p=0.6)
        else:
            c = Case(rng, nclasses=rng.choice([2, 3, 4]), depth=rng.choice([2, 3, 4 if ctx.thorough else 3]))
        nwl = sorted(c.U.nw)
        names = [cd['name'] for cd in c.U.classes] + ['f']
        ret_ty = c.sig['ret']
        for vi in range(3):
            args = c.gen_args(none_p=rng.choice([0.0, 0.15, 0.4]))
            if args is None:
                ctx.hit('unsat-signature')
                continue
            try:
                rv = gen_field(rng, ret_ty, c.U)
            except Unsat:
                rv = None
            # where the value offers two positions of one class, let them (half of the time) hold one Python object
            rva, akind = alias_value(rng, rv) if rv is not None else (None, None)
            if rva is not None and rng.random() < 0.5:
                ctx.hit('alias-in-result:' + akind)
                rv_sent, rv = rva, strip_ids(rva)
            else:
                rv_sent = rv
            # byte values of the result are presented in several chunks (below the model: the value is the concatenation)
            rv_sent = chunkify(rng, rv_sent)
            if rv_sent != rv and strip_ids(rv_sent) == rv and rva is None:
                ctx.hit('chunked-bytes-in-result')
            nat = c.B.native(ret_ty, rv_sent)
            for cfg in ALL_CFGS:
                if nwl:
                    cfg = dict(cfg, nw=nwl)
                    ctx.hit('not-wrapped-classes:%s' % ('wrappers-kept' if not cfg['iw'] else 'wrappers-ignored'))
                if cfg['cas'] == 'list' and not fully_populated(args):
                    ctx.hit('skip:list-needs-fully-populated')
                    continue
                for bk in ([False, True] if cfg['proto'].startswith('msgpack') else [False]):
                    doc = ref_request(cfg, 'f', c.in_ty, args, c.U, bytes_keys=bk)
                    data = dump(cfg['proto'], doc)
                    parsed = load(cfg['proto'], data)
                    # third-party law on what the reference encoder produces
                    if not same_doc(parsed, doc):
                        ctx.finding('oracle:parse-dump:' + cfg['proto'], 'parse(dump(d)) != d for a conventional request',
                                    {'op': 'parse-dump', 'cfg': cfg, 'doc': doc_to_json(doc)})
                    r = c.impl.run(cfg, data, ret=nat)
                    r['ret_val'] = rv
                    body, ok = request_body(cfg, parsed)
                    q = c.query('request', cfg, ty=c.in_ty, doc=doc_to_json(body))
                    ctx.case({'cfg': cfg_key(cfg), 'bk': bk, 'ty': c.in_ty, 'args': args}, nontrivial(c.in_ty, args))
                    ctx.hit('request:%s:%s' % (cfg['proto'], next(iter(r['outcome']))))
                    B_req.add(q, r['outcome'])
                    # ---- T3: the user function ran once with equal arguments
                    if r['outcome'] != {'ok': args}:
                        B_req_good.add(dict(q, good=True), None)
                        pending.append((c, cfg, bk, args, doc, r, len(B_req.q) - 1))
                        continue
                    # ---- response: T2 against the model's encoder, T3 through the reference decoder
                    if r.get('resp_crash'):
                        fid = 'response:crash:%s:%s' % ('msgpack' if cfg['proto'].startswith('msgpack') else cfg['proto'],
                                                        r.get('where', '').rsplit(':', 1)[0])
                        ctx.hit('t3-fail:' + fid)
                        ctx.finding(fid, 'the returned value cannot be serialized: %s' % r.get('where'),
                                    {'op': 'response', 'cfg': cfg, 'ty': ret_ty, 'returned': rv, 'reg': c.U.registry(),
                                     'where': r.get('where')})
                        continue
                    if r['out'] is None:
                        continue
                    try:
                        out = load(cfg['proto'], r['out'])
                    except Exception as e:
                        ctx.finding('response:unparsable:' + cfg['proto'], 'response bytes do not parse: %r' % e,
                                    {'op': 'response', 'cfg': cfg, 'ret': rv, 'ty': ret_ty})
                        continue
                    if not same_doc(out, r['out_doc']):
                        ctx.hit('oracle-fail:parse-dump')
                        ctx.finding('oracle:parse-dump-out:' + cfg['proto'], 'parse(dump(out_document)) != out_document',
                                    {'op': 'parse-dump', 'cfg': cfg, 'doc': doc_to_json(r['out_doc'])})
                    B_resp.add(c.query('response', cfg, ty=ret_ty, val=rv_sent, method='f'), {'ok': doc_to_json(out)})
                    ctx.case({'cfg': cfg_key(cfg), 'ret': ret_ty, 'val': rv}, nontrivial(ret_ty, rv) if rv else False)
                    try:
                        back = ref_response(cfg, 'f', ret_ty, out, c.U)
                        okb = back == rv
                        why = 'differs'
                    except (RefError, ValueError, UnicodeDecodeError, binascii.Error) as e:
                        okb, back, why = False, repr(e), 'undecodable'
                    if not okb:
                        if has_none_obj_item(ret_ty, rv):
                            fid = 'response:none-object-written-as-empty-object'
                        else:
                            fid = 'response:%s:%s' % (why, 'msgpack' if cfg['proto'].startswith('msgpack') else cfg['proto'])
                        ctx.hit('t3-fail:' + fid)
                        ctx.finding(fid, 'the response does not decode, by the documented conventions, to the returned value',
                                    {'op': 'response', 'cfg': cfg, 'ty': ret_ty, 'returned': rv_sent, 'decoded': back,
                                     'reg': c.U.registry(), 'response_doc': doc_to_json(out)})
                # ---- mutated requests (T2 only; C10 evaluates the property on them)
                doc0 = ref_request(cfg, 'f', c.in_ty, args, c.U, bytes_keys=cfg['proto'].startswith('msgpack') and rng.random() < 0.7)
                for mi in range(3 if ctx.thorough else 2):
                    doc, tag = mutate_doc(rng, doc0, cfg['proto'], names)
                    if rng.random() < 0.3:
                        doc, _ = mutate_doc(rng, doc, cfg['proto'], names)
                    try:
                        data = dump(cfg['proto'], doc)
                        parsed = load(cfg['proto'], data)
                    except Exception:
                        ctx.hit('mut:not-dumpable')
                        continue
                    body, ok = request_body(cfg, parsed)
                    if not ok or not modelled_doc(body, c.in_ty) or not spyne_parses(cfg, data):
                        ctx.hit('mut:outside-model')
                        continue
                    r = c.impl.run(cfg, data)
                    ctx.case({'cfg': cfg_key(cfg), 'ty': c.in_ty, 'doc': doc_to_json(body)})
                    ctx.hit('mut:%s:%s' % (tag, next(iter(r['outcome']))))
                    B_mut.add(c.query('request', cfg, ty=c.in_ty, doc=doc_to_json(body)), r['outcome'])
    ans_req = B_req.run('hier.request')
    B_mut.run('hier.request-mutated')
    B_resp.run('hier.response')
    # ---- T3 failures: explained by a bad switch (already reported with its witness) or a finding of their own
    good = ctx.model(B_req_good.q, driver='C02') if B_req_good.q else []
    for (c, cfg, bk, args, doc, r, qi), g in zip(pending, good):
        m = ans_req[qi]
        if g == {'ok': args} and m == r['outcome']:
            ctx.hit('t3-explained-by-switch')
            continue
        kind = next(iter(r['outcome']))
        fid = 'args:%s:%s%s' % ('msgpack' if cfg['proto'].startswith('msgpack') else cfg['proto'], kind,
                                ':' + r.get('where', '').split(':')[0] if kind == 'crash' else '')
        ctx.hit('t3-fail:' + fid)
        ctx.finding(fid, 'a conventional request for conformant arguments did not hand them to the user function',
                    {'op': 'request', 'cfg': cfg, 'bytes_keys': bk, 'ty': c.in_ty, 'reg': c.U.registry(), 'args': args,
                     'doc': doc_to_json(doc), 'observed': r['outcome'], 'where': r.get('where'), 'stage': r.get('stage'),
                     'ret_ty': c.sig['ret'], 'returned': r.get('ret_val')})
    part_alias(ctx)
    part_poly(ctx)
    part_client(ctx)
    probe_client_iw(ctx)
    part_util(ctx)
    part_attrs(ctx)
    probe_empty_chunks(ctx)
    part_codec(ctx)
    ctx.cov['rule'] = ('cases = generated class universes (depth <= 4, inheritance, wrapped arrays, repeated members, facets) x '
                       'conformant argument tuples (boundary biased, None at optional positions) x 32 configurations x key '
                       'kinds, plus type-directed document mutations; distinct = canonical (cfg, type, value/document); '
                       'non-trivial = value tree with >= 2 leaves under a type of depth >= 2')


# ===================================================================================== aliasing (cycle guard)
def obj_nodes(v, path=()):
    """paths of the object nodes of a Val JSON tree"""
    out = []
    if isinstance(v, dict):
        if 'o' in v:
            out.append(path)
            for i, (_, fv) in enumerate(v['o'][1]):
                out += obj_nodes(fv, path + (('o', i),))
        elif 'l' in v:
            for i, x in enumerate(v['l']):
                out += obj_nodes(x, path + (('l', i),))
    return out


def node_at(v, path):
    for kind, i in path:
        v = v['o'][1][i][1] if kind == 'o' else v['l'][i]
    return v


def set_node(v, path, new):
    if not path:
        return new
    parent = node_at(v, path[:-1])
    kind, i = path[-1]
    if kind == 'o':
        parent['o'][1][i][1] = new
    else:
        parent['l'][i] = new
    return v


def strip_ids(v):
    """the value itself: without object identities ("id") and without the chunking of byte values ("chunks")"""
    if isinstance(v, dict):
        if 'o' in v:
            return {'o': [v['o'][0], [[n, strip_ids(x)] for n, x in v['o'][1]]]}
        if 'l' in v:
            return {'l': [strip_ids(x) for x in v['l']]}
        if 'x' in v:
            return {'x': v['x']}
    return v


def chunkify(rng, v, p=0.6):
    """present the byte values of a result in several chunks (empty chunks, boundaries that are no multiples of 3)"""
    if isinstance(v, dict):
        if 'o' in v:
            return dict(v, o=[v['o'][0], [[n, chunkify(rng, x, p)] for n, x in v['o'][1]]])
        if 'l' in v:
            return dict(v, l=[chunkify(rng, x, p) for x in v['l']])
        if 'x' in v and rng.random() < p:
            n, cuts, i = len(v['x']), [], 0
            while i < n:
                k = rng.choice([0, 1, 1, 2, 2, 3, 4, 5, 7])
                k = min(k, n - i)
                cuts.append(k)
                i += k
            if rng.random() < 0.3:
                cuts.append(0)
            if not cuts:
                cuts = rng.choice([[0], [0, 0]])        # (the empty sequence of chunks: probe_empty_chunks)
            return dict(v, chunks=cuts, tuple=rng.random() < 0.3)
    return v


def _nested(p, q):
    n = min(len(p), len(q))
    return p[:n] == q[:n]


def alias_value(rng, v, siblings=None):
    """make one object of the value tree appear at one or two further positions *as the same Python object* (nodes
    with equal "id"): positions that hold an instance of the same class and are not nested into each other
    (siblings=True: members of one object / slots of one list only).  None if the value offers no such positions.
    Returns (value, kind) with kind in fields / array / cousins."""
    nodes = obj_nodes(v)
    by_cls = {}
    for p in nodes:
        by_cls.setdefault(node_at(v, p)['o'][0], []).append(p)
    pairs = []
    for cname, ps in by_cls.items():
        for a in ps:
            for b in ps:
                if a < b and not _nested(a, b):
                    sib = a[:-1] == b[:-1]
                    if siblings is None or siblings == sib:
                        pairs.append((a, b))
    if not pairs:
        return None, None
    a, b = rng.choice(pairs)
    if rng.random() < 0.5:
        a, b = b, a
    targets = [b]
    more = [q for (p, q) in pairs + [(y, x) for x, y in pairs] if p == a and q != b and not _nested(q, b)]
    if more and rng.random() < 0.4:
        targets.append(rng.choice(more))
    v2 = json.loads(json.dumps(v))
    src = node_at(v2, a)
    src['id'] = 1
    for t in targets:
        v2 = set_node(v2, t, json.loads(json.dumps(src)))
    if a[:-1] == b[:-1]:
        kind = 'array' if a[-1][0] == 'l' else 'fields'
    else:
        kind = 'cousins'
    return v2, kind


def alias_universe(rng):
    """a generated universe plus a class `Pair` that offers sibling positions of one class: two members, a wrapped
    array and a repeated member of class `cd`"""
    U = Universe(rng, nclasses=rng.choice([2, 3]), depth=2)
    cd = rng.choice(U.classes)
    # (member names in alphabetical order, like those of the generated classes: yaml.dump sorts mapping keys)
    fields = [['p0_tag', gen_leaf(rng, 'str', occ(), facets=False)],
              ['p1_start', U.obj_ty(cd, occ(rng.random() < 0.6, rng.choice([0, 1]), 1))],
              ['p2_end', U.obj_ty(cd, occ(rng.random() < 0.6, rng.choice([0, 1]), 1))],
              ['p3_items', {'k': 'arr', 'member': 'm', 'elem': U.obj_ty(cd, occ(True, 0, 1)), 'occ': occ()}],
              ['p4_more', U.obj_ty(cd, occ(True, 0, None))]]
    pair = {'name': 'Pair', 'ns': TNS, 'base': None, 'fields': fields}
    U.classes.append(pair)
    U.by_name['Pair'] = pair
    return U, cd, pair


# ===================================================================================== the protocol's own client legs
CLIENT_CFGS = ([{'proto': p, 'validator': v, 'iw': False, 'cas': 'dict', 'poly': False} for p in ('json', 'yaml', 'msgpack') for v in (None, 'soft')] +
               [{'proto': 'msgpackrpc', 'validator': v, 'iw': iw, 'cas': 'dict', 'poly': False} for v in (None, 'soft') for iw in (True, False)])


def client_call(impl, cfg, args_native, ret_native):
    """one call through spyne's own client legs, in process: `serialize(REQUEST)` + `create_out_string` write the request,
    the server (Impl.run) answers it, `create_in_document` + `decompose_incoming_envelope(RESPONSE)` + `deserialize(RESPONSE)`
    read the response. Returns (request bytes, server result, ('ok', value) | ('exc', class name, where))"""
    from spyne.client import RemoteProcedureBase

    class _InProcess(RemoteProcedureBase):
        pass
    app = impl.server(cfg).app
    rp = _InProcess('in-process', app, impl.method)
    cctx = rp.contexts[0]
    rp.get_out_object(cctx, list(args_native), {})
    rp.get_out_string(cctx)
    req = b''.join(cctx.out_string)
    r = impl.run(cfg, req, ret=ret_native)
    if r['out'] is None or 'ok' not in r['outcome'] or r.get('resp_crash'):
        return req, r, None
    cctx.in_string = [r['out']]
    try:
        rp.get_in_object(cctx)
    except Exception as e:
        return req, r, ('exc', type(e).__name__, crash_site(e))
    if cctx.in_error is not None:
        return req, r, ('exc', 'in_error', repr(cctx.in_error)[:200])
    return req, r, ('ok', cctx.in_object)


def part_client(ctx, ncases=None):
    """C02 with spyne on both ends: the request is WRITTEN by the protocol (client side, `serialize(REQUEST)`), the response is
    READ by the protocol (`deserialize(RESPONSE)`).  T3: the user function gets the arguments the client passed, the client gets
    the value the function returned.  T2: the written request body == the model's `encode` of the input message; the value read
    == the model's `decodeResponse` of the response document.
    Configurations: those in which the dict protocols can be used on both ends (ignore_wrappers=False for json / yaml /
    msgpack -- with ignore_wrappers=True their REQUEST writer drops the method name: known finding -- and MessagePack-RPC)."""
    rng = ctx.rng
    ncases = ncases or (150 if ctx.thorough else 40)
    B_wr, B_rd = Batch(ctx), Batch(ctx)
    for ci in range(ncases):
        # (every other universe sticks to the leaf kinds MessagePack can read back from its own writer)
        c = Case(rng, nclasses=rng.choice([2, 3]), depth=rng.choice([2, 3]), kinds=None if ci % 2 else ['int', 'bool', 'str', 'bytes', 'time'])
        ret_ty = c.sig['ret']
        for vi in range(2):
            args = c.gen_args(none_p=rng.choice([0.0, 0.2]))
            if args is None:
                continue
            try:
                rv = gen_field(rng, ret_ty, c.U)
            except Unsat:
                rv = None
            if has_none_obj_item(ret_ty, rv) or any(has_none_obj_item(t, v) for (_, t), (_, v) in zip(c.sig['args'], args['o'][1])):
                continue        # (known finding: a None item of an object array is written as {})
            args_nat = [c.B.native(t, chunkify(rng, v)) for (_, t), (_, v) in zip(c.sig['args'], args['o'][1])]
            ret_nat = c.B.native(ret_ty, chunkify(rng, rv))
            for cfg in CLIENT_CFGS:
                mp = cfg['proto'].startswith('msgpack')
                if mp and not (mp_readable(c.in_ty) and mp_readable(ret_ty)):
                    ctx.hit('client:skip:msgpack-cannot-read-its-own-date-text')
                    continue
                fam = 'msgpack' if mp else cfg['proto']
                try:
                    req, r, got = client_call(c.impl, cfg, args_nat, ret_nat)
                except Exception as e:
                    ctx.finding('client:request-not-written:%s:%s' % (fam, type(e).__name__),
                                'the protocol cannot write the request for conformant arguments: %s' % crash_site(e),
                                {'op': 'client', 'cfg': cfg, 'ty': c.in_ty, 'ret_ty': ret_ty, 'reg': c.U.registry(), 'args': args, 'returned': rv})
                    continue
                ctx.case({'client': cfg_key(cfg), 'ty': c.in_ty, 'args': args, 'ret': rv}, nontrivial(c.in_ty, args))
                rep = {'op': 'client', 'cfg': cfg, 'ty': c.in_ty, 'ret_ty': ret_ty, 'reg': c.U.registry(), 'args': args, 'returned': rv}
                # ---- T2: what was written
                parsed = load(cfg['proto'], req)
                body = parsed[3] if cfg['proto'] == 'msgpackrpc' else parsed
                B_wr.add(c.query('encode', cfg, ty=c.in_ty, val=args), {'ok': doc_to_json(body)})
                # ---- T3: the arguments arrive
                ctx.hit('client:%s:request:%s' % (fam, next(iter(r['outcome']))))
                if r['outcome'] != {'ok': args}:
                    ctx.finding('client:args:%s:%s' % (fam, next(iter(r['outcome']))),
                                'the request the protocol writes for conformant arguments does not hand them to the user function',
                                dict(rep, request=list(req[:400]), observed=r['outcome'], where=r.get('where')))
                    continue
                if got is None:
                    ctx.finding('client:no-response:%s' % fam, 'the response cannot be written: %s' % r.get('where'), rep)
                    continue
                # ---- T2 / T3: what is read
                out = load(cfg['proto'], r['out'])
                if got[0] == 'ok':
                    try:
                        val = {'ok': c.B.from_native(ret_ty, got[1])}
                    except Leak as e:
                        val = {'leak': True}
                else:
                    val = {'crash': got[1]} if got[1] not in ('ValidationError', 'in_error') else {'fault': 'Client'}
                B_rd.add(c.query('readresponse', cfg, ty=ret_ty, doc=doc_to_json(out), method='f'), val)
                ctx.hit('client:%s:response:%s' % (fam, next(iter(val))))
                if val != {'ok': rv}:
                    ctx.finding('client:response:%s:%s' % (fam, next(iter(val))),
                                'the protocol does not read from the response the value the user function returned',
                                dict(rep, response=list(r['out'][:400]), read=val, detail=got[1:] if got[0] == 'exc' else None))
    B_wr.run('hier.client-request')
    B_rd.run('hier.client-response')
    ctx.cov['client_rule'] = ('generated signatures x conformant arguments / results (chunked bytes) through serialize(REQUEST) -> server -> '
                              'deserialize(RESPONSE) of the same protocol object: json / yaml / msgpack with ignore_wrappers=False, MessagePack-RPC '
                              'with both wrapper modes, validator None / soft')


def part_util(ctx, ncases=None):
    """spyne.util.dictdoc: get_object_as_doc / get_doc_as_object (and the deprecated *_dict aliases), get_object_as_json[_doc] /
    json_loads, get_object_as_yaml[_doc] / yaml_loads, get_object_as_msgpack[_doc] -- the public shortcuts to `_object_to_doc` /
    `_doc_to_object`.  T2: the document == the model's `encode`; T3: what the loader returns == the value."""
    from spyne.util import dictdoc as D
    rng = ctx.rng
    ncases = ncases or (40 if ctx.thorough else 10)
    B_enc = Batch(ctx)
    for ci in range(ncases):
        c = Case(rng, nclasses=rng.choice([2, 3, 4]), depth=rng.choice([2, 3]))
        for cd in c.U.classes:
            t = c.U.obj_ty(cd, occ())
            try:
                v = gen_poly_value(rng, t, c.U, p_sub=0.3)
            except Unsat:
                continue
            if v is None or has_none_obj_item(t, v):
                continue
            cls = c.B.classes[cd['name']]
            sub = v['o'][0] != cd['name']
            for iw in (True, False):
                for cas in ('dict', 'list'):
                    if cas == 'list' and (not iw or not fully_populated(v) or sub):
                        continue            # positional lists: fully populated objects of the declared class, no wrappers
                    poly = sub or (not iw and rng.random() < 0.3)
                    if sub and iw:
                        continue            # the class of a subclass instance travels in the wrapper key
                    kw = {'ignore_wrappers': iw, 'complex_as': list if cas == 'list' else dict}
                    inst = c.B.native(t, chunkify(rng, v))
                    if not sub and rng.random() < 0.5:
                        cls_arg = None              # `cls=None`: the class of the instance
                    else:
                        cls_arg = cls
                    rep = {'op': 'util', 'ty': t, 'reg': c.U.registry(), 'val': v, 'iw': iw, 'cas': cas, 'poly': poly}

                    def judge(api, proto, doc, back, rep=rep):
                        cfg = {'proto': proto, 'validator': None, 'iw': iw, 'cas': cas, 'poly': poly}
                        ctx.case({'util': api, 'cfg': cfg_key(cfg), 'ty': t, 'val': v}, True)
                        B_enc.add(c.query('encode', cfg, ty=t, val=v), {'ok': doc_to_json(doc)})
                        ctx.hit('util:%s:%s' % (api, 'same' if back == v else 'differs'))
                        if back != v:
                            ctx.finding('util:%s:roundtrip' % api, 'spyne.util.dictdoc.%s and its loader do not round-trip a conformant instance' % api,
                                        dict(rep, api=api, doc=doc_to_json(doc), back=back if not isinstance(back, str) else back[:300]))

                    def native_back(f):
                        try:
                            return c.B.from_native(t, f())
                        except Leak as e:
                            return 'leak:%s' % e
                        except Exception as e:
                            return 'exception:%r at %s' % (e, crash_site(e))
                    doc = None
                    if not poly:
                        try:
                            doc = D.get_object_as_doc(inst, cls_arg, **kw)
                        except ValueError as e:
                            # the protocol behind get_object_as_doc has no binary encoding: a ByteArray member without an explicit
                            # encoding is refused by design ("Arbitrary binary data can't be serialized to unicode")
                            if 'Arbitrary binary data' not in str(e):
                                raise
                            ctx.hit('util:get_object_as_doc:bytes-without-encoding-refused')
                    if doc is not None:
                        if not iw and cas == 'dict' and isinstance(doc, dict) and list(doc) == [cd['name']] \
                                and isinstance(doc[cd['name']], dict) and list(doc[cd['name']]) == [cd['name']]:
                            ctx.finding('util:get_object_as_doc:double-wrapper',
                                        'get_object_as_doc(ignore_wrappers=False) wraps the document that _object_to_doc already wrapped: '
                                        '{"Cls": {"Cls": {...}}}, which get_doc_as_object does not read back',
                                        dict(rep, api='get_object_as_doc', doc=doc_to_json(doc)))
                            doc = doc[cd['name']]
                        judge('get_object_as_doc', 'json', doc, native_back(lambda: D.get_doc_as_object(doc, cls, **kw)))
                        d2 = D.get_object_as_dict(inst, cls_arg, **kw)
                        if d2 != (doc if iw or cas != 'dict' else {cd['name']: doc}) and d2 != doc:
                            ctx.finding('util:get_object_as_dict:alias', 'the deprecated alias answers differently', dict(rep, doc=doc_to_json(d2)))
                    js = D.get_object_as_json(inst, cls_arg, polymorphic=poly, **kw)
                    judge('get_object_as_json', 'json', json.loads(js.decode('utf8')),
                          native_back(lambda: D.json_loads(js, cls, polymorphic=poly, **kw)))
                    jd = D.get_object_as_json_doc(inst, cls_arg, polymorphic=poly, **kw)
                    if not same_doc(json.loads(json.dumps(jd)), json.loads(js.decode('utf8'))):
                        ctx.finding('util:get_object_as_json_doc:differs', 'get_object_as_json_doc is not the document get_object_as_json writes', rep)
                    ys = D.get_object_as_yaml(inst, cls_arg, polymorphic=poly, **kw)
                    judge('get_object_as_yaml', 'yaml', load('yaml', ys), native_back(lambda: D.yaml_loads(ys, cls, polymorphic=poly, **kw)))
                    if not same_doc(load('yaml', dump('yaml', D.get_object_as_yaml_doc(inst, cls_arg, polymorphic=poly, **kw))), load('yaml', ys)):
                        ctx.finding('util:get_object_as_yaml_doc:differs', 'get_object_as_yaml_doc is not the document get_object_as_yaml writes', rep)
                    ms = D.get_object_as_msgpack(inst, cls_arg, polymorphic=poly, **kw)
                    mcfg = {'proto': 'msgpack', 'validator': None, 'iw': iw, 'cas': cas, 'poly': poly}
                    mdoc = load('msgpack', ms)
                    try:
                        mback = ref_decode(mcfg, t, mdoc, c.U)
                    except (RefError, ValueError, UnicodeDecodeError, binascii.Error) as e:
                        mback = repr(e)
                    judge('get_object_as_msgpack', 'msgpack', mdoc, mback)
                    if not same_doc(load('msgpack', dump('msgpack', D.get_object_as_msgpack_doc(inst, cls_arg, polymorphic=poly, **kw))), mdoc):
                        ctx.finding('util:get_object_as_msgpack_doc:differs', 'get_object_as_msgpack_doc is not the document get_object_as_msgpack writes', rep)
    for fn, empties in ((D.json_loads, (None, '')), (D.yaml_loads, (None, '', b''))):
        for e in empties:
            ctx.case({'util-empty': fn.__name__, 'arg': repr(e)}, True)
            if fn(e, c.B.classes[c.U.classes[0]['name']]) is not None:
                ctx.finding('util:%s:empty-input' % fn.__name__, 'no text is not read as None', {'op': 'util', 'api': fn.__name__, 'arg': repr(e)})
    B_enc.run('hier.util-encode')
    ctx.cov['util_rule'] = ('every class of generated universes x a conformant instance (subclass instances with polymorphic=True) x '
                            'ignore_wrappers x complex_as through the 12 functions of spyne.util.dictdoc')


# ===================================================================================== type attributes outside the shared universe
def _attr_service():
    """echo methods over types that use attributes the shared type universe does not have: Any, AnyDict, File, per-class
    complex_as, simple_field, wrapper, default, exc, bare body style (T3 only)"""
    from spyne import ServiceBase, rpc, ComplexModel, Unicode, Integer, Array, File, Any, AnyDict
    mk = type(ComplexModel)
    Pt = mk('APt', (ComplexModel,), {'__namespace__': TNS, '_type_info': [('x', Integer), ('y', Integer)]})
    PtL = mk('APtL', (ComplexModel,), {'__namespace__': TNS, '_type_info': [('x', Integer), ('y', Integer)],
                                      'Attributes': type('Attributes', (ComplexModel.Attributes,), {'complex_as': list})})
    SF = mk('ASF', (ComplexModel,), {'__namespace__': TNS, '_type_info': [('v', Integer), ('w', Unicode)],
                                    'Attributes': type('Attributes', (ComplexModel.Attributes,), {'simple_field': 'v'})})
    WR = mk('AWR', (ComplexModel,), {'__namespace__': TNS, '_type_info': [('v', Integer)],
                                    'Attributes': type('Attributes', (ComplexModel.Attributes,), {'wrapper': 'wrapped'})})
    DX = mk('ADX', (ComplexModel,), {'__namespace__': TNS, '_type_info': [('dflt', Integer(default=7)), ('e', Unicode(empty_is_none=True)),
                                                                         ('sec', Unicode(exc=True)), ('t', Unicode)]})
    from spyne.model.complex import SelfReference
    Node = mk('ANode', (ComplexModel,), {'__namespace__': TNS, '_type_info': [('name', Unicode), ('next', SelfReference), ('kids', Array(SelfReference))]})
    Pt2 = mk('APt2', (ComplexModel,), {'__namespace__': TNS, '_type_info': [('x', Integer), ('y', Integer)]})
    PtR = type('APtRaises', (Pt2,), {'x': property(lambda self: 1 // 0)})

    def cyc(ctx):
        n = Node(name='a')
        n.next = n
        n.kids = [Node(name='b'), n]
        return n

    def chain(ctx):
        return Node(name='a', next=Node(name='b', next=Node(name='c')), kids=[Node(name='k')])

    def dflt(ctx):
        o = DX(t='t')
        o.dflt = None               # a member that is None is written as its declared default
        return o

    def raiser(ctx):
        o = PtR.__new__(PtR)
        o.__dict__['y'] = 2
        return o
    Box = mk('ABox', (ComplexModel,), {'__namespace__': TNS, '_type_info': [('a', Any), ('d', AnyDict), ('f', File), ('p', Pt), ('pl', PtL), ('t', Unicode)]})
    seen = []

    def mkm(T, name, bare=False):
        def f(ctx, v):
            seen.append(v)
            return v
        f.__name__ = name
        return rpc(T, _returns=T, **({'_body_style': 'bare'} if bare else {}))(f)
    methods = {'any': mkm(Any, 'any'), 'anyd': mkm(AnyDict, 'anyd'), 'file': mkm(File, 'file'), 'ptl': mkm(PtL, 'ptl'),
               'ptc': mkm(Pt.customize(complex_as=list), 'ptc'), 'sf': mkm(SF, 'sf'), 'wr': mkm(WR, 'wr'), 'dx': mkm(DX, 'dx'),
               'box': mkm(Box, 'box'), 'bpt': mkm(Pt, 'bpt', True), 'bl': mkm(Array(Pt), 'bl', True), 'bi': mkm(Integer, 'bi', True),
               'cyc': rpc(_returns=Node)(cyc), 'chain': rpc(_returns=Node)(chain), 'raiser': rpc(_returns=Pt2)(raiser), 'dflt': rpc(_returns=DX)(dflt)}
    return type('AttrSvc', (ServiceBase,), methods), seen


def _attr_run(svc, seen, proto, iw, cas, doc, charset=None):
    from spyne import Application, MethodContext
    from spyne.server import ServerBase
    pc = proto_class(proto)
    kw = dict(ignore_wrappers=iw, complex_as={'dict': dict, 'list': list, 'tuple': tuple}[cas])
    app = Application([svc], TNS, name='AttrApp', in_protocol=pc(validator='soft', **kw), out_protocol=pc(**kw))
    srv = ServerBase(app)
    ic = MethodContext(srv, MethodContext.SERVER)
    data = dump(proto, doc)
    if charset:
        data = data.decode('utf8').encode(charset)
    ic.in_string = [data]
    del seen[:]
    try:
        sc, = srv.generate_contexts(ic, in_string_charset=charset) if charset else srv.generate_contexts(ic)
        if sc.in_error is None:
            srv.get_in_object(sc)
        if sc.in_error is None:
            srv.get_out_object(sc)
        srv.get_out_string(sc)
        out = b''.join(sc.out_string)
        err = sc.in_error or sc.out_error
        if err is not None:
            return {'fault': str(getattr(err, 'faultcode', err))}, repr(seen)
        return {'ok': load(proto, out)}, repr(seen)
    except Exception as e:
        return {'exception': '%s at %s' % (type(e).__name__, crash_site(e))}, repr(seen)


def _destr(d):
    """bytes keys / text of MessagePack documents as str (File data stays bytes when it is no UTF-8)"""
    if isinstance(d, dict):
        return {_destr(k): _destr(v) for k, v in d.items()}
    if isinstance(d, (list, tuple)):
        return [_destr(x) for x in d]
    if isinstance(d, bytes):
        try:
            return d.decode('utf8')
        except UnicodeDecodeError:
            return d
    return d


def part_attrs(ctx):
    """type attributes outside the shared universe, T3 only.  Oracles: (1) the documented effect of the attribute on the result
    document of an echo method; (2) where reading is the inverse of writing, the result document sent back as the argument
    is accepted, answered with the same document, and the user function sees an equal value both times."""
    svc, seen = _attr_service()
    W = lambda iw, name, body: body if iw else {name: body}
    FD = lambda mp: b'he\xffllo' if mp else 'aGX/bGxv'
    OCT = 'application/octet-stream'
    # name -> (method, argument(iw, mp), expected result(iw, mp) | None, read-back where: 'both' / 'iw' / None, wrapper modes)
    scen = {
        'any': ('any', lambda iw, mp: {'k': [1, 'x', None, {'z': 1.5}]}, lambda iw, mp: {'k': [1, 'x', None, {'z': 1.5}]}, 'both', (True, False)),
        'anyd': ('anyd', lambda iw, mp: {'m': 1, 'n': {'o': [True]}}, lambda iw, mp: {'m': 1, 'n': {'o': [True]}}, 'both', (True, False)),
        # File: the object form is written without its FileValue wrapper also when wrappers are kept (known: not read back then)
        'file': ('file', lambda iw, mp: W(iw, 'FileValue', {'name': 'a.txt', 'type': 'text/plain', 'data': FD(mp)}),
                 lambda iw, mp: {'name': 'a.txt', 'type': 'text/plain', 'data': FD(mp)}, 'both', (True, False)),
        'file-plain': ('file', lambda iw, mp: FD(mp), lambda iw, mp: {'type': OCT, 'data': FD(mp)}, 'both', (True, False)),
        'ptl': ('ptl', lambda iw, mp: [3, 4], lambda iw, mp: [3, 4], 'iw', (True,)),                 # class attribute complex_as=list
        'ptc': ('ptc', lambda iw, mp: [5, 6], lambda iw, mp: [5, 6], 'iw', (True,)),                 # customize(complex_as=list)
        'sf': ('sf', lambda iw, mp: W(iw, 'ASF', {'v': 5, 'w': 'a'}), lambda iw, mp: 5, None, (True, False)),       # simple_field: write-only
        'wr': ('wr', lambda iw, mp: W(iw, 'AWR', {'v': 5}), lambda iw, mp: {'wrapped': {'v': 5}}, None, (True, False)),   # wrapper: write-only
        # default written; exc member neither read nor written; empty_is_none: '' is read as None (and then not written)
        'dx': ('dx', lambda iw, mp: W(iw, 'ADX', {'t': 't', 'sec': 's', 'e': ''}), lambda iw, mp: W(iw, 'ADX', {'dflt': 7, 't': 't'}), 'both', (True, False)),
        'box': ('box', lambda iw, mp: {'a': [1, {'q': None}], 'd': {'m': 1}, 'f': {'name': 'n', 'type': 'x/y'}, 'p': {'x': 1, 'y': 2},
                                        'pl': [3, 4], 't': 'T'},
                lambda iw, mp: {'a': [1, {'q': None}], 'd': {'m': 1}, 'f': {'name': 'n', 'type': 'x/y'}, 'p': {'x': 1, 'y': 2}, 'pl': [3, 4], 't': 'T'},
                'iw', (True,)),
        'bpt': ('bpt', lambda iw, mp: {'x': 1, 'y': 2}, lambda iw, mp: W(iw, 'APt', {'x': 1, 'y': 2}), None, (True, False)),
        'bl': ('bl', lambda iw, mp: [{'x': 1, 'y': 2}, {'x': 3, 'y': None}], lambda iw, mp: [{'x': 1, 'y': 2}, {'x': 3}], None, (True,)),
        'bi': ('bi', lambda iw, mp: 5, lambda iw, mp: 5, None, (True, False)),
    }
    bare = ('bpt', 'bl', 'bi')
    n = 0
    for proto in PROTOS:
        mp = proto.startswith('msgpack')
        fam = 'msgpack' if mp else proto
        for name, (method, mkarg, mkexp, readback, modes) in sorted(scen.items()):
            for iw in modes:
                arg = mkarg(iw, mp)

                def request(a):
                    body = a if method in bare else {'v': a}
                    if proto == 'msgpackrpc':
                        return [0, 1, method, body if (iw or method in bare) else {method: body}]
                    return {method: body}

                def result(o):
                    d = _destr(o[3] if proto == 'msgpackrpc' else o)
                    if method in bare:
                        return d
                    if not iw:
                        d = d[method + 'Response']
                    if not iw or proto == 'msgpackrpc':
                        d = d.get(method + 'Result')
                    return d
                wm = 'iw' if iw else 'wrapped'
                rep = {'op': 'attrs', 'scenario': name, 'proto': proto, 'iw': iw, 'request': doc_to_json(request(arg))}
                r1, s1 = _attr_run(svc, seen, proto, iw, 'dict', request(arg))
                n += 1
                ctx.case({'attrs': name, 'proto': proto, 'iw': iw}, True)
                if 'ok' not in r1:
                    ctx.hit('attrs:%s:%s:%s' % (name, fam, next(iter(r1))))
                    fid = ('attrs:bare:msgpackrpc' if method in bare and proto == 'msgpackrpc' else
                           'attrs:bare-primitive:not-served' if name == 'bi' else
                           'attrs:%s:%s:not-served:%s' % (name, wm, next(iter(r1))))
                    ctx.finding(fid, 'a request for an echo method over a type with this attribute is not served: %s' % (r1,), dict(rep, first=r1))
                    continue
                try:
                    back = result(r1['ok'])
                except Exception as e:
                    ctx.finding('attrs:%s:%s:response-shape' % (name, wm), 'the response has no result in the usual place: %r' % e,
                                dict(rep, response=doc_to_json(r1['ok'])))
                    continue
                # ---- (1) documented effect
                exp = _destr(mkexp(iw, mp))
                jn = lambda x: json.loads(json.dumps(x, default=lambda b: list(b)))
                okd = same_doc(jn(back), jn(exp))
                ctx.hit('attrs:%s:%s:%s' % (name, fam, 'as-documented' if okd else 'differs'))
                if not okd:
                    ctx.finding('attrs:%s:%s:result-document' % (name, wm), 'the result document of the echo method is not what the attribute is documented to do',
                                dict(rep, result=jn(back), expected=jn(exp)))
                # ---- (2) reading inverts writing
                if readback == 'both' or (readback == 'iw' and iw):
                    raw = r1['ok'][3] if proto == 'msgpackrpc' else r1['ok']
                    doc_back = raw
                    if method not in bare:
                        if not iw:
                            doc_back = doc_back[next(iter(doc_back))]
                        if not iw or proto == 'msgpackrpc':
                            doc_back = doc_back[next(iter(doc_back))]
                    r2, s2 = _attr_run(svc, seen, proto, iw, 'dict', request(doc_back))
                    n += 1
                    ok = r2 == r1 and s2 == s1
                    ctx.hit('attrs:%s:%s:%s' % (name, fam, 'read-back' if ok else 'not-read-back'))
                    if not ok:
                        ctx.finding('attrs:%s:%s:own-output-not-read-back' % (method, wm),
                                    'the result document the protocol writes for this type is not read back as the same value when it is sent as '
                                    'the argument', dict(rep, first=doc_to_json(r1['ok']), second=r2 if 'ok' not in r2 else doc_to_json(r2['ok']),
                                                         seen_first=s1[:300], seen_second=s2[:300]))
    # ---- results that are not trees / whose members cannot be read
    for proto in PROTOS:
        for method, exp, what in (('cyc', {'name': 'a'}, 'a genuine cycle (an object that is its own member and an item of its own array) is pruned, '
                                                          'the rest is written'),
                                  ('chain', {'name': 'a', 'next': {'name': 'b', 'next': {'name': 'c'}}, 'kids': [{'name': 'k'}]},
                                   'a chain of distinct objects of one self-referencing class is written in full'),
                                  ('dflt', {'dflt': 7, 't': 't'}, 'a member that is None is written as its declared default'),
                                  ('raiser', {'y': 2}, 'a member whose getter raises is written as absent')):
            doc = [0, 1, method, {}] if proto == 'msgpackrpc' else {method: {}}
            r1, _ = _attr_run(svc, seen, proto, True, 'dict', doc)
            n += 1
            ctx.case({'attrs-result': method, 'proto': proto}, True)
            got = _destr(r1['ok'][3] if proto == 'msgpackrpc' and 'ok' in r1 else r1.get('ok')) if 'ok' in r1 else r1
            if proto == 'msgpackrpc' and isinstance(got, dict):
                got = got.get(method + 'Result')
            ctx.hit('attrs:%s:%s' % (method, 'as-documented' if got == exp else 'differs'))
            if got != exp:
                ctx.finding('attrs:result:%s' % method, what + ' -- not so', {'op': 'attrs', 'scenario': method, 'proto': proto,
                                                                            'result': json.loads(json.dumps(got, default=repr)), 'expected': exp})
    # ---- complex_as=tuple: objects are written as sequences of (name, value) pairs
    for proto in ('json', 'msgpack'):
        for method, arg, exp in (('bpt', {'x': 1, 'y': 2}, [['x', 1], ['y', 2]]), ('dx', {'v': {'t': 't'}}, [['dflt', 7], ['t', 't']])):
            r1, _ = _attr_run(svc, seen, proto, True, 'tuple', {method: arg})
            n += 1
            ctx.case({'attrs-tuple': method, 'proto': proto}, True)
            got = _destr(r1.get('ok')) if 'ok' in r1 else r1
            ctx.hit('attrs:tuple:%s:%s' % (method, 'as-documented' if got == exp else 'differs'))
            if got != exp:
                ctx.finding('attrs:tuple:%s' % method, 'complex_as=tuple does not write the object as (name, value) pairs',
                            {'op': 'attrs', 'scenario': 'tuple:' + method, 'proto': proto, 'result': json.loads(json.dumps(got, default=repr)), 'expected': exp})
    # ---- the request charset (json / yaml text in another encoding than UTF-8)
    for proto in ('json', 'yaml'):
        for cs in ('utf-16', 'utf-32', 'latin-1', 'cp1252'):
            text = 'd\u00e9j\u00e0 \u00e7a' if cs in ('latin-1', 'cp1252') else 'd\u00e9j\u00e0 \u4e2d\U0001f600'
            doc = {'dx': {'v': {'t': text}}}
            from spyne.protocol.json import JsonDocument
            data_doc = doc
            r, s_ = None, None
            try:
                import yaml as _y
                raw = (json.dumps(doc, ensure_ascii=False) if proto == 'json' else _y.safe_dump(doc, allow_unicode=True)).encode(cs)
                r, s_ = _attr_run_raw(svc, seen, proto, raw, cs)
            except Exception as e:
                r = {'exception': repr(e)}
            n += 1
            ctx.case({'attrs-charset': cs, 'proto': proto}, True)
            got = _destr(r.get('ok')) if 'ok' in r else None
            ctx.hit('attrs:charset:%s:%s' % (cs, 'ok' if got == {'dflt': 7, 't': text} else 'fail'))
            if got != {'dflt': 7, 't': text}:
                ctx.finding('attrs:charset:%s:%s' % (proto, cs), 'a request body in the declared charset is not read as the text it holds',
                            {'op': 'attrs-charset', 'proto': proto, 'charset': cs, 'text': text, 'observed': r})
    # ---- JsonP: the JSON response inside a call of the callback
    from spyne import Application, MethodContext
    from spyne.server import ServerBase
    from spyne.protocol.json import JsonP, JsonDocument
    for cb in ('cb', 'a.b_c'):
        for enc in ('utf8', None):
            app = Application([svc], TNS, name='AttrApp', in_protocol=JsonDocument(), out_protocol=JsonP(cb))
            srv = ServerBase(app)
            ic = MethodContext(srv, MethodContext.SERVER)
            ic.in_string = [dump('json', {'dx': {'v': {'t': 't\u00e9'}}})]
            sc, = srv.generate_contexts(ic)
            srv.get_in_object(sc)
            srv.get_out_object(sc)
            app.out_protocol.serialize(sc, app.out_protocol.RESPONSE)
            app.out_protocol.create_out_string(sc, enc)
            parts = list(sc.out_string)
            out = b''.join(x if isinstance(x, bytes) else x.encode('utf8') for x in parts)
            n += 1
            ctx.case({'attrs-jsonp': cb, 'enc': enc}, True)
            okp = out.startswith(cb.encode() + b'(') and out.endswith(b');') and \
                json.loads(out[len(cb) + 1:-2].decode('utf8')) == {'dflt': 7, 't': 't\u00e9'} and \
                all(isinstance(x, bytes) == (enc is not None) for x in parts)
            ctx.hit('attrs:jsonp:%s' % ('ok' if okp else 'fail'))
            if not okp:
                ctx.finding('attrs:jsonp', 'JsonP does not write callback(<json response>); in the requested string type',
                            {'op': 'attrs-jsonp', 'callback': cb, 'encoding': enc, 'out': out.decode('utf8', 'replace')[:300]})
    ctx.cov['attrs_T3_only'] = n
    ctx.cov['attrs_rule'] = ('echo methods over Any, AnyDict, File (object and plain form), per-class complex_as=list (class attribute and '
                             'customize), simple_field, wrapper, default + exc members, a box of them, bare body style (object, array, '
                             'primitive) x 4 protocols x ignore_wrappers x complex_as dict / tuple; request charsets utf-16 / utf-32 / latin-1 / cp1252')


def _attr_run_raw(svc, seen, proto, raw, charset):
    from spyne import Application, MethodContext
    from spyne.server import ServerBase
    pc = proto_class(proto)
    app = Application([svc], TNS, name='AttrApp', in_protocol=pc(validator='soft'), out_protocol=pc())
    srv = ServerBase(app)
    ic = MethodContext(srv, MethodContext.SERVER)
    ic.in_string = [raw]
    del seen[:]
    sc, = srv.generate_contexts(ic, in_string_charset=charset)
    if sc.in_error is None:
        srv.get_in_object(sc)
    if sc.in_error is None:
        srv.get_out_object(sc)
    srv.get_out_string(sc)
    err = sc.in_error or sc.out_error
    if err is not None:
        return {'fault': str(getattr(err, 'faultcode', err)) + ': ' + str(getattr(err, 'faultstring', ''))[:200]}, repr(seen)
    return {'ok': load(proto, b''.join(sc.out_string))}, repr(seen)


def probe_client_iw(ctx):
    """ignore_wrappers=True on the client side of json / yaml / msgpack: the request has to name the method"""
    B = Builder()
    impl = Impl(B, {'args': [['a', INT_PLAIN]], 'ret': INT_PLAIN})
    for proto in ('json', 'yaml', 'msgpack'):
        cfg = dict(CFG_DEFAULT, proto=proto, iw=True)
        req, r, got = client_call(impl, cfg, [5], 7)
        ctx.case({'client-iw': proto}, True)
        ok = r['outcome'] == {'ok': {'o': ['f', [['a', {'i': '5'}]]]}} and got == ('ok', 7)
        ctx.hit('client:ignore_wrappers:%s:%s' % (proto, 'ok' if ok else 'fail'))
        if not ok:
            ctx.finding('client:ignore-wrappers-request-without-method-name',
                        'with ignore_wrappers=True the protocol writes a request without the method name (and looks for the stripped '
                        'wrapper in the response): it cannot be used on the client side',
                        {'op': 'client-iw', 'cfg': cfg, 'request': list(req), 'server': r['outcome'], 'client': repr(got)[:200]})


def probe_empty_chunks(ctx):
    """the empty byte string given as an empty sequence of chunks (`[]`, `()`), for base64 / hex / urlsafe members"""
    B = Builder()
    B.register([{'name': 'Blob', 'ns': TNS, 'base': None, 'fields': CHUNK_TY['fields']}])
    impl = Impl(B, {'args': [], 'ret': CHUNK_TY})
    for tup in (False, True):
        rv = {'o': ['Blob', [[n, {'x': [], 'chunks': [], 'tuple': tup}] for n in ('b0', 'b1', 'b2')]]}
        for proto in ('json', 'yaml', 'msgpack'):
            cfg = dict(CFG_DEFAULT, proto=proto)
            doc = {b'f': {}} if proto == 'msgpack' else {'f': {}}
            r = impl.run(cfg, dump(proto, doc), ret=B.native(CHUNK_TY, rv))
            ctx.case({'empty-chunks': proto, 'tuple': tup}, True)
            ok = False
            if not r.get('resp_crash') and r['out'] is not None:
                try:
                    ok = ref_response(cfg, 'f', CHUNK_TY, load(proto, r['out']), None) == strip_ids(rv)
                except (RefError, ValueError):
                    ok = False
            ctx.hit('empty-chunk-sequence:%s:%s' % (proto, 'ok' if ok else 'fail'))
            if not ok:
                ctx.finding('response:crash:bytearray-empty-chunk-sequence',
                            'a ByteArray result that is an empty sequence of chunks (the empty byte string) cannot be written: %s'
                            % (r.get('where') or r.get('resp_crash') or 'response differs'),
                            {'op': 'response', 'cfg': cfg, 'ty': CHUNK_TY, 'returned': rv,
                             'reg': [{'name': 'Blob', 'ns': TNS, 'base': None, 'fields': CHUNK_TY['fields']}], 'where': r.get('where')})


def part_alias(ctx, ncases=None):
    """results that reference one object from several positions: members of one object, slots of one array, cousins.
    T3: the response is the one written for the same value built from distinct objects (control), and it decodes to the
    returned value; T2: the model's guarded encoder on the value with its identities."""
    rng = ctx.rng
    ncases = ncases or (24 if ctx.thorough else 8)
    B_resp = Batch(ctx)
    arg_ty = {'k': 'int', 'kind': 'unbounded', 'r': {}, 'occ': occ()}
    nali = 0
    for ci in range(ncases):
        for _ in range(50):
            U, cd, pair = alias_universe(rng)
            B = Builder()
            try:
                B.register(U.classes)
                break
            except ValueError:
                continue
        B.universe_fields = {c['name']: c['fields'] for c in U.classes}
        rets = [U.obj_ty(pair), {'k': 'arr', 'member': 'm', 'elem': U.obj_ty(cd, occ(True, 0, 1)), 'occ': occ()},
                {'k': 'arr', 'member': 'm', 'elem': U.obj_ty(pair, occ(True, 0, 1)), 'occ': occ()}]
        for ri, ret_ty in enumerate(rets):
            try:
                impl = Impl(B, {'args': [['a0', arg_ty]], 'ret': ret_ty})
                impl.server(CFG_DEFAULT)
            except (ValueError, AssertionError):
                continue
            in_ty = impl.in_ty()
            args = {'o': ['f', [['a0', {'i': '1'}]]]}
            for vi in range(3 if ctx.thorough else 2):
                try:
                    if ret_ty['k'] == 'arr':
                        rv = {'l': [gen_item(rng, ret_ty['elem'], U, 0.0, allow_none=False) for _ in range(rng.choice([2, 3, 4]))]}
                    else:
                        rv = gen_one(rng, ret_ty, U, 0.05)
                        # the sibling positions are populated
                        for i, (n, ft) in enumerate(ret_ty['fields']):
                            if n in ('p1_start', 'p2_end') and rv['o'][1][i][1] is None:
                                rv['o'][1][i][1] = gen_one(rng, ft, U, 0.05)
                            if n in ('p3_items', 'p4_more') and (rv['o'][1][i][1] is None or len(rv['o'][1][i][1]['l']) < 2):
                                it = ft['elem'] if ft['k'] == 'arr' else ft
                                rv['o'][1][i][1] = {'l': [gen_one(rng, it, U, 0.05) for _ in range(rng.choice([2, 3]))]}
                except Unsat:
                    continue
                if rv is None or any(x is None for x in (rv.get('l') or [])):
                    continue
                rva, kind = alias_value(rng, rv, siblings=rng.choice([True, True, None]))
                if rva is None:
                    ctx.hit('alias:no-positions')
                    continue
                rva = chunkify(rng, rva)
                plain = strip_ids(rva)
                nali += 1
                for cfg in (ALL_CFGS if ctx.thorough else rng.sample(ALL_CFGS, 12)):
                    doc = ref_request(cfg, 'f', in_ty, args, U, bytes_keys=cfg['proto'].startswith('msgpack'))
                    data = dump(cfg['proto'], doc)
                    r1 = impl.run(cfg, data, ret=B.native(ret_ty, rva))
                    r0 = impl.run(cfg, data, ret=B.native(ret_ty, plain))
                    fam = 'msgpack' if cfg['proto'].startswith('msgpack') else cfg['proto']
                    ctx.case({'alias': cfg_key(cfg), 'ret': ret_ty, 'val': rva}, True)
                    ctx.hit('alias:%s:%s' % (kind, fam))
                    rep = {'op': 'response', 'cfg': cfg, 'ty': ret_ty, 'returned': rva, 'reg': U.registry(), 'aliasing': kind}
                    if r1.get('resp_crash') or r0.get('resp_crash') or r1['out'] is None or r0['out'] is None:
                        if (r1.get('resp_crash'), r1['out'] is None) != (r0.get('resp_crash'), r0['out'] is None):
                            ctx.finding('response:aliasing-changes-outcome:%s:%s' % (kind, fam),
                                        'a result that references one object twice is answered differently from the same value '
                                        'built from distinct objects', dict(rep, aliased=r1.get('resp_crash') or r1['outcome'],
                                                                             control=r0.get('resp_crash') or r0['outcome']))
                        continue
                    out1, out0 = load(cfg['proto'], r1['out']), load(cfg['proto'], r0['out'])
                    B_resp.add({'op': 'response', 'cfg': cfg, 'reg': U.registry(), 'ty': ret_ty, 'val': rva, 'method': 'f'},
                               {'ok': doc_to_json(out1)})
                    # ---- T3 (control): object identity among siblings does not show in the document
                    if not same_doc(out1, out0):
                        ctx.hit('t3-fail:alias:' + kind)
                        ctx.finding('response:aliasing-changes-document:%s:%s' % (kind, fam),
                                    'the response for a result that references one object from two positions (%s) and / or gives byte '
                                    'values in several chunks differs from the response for the same value built from distinct objects '
                                    'with single-chunk byte values' % kind,
                                    dict(rep, response_doc=doc_to_json(out1), control_doc=doc_to_json(out0)))
                        continue
                    # ---- T3: the response decodes to the returned value
                    try:
                        back = ref_response(cfg, 'f', ret_ty, out1, U)
                        okb, why = back == plain, 'differs'
                    except (RefError, ValueError, UnicodeDecodeError, binascii.Error) as e:
                        okb, back, why = False, repr(e), 'undecodable'
                    if not okb:
                        fid = ('response:none-object-written-as-empty-object' if has_none_obj_item(ret_ty, plain)
                               else 'response:%s:%s' % (why, fam))
                        ctx.hit('t3-fail:' + fid)
                        ctx.finding(fid, 'the response does not decode, by the documented conventions, to the returned value',
                                    dict(rep, decoded=back, response_doc=doc_to_json(out1)))
    B_resp.run('hier.response-aliased')
    ctx.cov['aliased_results'] = nali
    ctx.cov['alias_rule'] = ('results with one object at 2-3 positions (two members of an object, slots of a wrapped array or of a '
                             'repeated member, cousins) x 32 configurations, each against the value-equal control built from '
                             'distinct objects')


def spyne_parses(cfg, data):
    """does the protocol's own create_in_document accept the bytes (msgpack: strict_map_key)?"""
    if cfg['proto'].startswith('msgpack'):
        import msgpack
        try:
            msgpack.unpackb(data)
        except Exception:
            return False
    return True


def part_codec(ctx):
    """T2 of the UTF-8 codec against CPython"""
    rng = ctx.rng
    qs, impl = [], []
    for _ in range(400 if ctx.thorough else 120):
        s = [rng.choice(CHAR_POOL) if rng.random() < 0.6 else rng.randrange(0x110000) for _ in range(rng.choice([0, 1, 2, 5]))]
        s = [c for c in s if not 0xd800 <= c < 0xe000]
        b = list(uncps(s).encode('utf8'))
        qs.append({'op': 'utf8enc', 's': s}); impl.append({'ok': b})
        qs.append({'op': 'utf8dec', 'b': b}); impl.append({'ok': s})
        bb = list(b)
        if bb:
            i = rng.randrange(len(bb))
            bb[i] = rng.choice([0x80, 0xbf, 0xc0, 0xc1, 0xe0, 0xed, 0xf0, 0xf4, 0xf5, 0xff, rng.randrange(256)])
        else:
            bb = [rng.choice([0x80, 0xc0, 0xff])]
        try:
            impl.append({'ok': cps(bytes(bb).decode('utf8'))})
        except UnicodeDecodeError:
            impl.append({'fault': 'Client'})
        qs.append({'op': 'utf8dec', 'b': bb})
    ans = ctx.model(qs, driver='C02')
    for q, i, a in zip(qs, impl, ans):
        ctx.case(q)
        if a != i:
            ctx.disagree('utf8', q, i, a)


# ---- leaf kinds outside the shared Lean vocabulary (Decimal, Double, Uuid): T3 only
def number_foreign(proto):
    """native kinds the parsers of YAML / MessagePack produce that are no numbers: {kind: python document node}"""
    if proto == 'yaml':
        return {'date': pydt.date(2001, 1, 1), 'datetime': pydt.datetime(2001, 1, 1, 2, 3, 4), 'set': {1}, 'bytes': b'12', 'bool': True,
                'list': [1], 'map': {'a': 1}}
    import msgpack
    return {'ext': msgpack.ExtType(5, b'x'), 'timestamp': msgpack.Timestamp(1, 2), 'bytes': b'12', 'bool': True, 'tuple': (1, 2), 'map': {b'a': 1}}


NUM_TYPES = [('Double', {'k': 'dbl', 'occ': occ()}), ('Double(ge=-1e9)', {'k': 'dbl', 'occ': occ(), 'rng': {'ge': {'dbl': '-1000000000.0'}}}),
             ('Decimal', {'k': 'dec', 'occ': occ()}), ('Decimal(le=1e9)', {'k': 'dec', 'occ': occ(), 'rng': {'le': {'dec': '1E+9'}}})]


def number_kind_runs(validators=('soft',)):
    """every number type (plain and customized Double / Decimal) as argument and as nested member x every non-number native
    kind x yaml / msgpack / msgpack-rpc: yields (proto, validator, type label, place, kind, result of Impl.run)"""
    B = Builder()
    box = {'name': 'NumBox', 'ns': TNS, 'base': None, 'fields': [['n%d' % i, t] for i, (_, t) in enumerate(NUM_TYPES)]}
    B.register([box])
    B.universe_fields = {'NumBox': box['fields']}
    impl = Impl(B, {'args': [['a%d' % i, t] for i, (_, t) in enumerate(NUM_TYPES)] + [['box', dict(box, k='obj', occ=occ())]], 'ret': INT_PLAIN})
    for proto in ('yaml', 'msgpack', 'msgpackrpc'):
        mp = proto != 'yaml'
        K = (lambda s_: s_.encode('utf8')) if mp else (lambda s_: s_)
        for validator in validators:
            cfg = dict(CFG_DEFAULT, proto=proto, validator=validator)
            for i, (label, _) in enumerate(NUM_TYPES):
                for kind, node in sorted(number_foreign(proto).items()):
                    for place in ('argument', 'member'):
                        body = {K('a%d' % i): node} if place == 'argument' else {K('box'): {K('n%d' % i): node}}
                        doc = [0, 1, 'f', body] if proto == 'msgpackrpc' else {K('f'): body}
                        yield proto, validator, label, place, kind, cfg, impl.run(cfg, dump(proto, doc))


def _probe_number_kinds():
    """[proto:type:kind] for which, under soft validation, something that is no number reaches user code (or an exception escapes)"""
    bad = set()
    for proto, validator, label, place, kind, cfg, r in number_kind_runs():
        o = r['outcome']
        if 'leak' in o or 'crash' in o:
            bad.add('%s:%s:%s:%s' % (proto, label, kind, 'crash ' + o['crash'] if 'crash' in o else r.get('leak')))
    return sorted(bad)


def part_number_kinds(ctx):
    """Double / Decimal (plain and customized): the native kinds of YAML / MessagePack that are no numbers (T3)"""
    nk = 0
    for proto, validator, label, place, kind, cfg, r in number_kind_runs((None, 'soft')):
        nk += 1
        o = r['outcome']
        kd = next(iter(o))
        ctx.case({'numkind': proto, 'v': validator, 't': label, 'place': place, 'kind': kind}, True)
        ctx.hit('numkind:%s:%s:%s' % (label.split('(')[0], kind, kd))
        if kd == 'crash' or (kd == 'leak' and validator == 'soft'):
            ctx.finding('extra-leaf:number-kind:%s:%s:%s:%s' % ('msgpack' if proto != 'yaml' else proto, label, kind, kd),
                        'a %s node where %s is declared (%s) %s' % (kind, label, place, 'raises %s (%s)' % (o.get('crash'), r.get('where')) if kd == 'crash'
                                                                  else 'reaches user code under soft validation (%s)' % r.get('leak')),
                        {'op': 'numkind', 'proto': proto, 'validator': validator, 'type': label, 'place': place, 'kind': kind,
                         'observed': o, 'leak': r.get('leak'), 'where': r.get('where')})
    ctx.cov['t3_number_kinds'] = nk


def part_t3_extra_leaves(ctx):
    rng = ctx.rng
    part_number_kinds(ctx)
    B = Builder()
    sig = {'args': [['d', {'k': 'dec', 'occ': occ()}], ['x', {'k': 'dbl', 'occ': occ()}], ['u', {'k': 'uuid', 'occ': occ()}],
                    ['i', {'k': 'int', 'kind': 'unbounded', 'r': {}, 'occ': occ()}]],
           'ret': {'k': 'obj', 'name': 'Extra', 'ns': TNS, 'base': None, 'occ': occ(),
                   'fields': [['d', {'k': 'dec', 'occ': occ()}], ['x', {'k': 'dbl', 'occ': occ()}],
                              ['u', {'k': 'uuid', 'occ': occ()}], ['i', {'k': 'int', 'kind': 'unbounded', 'r': {}, 'occ': occ()}]]}}
    impl = Impl(B, sig)
    in_ty = impl.in_ty()
    decs = ['0', '1', '-1', '0.1', '1.10', '123456789012345678901234567890.123456789', '1E+400', '-1E-400', '1E+10', '2.8E+10',
            '0.000001', '79228162514264337593543950335']
    dbls = [0.0, 1.0, -1.5, 1e300, 5e-324, 0.1, 2.0 ** 53 + 2, 123456.789]
    n = 0
    for _ in range(120 if ctx.thorough else 30):
        vals = {'d': {'dec': rng.choice(decs)}, 'x': {'dbl': repr(rng.choice(dbls + [rng.random() * 10 ** rng.randrange(-5, 20)]))},
                'u': {'uuid': '%032x' % rng.getrandbits(128)}, 'i': {'i': str(rng.choice(BIG_INTS))}}
        for k in list(vals):
            if rng.random() < 0.15:
                vals[k] = None
        args = {'o': ['f', [[k, vals[k]] for k in ('d', 'x', 'u', 'i')]]}
        rv = {'o': ['Extra', [[k, vals[k]] for k in ('d', 'x', 'u', 'i')]]}
        nat = B.to_native(sig['ret'], rv)
        for cfg in ALL_CFGS:
            if cfg['cas'] == 'list' and not fully_populated(args):
                continue
            doc = ref_request(cfg, 'f', in_ty, args, None, bytes_keys=cfg['proto'].startswith('msgpack'))
            r = impl.run(cfg, dump(cfg['proto'], doc), ret=nat)
            n += 1
            ctx.case({'extra': cfg_key(cfg), 'args': args})
            fam = 'msgpack' if cfg['proto'].startswith('msgpack') else cfg['proto']
            if r['outcome'] != {'ok': args}:
                bad = [k for (k, a), (_, b) in zip(args['o'][1], (r['outcome'].get('ok') or {'o': [0, [[None, None]] * 4]})['o'][1]) if a != b]
                ctx.finding('extra-leaf:args:%s:%s:%s' % (fam, next(iter(r['outcome'])), ','.join(bad)),
                            'Decimal/Double/Uuid/Integer arguments are not delivered unchanged',
                            {'op': 'extra', 'cfg': cfg, 'args': args, 'observed': r['outcome'], 'where': r.get('where')})
                continue
            try:
                back = ref_response(cfg, 'f', sig['ret'], load(cfg['proto'], r['out']), None)
            except Exception as e:
                back = repr(e)
            if back != rv:
                bad = [k for (k, a), (_, b) in zip(rv['o'][1], back['o'][1]) if a != b] if isinstance(back, dict) else ['*']
                ctx.finding('extra-leaf:response:%s:%s' % (fam, ','.join(bad)),
                            'Decimal/Double/Uuid/Integer results do not decode to the returned value',
                            {'op': 'extra', 'cfg': cfg, 'returned': rv, 'decoded': back})
    # ---- Decimal(total_digits, fraction_digits): values that use every digit, with and without sign and fraction, arrive.
    # (the length guard max_str_len = total_digits + 2 has to leave room for the sign and the separator)
    nd = 0
    for td, fd in ((7, 2), (5, 1), (4, 0), (10, 4), (3, 3), (2, 1), (18, 9)):
        c = FixedCase([['d', {'k': 'dec', 'td': td, 'fd': fd, 'occ': occ()}]])
        ip, top = '9' * (td - fd), '9' * (td - fd) + ('.' + '9' * fd if fd else '')
        rnd = lambda n: ''.join(rng.choice('123456789') for _ in range(n))
        mags = {top, (rnd(td - fd) or '0') + ('.' + rnd(fd) if fd else ''), (ip[:-1] or '0') + ('.' + rnd(fd) if fd else ''),
                (rnd(td - fd) or '0') + ('.' + rnd(max(fd - 1, 0)) if fd > 1 else ''), '1' if td > fd else '0.' + '0' * (fd - 1) + '1', '0'}
        for mag in sorted(mags):
            for sign in ('', '-'):
                v = sign + mag
                if decimal.Decimal(v) == 0 and sign:
                    continue
                args = {'o': ['f', [['d', {'dec': str(decimal.Decimal(v))}]]]}
                for cfg in ALL_CFGS:
                    if cfg['cas'] == 'list':
                        continue
                    doc = ref_request(cfg, 'f', c.in_ty, args, None, bytes_keys=cfg['proto'].startswith('msgpack'))
                    r = c.impl.run(cfg, dump(cfg['proto'], doc))
                    nd += 1
                    fam = 'msgpack' if cfg['proto'].startswith('msgpack') else cfg['proto']
                    ctx.case({'dec-digits': cfg_key(cfg), 'td': td, 'fd': fd, 'v': v}, True)
                    ctx.hit('dec-digits:%s:%s' % ('neg' if sign else 'pos', next(iter(r['outcome']))))
                    if r['outcome'] != {'ok': args}:
                        # (-0.999 for Decimal(3, 3): the leading zero of the canonical form does not fit -- known, see fixes)
                        lead0 = sign and td == fd
                        ctx.finding('extra-leaf:decimal-digits:leading-zero' if lead0 else
                                    'extra-leaf:decimal-digits:%s:%s' % (fam, next(iter(r['outcome']))),
                                    'a Decimal(%d, %d) argument that uses all declared digits (%s) is not delivered' % (td, fd, v),
                                    {'op': 'decdigits', 'cfg': cfg, 'td': td, 'fd': fd, 'value': v, 'observed': r['outcome'],
                                     'where': r.get('where'), 'faultcode': r.get('faultcode')})
    ctx.cov['t3_decimal_digits'] = nd
    # ---- foreign document nodes where a Decimal / Double / Uuid is declared: a client fault, never an internal error,
    # and under soft validation nothing that is not a value of the declared type reaches user code
    nf = 0
    for cfg in ALL_CFGS:
        if cfg['cas'] == 'list':
            continue
        mpk = cfg['proto'].startswith('msgpack')
        K = (lambda s_: s_.encode('utf8')) if mpk else (lambda s_: s_)
        pool = ['x', '', '1e', 'NaN', 'Infinity', '--1', '1.5', [1], [], {K('a'): 1}, {}, True, False, 7, 2.5, -0.0] + ([b'\xff', b'12'] if cfg['proto'] != 'json' else [])
        for arg in ('d', 'x', 'u'):
            for w in pool:
                body = {K(arg): w}
                if not cfg['iw']:
                    body = {K('f'): body}
                doc = [0, 1, 'f', body] if cfg['proto'] == 'msgpackrpc' else ({K('f'): body} if cfg['iw'] else body)
                try:
                    data = dump(cfg['proto'], doc)
                except Exception:
                    continue
                r = impl.run(cfg, data)
                nf += 1
                kind = next(iter(r['outcome']))
                fam = 'msgpack' if mpk else cfg['proto']
                ctx.case({'extra-foreign': cfg_key(cfg), 'arg': arg, 'w': repr(w)}, True)
                ctx.hit('extra-foreign:%s:%s:%s' % (arg, type(w).__name__, kind))
                if kind == 'crash' or (kind == 'leak' and cfg['validator'] == 'soft'):
                    ctx.finding('extra-leaf:foreign:%s:%s:%s:%s' % (fam, arg, kind, r['outcome'].get('crash') or r.get('leak')),
                                'a %s node where a %s is declared %s' % (type(w).__name__, {'d': 'Decimal', 'x': 'Double', 'u': 'Uuid'}[arg],
                                'raises %s (%s)' % (r['outcome'].get('crash'), r.get('where')) if kind == 'crash' else 'reaches user code under soft validation'),
                                {'op': 'extra', 'cfg': cfg, 'doc': doc_to_json(doc), 'observed': r['outcome'], 'where': r.get('where'), 'leak': r.get('leak')})
    ctx.cov['t3_extra_foreign_nodes'] = nf
    # D16: a JSON number where a Decimal is declared
    for cfg in ALL_CFGS:
        if cfg['cas'] == 'list' or not cfg['iw']:
            continue
        key = b'f' if cfg['proto'] == 'msgpack' else 'f'
        body = {'d': 1.5}
        doc = [0, 1, 'f', body] if cfg['proto'] == 'msgpackrpc' else {key: body}
        r = impl.run(cfg, dump(cfg['proto'], doc))
        ctx.case({'d16': cfg_key(cfg)})
        if 'crash' in r['outcome']:
            ctx.finding('D16:number-for-decimal:%s' % r['outcome']['crash'],
                        'a number where a Decimal is declared raises %s (%s) instead of a client fault' % (r['outcome']['crash'], r.get('where')),
                        {'op': 'extra', 'cfg': cfg, 'doc': doc_to_json(doc), 'observed': r['outcome'], 'where': r.get('where')})
    ctx.cov['t3_only_leaf_kinds'] = 'Decimal, Double, Uuid (not in the shared Lean vocabulary): %d requests' % n


def replay(ctx, obj):
    """re-execute one recorded case on the implementation (and on the model where a query is recorded)"""
    print('replay of:', obj.get('what'))
    op = obj.get('op')
    if op == 'probe':
        if obj['fact'] in ('mpBoolPassThrough', 'tableUtf8Fault'):
            bt, bp, ub, bobs = _probe_mp_tables()
            o = {'from_bytes table selected by (raw, use_bin_type)': bt, 'Boolean passed through': bobs, 'undecodable date bytes': ub}
        else:
            o = {'guardPathLocal': _probe_alias, 'bytesJoinBeforeEncode': _probe_chunks, 'retagSubclassChecked': _probe_retag,
                 'notWrappedStrKeys': _probe_not_wrapped, 'notWrappedBytesKeys': _probe_not_wrapped,
                 'nonNumberForNumber': _probe_number_kinds, 'noFreqKeepsValidation': _probe_nofreq,
                 'valuesNullTestIsNone': _probe_values_falsy, 'attrCachesPerInstance': _probe_prot_attrs}.get(obj['fact'], _probe_file)()
        print('witness :', json.dumps(obj.get('witness'))[:600])
        print('impl    :', o)
        print('expected:', obj.get('expected'))
        return 0
    if op == 'witness':
        r, _ = _probe(obj['args'], obj['cfg'], json_to_doc(obj['doc']))
        print('impl  :', r['outcome'], r.get('where'))
        print('measured', obj.get('fact'), '=', obj.get('measured'))
        return 0
    if op in ('request', 'response'):
        B = Builder()
        reg = obj.get('reg') or []
        B.register(reg)
        B.universe_fields = {c['name']: c['fields'] for c in reg}
        cfg = obj['cfg']
        if op == 'request':
            sig = {'args': obj['ty']['fields'], 'ret': {'k': 'int', 'occ': occ()}}
            impl = Impl(B, sig)
            data = dump(cfg['proto'], json_to_doc(obj['doc']))
            r = impl.run(cfg, data)
            print('config:', cfg_key(cfg))
            print('bytes :', data[:400])
            print('impl  :', r['outcome'], r.get('where'))
            body, _ = request_body(cfg, load_as_server(cfg, data))
            mty = file_model_ty(obj['ty'])
            if any(c.get('attrs_of') for c in reg):
                reg = model_registry(reg)
            if mty != obj['ty']:
                # File members: the model reads their object form as the class FileValue (plain-bytes form: T3 only)
                reg = [FILE_VALUE_DEF] + [dict(c, fields=file_model_ty(dict(c, k='obj'))['fields']) for c in reg]
                print('leak  :', r.get('leak'))
            if mty != obj['ty'] and not (obj.get('form') == 'object' and str(obj.get('mutation', '')).split(':')[0] in ('valid', 'member')):
                print('model : (a File node in plain-bytes form / replaced as a whole: outside the model, T3 only)')
            else:
                print('model :', ctx.model([{'op': 'request', 'cfg': cfg, 'reg': reg, 'ty': mty, 'doc': doc_to_json(body)}], driver='C02')[0])
            print('sent  :', obj.get('args'))
        else:
            sig = {'args': [], 'ret': obj['ty']}
            impl = Impl(B, sig)
            doc = [0, 1, 'f', [] if cfg['iw'] else {'f': {}}] if cfg['proto'] == 'msgpackrpc' else {(b'f' if cfg['proto'] == 'msgpack' else 'f'): {}}
            r = impl.run(cfg, dump(cfg['proto'], doc), ret=B.native(obj['ty'], obj['returned']))
            print('returned:', obj['returned'])
            print('impl  :', r.get('resp_crash') or r['outcome'], r.get('out'))
            if strip_ids(obj['returned']) != obj['returned']:
                r0 = impl.run(cfg, dump(cfg['proto'], doc), ret=B.native(obj['ty'], strip_ids(obj['returned'])))
                print('control (same value, distinct objects):', r0.get('resp_crash') or r0['outcome'], r0.get('out'))
            print('model :', ctx.model([{'op': 'response', 'cfg': cfg, 'reg': reg, 'ty': obj['ty'], 'val': obj['returned'],
                                         'method': 'f'}], driver='C02')[0])
        return 0
    if op == 'bytes':
        B = Builder()
        reg = obj.get('reg') or []
        B.register(reg)
        B.universe_fields = {c['name']: c['fields'] for c in reg}
        impl = Impl(B, {'args': obj['args_ty'], 'ret': {'k': 'int', 'occ': occ()}})
        data = bytes(obj['data'])
        cfg = obj['cfg']
        r = impl.run(cfg, data)
        print('request bytes:', data[:200])
        print('ServerBase :', r['outcome'], r.get('where') or r.get('faultcode'), 'calls=%d' % r['calls'])
        code, body, exc, calls, where = wsgi_call(impl, cfg, data)
        print('WSGI       : status=%s exception=%s calls=%d faultcode=%r' % (code, exc, calls, fault_code_of(cfg, body) if body else None))
        p = parse_like_spyne(cfg, data)
        if 'doc' in p:
            try:
                p = {'doc': doc_to_json(p['doc'])}
            except RecursionError:
                p = None
        if p is not None:
            print('model      :', ctx.model([{'op': 'server', 'cfg': cfg, 'reg': reg, 'ty': impl.in_ty(), 'parsed': p}], driver='C02')[0])
        return 0
    if op == 'extra':
        B = Builder()
        impl = Impl(B, {'args': [['d', {'k': 'dec', 'occ': occ()}], ['x', {'k': 'dbl', 'occ': occ()}], ['u', {'k': 'uuid', 'occ': occ()}],
                                 ['i', {'k': 'int', 'kind': 'unbounded', 'r': {}, 'occ': occ()}]], 'ret': {'k': 'int', 'occ': occ()}})
        cfg = obj['cfg']
        doc = json_to_doc(obj['doc']) if obj.get('doc') else ref_request(cfg, 'f', impl.in_ty(), obj['args'], None,
                                                                           bytes_keys=cfg['proto'].startswith('msgpack'))
        r = impl.run(cfg, dump(cfg['proto'], doc))
        print('impl  :', r['outcome'], r.get('where'))
        return 0
    if op == 'history':
        def strip(x):
            if isinstance(x, dict):
                return {k: strip(v) for k, v in x.items()}
            if isinstance(x, list):
                return [strip(v) for v in x if not (isinstance(v, list) and len(v) == 2 and v[0] == 'zz_appended')]
            return x
        reg0 = [strip(c) for c in obj['reg'] if c['name'] != 'Late']
        B = Builder()
        B.register(reg0)
        B.universe_fields = {c['name']: c['fields'] for c in obj['reg']}
        impl = Impl(B, {'args': strip(obj['ty'])['fields'], 'ret': {'k': 'int', 'occ': occ()}})
        cfg = obj['cfg']
        mp = cfg['proto'].startswith('msgpack')
        K = (lambda n: n.encode('utf8')) if mp else (lambda n: n)
        warm = {K('one'): {K(obj['base']): {}}}
        warm = [0, 1, 'f', {K('f'): warm}] if cfg['proto'] == 'msgpackrpc' else {K('f'): warm}
        print('1. warm   :', impl.run(cfg, dump(cfg['proto'], warm))['outcome'])
        B.obj_class(dict(strip(obj['late']), k='obj'))
        print('2. defined: class Late(%s)' % obj['base'])
        if obj['step'] == 'member-appended-late':
            from spyne.model.primitive import Unicode
            B.classes[obj['base']].append_field('zz_appended', Unicode)
            print('3. %s.append_field("zz_appended", Unicode)' % obj['base'])
        data = dump(cfg['proto'], json_to_doc(obj['doc']))
        r = impl.run(cfg, data)
        print('request  :', data[:300])
        print('impl     :', json.dumps(r['outcome'])[:300], r.get('where') or '', r.get('faultcode') or '')
        body, _ = request_body(cfg, load(cfg['proto'], data))
        print('model    :', json.dumps(ctx.model([{'op': 'request', 'cfg': cfg, 'reg': obj['reg'], 'ty': obj['ty'], 'doc': doc_to_json(body)}], driver='C02')[0])[:300])
        return 0
    if op == 'attrs' and obj.get('request') is not None:
        svc, seen = _attr_service()
        r, sn = _attr_run(svc, seen, obj['proto'], obj.get('iw', True), 'dict', json_to_doc(obj['request']))
        print('scenario:', obj.get('scenario'), obj['proto'], 'ignore_wrappers=%s' % obj.get('iw', True))
        print('request :', dump(obj['proto'], json_to_doc(obj['request']))[:300])
        print('impl    :', r if 'ok' not in r else dump(obj['proto'], r['ok'])[:300])
        print('function saw:', sn[:300])
        for k in ('expected', 'result', 'second'):
            if k in obj:
                print('%-8s:' % k, json.dumps(obj[k])[:300])
        return 0
    if op == 'client':
        B = Builder()
        reg = obj.get('reg') or []
        B.register(reg)
        B.universe_fields = {c['name']: c['fields'] for c in reg}
        sig = {'args': obj['ty']['fields'], 'ret': obj['ret_ty']}
        impl = Impl(B, sig)
        cfg = obj['cfg']
        args_nat = [B.native(t, v) for (_, t), (_, v) in zip(sig['args'], obj['args']['o'][1])]
        req, r, got = client_call(impl, cfg, args_nat, B.native(obj['ret_ty'], obj['returned']))
        print('config  :', cfg_key(cfg))
        print('request written by the protocol:', req[:400])
        print('server  :', json.dumps(r['outcome'])[:400], r.get('where') or '')
        print('response:', (r['out'] or b'')[:300])
        print('client read:', got if got is None or got[0] == 'exc' else B.from_native(obj['ret_ty'], got[1]))
        print('passed  :', json.dumps(obj['args'])[:300], '| returned:', json.dumps(obj['returned'])[:200])
        return 0
    if op == 'util':
        from spyne.util import dictdoc as D
        B = Builder()
        reg = obj.get('reg') or []
        B.register(reg)
        B.universe_fields = {c['name']: c['fields'] for c in reg}
        t = obj['ty']
        cls = B.classes[t['name']]
        inst = B.native(t, obj['val'])
        kw = {'ignore_wrappers': obj['iw'], 'complex_as': list if obj['cas'] == 'list' else dict}
        api = obj.get('api', 'get_object_as_json')
        print('value   :', json.dumps(obj['val'])[:300])
        fn = getattr(D, api)
        args = kw if api in ('get_object_as_doc', 'get_object_as_dict') else dict(kw, polymorphic=obj.get('poly', False))
        out = fn(inst, cls, **args)
        print('%s(..., %s):' % (api, args), out if not isinstance(out, bytes) else out[:400])
        print('recorded:', json.dumps(obj.get('back'))[:300])
        return 0
    if op == 'numkind':
        for proto, validator, label, place, kind, cfg, r in number_kind_runs((obj['validator'],)):
            if (proto, label, place, kind) == (obj['proto'], obj['type'], obj['place'], obj['kind']):
                print('f(%s ...), %s validator=%s: a %s node as %s' % (label, proto, validator, kind, place))
                print('node   :', repr(number_foreign(proto)[kind]))
                print('impl   :', r['outcome'], r.get('leak') or '', r.get('where') or '')
        return 0
    if op == 'decdigits':
        c = FixedCase([['d', {'k': 'dec', 'td': obj['td'], 'fd': obj['fd'], 'occ': occ()}]])
        cfg = obj['cfg']
        args = {'o': ['f', [['d', {'dec': str(decimal.Decimal(obj['value']))}]]]}
        data = dump(cfg['proto'], ref_request(cfg, 'f', c.in_ty, args, None, bytes_keys=cfg['proto'].startswith('msgpack')))
        r = c.impl.run(cfg, data)
        print('type   : Decimal(%d, %d)' % (obj['td'], obj['fd']))
        print('request:', data[:200])
        print('impl   :', r['outcome'], r.get('faultcode') or '', r.get('where') or '')
        return 0
    if op == 'range':
        c = FixedCase([['v', obj['ty']]])
        cfg = obj['cfg']
        r = c.impl.run(cfg, dump(cfg['proto'], json_to_doc(obj['doc'])))
        print('type   :', obj['ty'])
        print('value  :', obj['value'], '(UTC instant %s)' % _instant(obj['value']['dt']) if obj['value'] and 'dt' in obj['value'] else '')
        print('bytes  :', dump(cfg['proto'], json_to_doc(obj['doc']))[:300])
        print('impl   :', r['outcome'], r.get('where'))
        print('conforms (python oracle):', obj.get('expected_conforms') if obj['ty'].get('vals') is not None else range_ok(obj['ty'], obj['value']))
        return 0
    if op == 'verdicts':
        print('verdicts per configuration (recorded):', obj.get('verdicts'))
        print('python conforms:', conforms(obj['ty'], obj['args']))
        print('lean conforms  :', ctx.model([{'op': 'conforms', 'ty': obj['ty'], 'val': obj['args']}], driver='C02')[0])
        return 0
    if obj.get('query'):
        print('model :', ctx.model([obj['query']], driver='C02')[0])
    print(json.dumps(obj, default=str)[:2000])
    return 0


# ===================================================================================== C04 (dict-document side)
def retags(doc, names, path=()):
    """every way of renaming a single-key mapping node's key to a class name of the interface / wrapping an
    object or list node into {ClassName: node}: [(path, new_node)]"""
    out = []
    if isinstance(doc, dict):
        if len(doc) == 1:
            (k, v), = doc.items()
            for n in names:
                nk = n.encode('utf8') if isinstance(k, bytes) else n
                if nk != k:
                    out.append((path, {nk: v}))
        for n in names[:2]:
            out.append((path, {n: doc}))
        for k, v in doc.items():
            out += retags(v, names, path + (k,))
    elif isinstance(doc, list):
        for n in names[:1]:
            out.append((path, {n: doc}))
        for i, v in enumerate(doc):
            out += retags(v, names, path + (i,))
    return out


def part_c04(ctx):
    """C04: type-directed mutation of valid requests (retagging wrapper keys with every class of the interface,
    swapping scalars / mappings / lists); T3 = the types of the argument tree captured in the user function;
    T2 = model vs implementation on the same documents."""
    load_known(ctx)
    rng = ctx.rng
    B_mut = Batch(ctx)
    nleak = 0
    for ci in range(100 if ctx.thorough else 24):
        # (every third universe: classes with validate_freq=False wherever they are used)
        # (no inheritance there: a subclass selected by a wrapper key is the class itself, not the customized occurrence, and
        # its own validate_freq applies -- the model attaches the flag to the class name)
        c = Case(rng, nclasses=rng.choice([3, 4, 5]), depth=3, inherit=ci % 3 != 2, nf_p=0.5 if ci % 3 == 2 else 0.0)
        names = [cd['name'] for cd in c.U.classes] + ['f', 'Nope']
        for vi in range(2):
            args = c.gen_args(none_p=0.1)
            if args is None:
                continue
            for cfg in ALL_CFGS + MP_EXTRA_CFGS:
                if cfg['cas'] == 'list' and (not fully_populated(args) or rng.random() < 0.5):
                    continue
                bk = cfg['proto'].startswith('msgpack')
                doc0 = ref_request(cfg, 'f', c.in_ty, args, c.U, bytes_keys=bk)
                muts = []
                rt = retags(doc0, names)
                rng.shuffle(rt)
                for path, node in rt[:6 if ctx.thorough else 3]:
                    muts.append((set_at(deep(doc0), path, deep(node)), 'retag'))
                for _ in range(3 if ctx.thorough else 2):
                    d, tag = mutate_doc(rng, doc0, cfg['proto'], names)
                    muts.append((d, tag))
                for doc, tag in muts:
                    try:
                        data = dump(cfg['proto'], doc)
                        parsed = load_as_server(cfg, data)
                    except Exception:
                        continue
                    body, ok = request_body(cfg, parsed)
                    if not ok or not modelled_doc(body, c.in_ty) or not spyne_parses(cfg, data):
                        ctx.hit('c04:outside-model')
                        continue
                    r = c.impl.run(cfg, data)
                    kind = next(iter(r['outcome']))
                    ctx.case({'c04': cfg_key(cfg), 'ty': c.in_ty, 'doc': doc_to_json(body)})
                    ctx.hit('c04:%s:%s:%s' % (tag, 'soft' if cfg['validator'] else 'none', kind))
                    B_mut.add(c.query('request', cfg, ty=c.in_ty, doc=doc_to_json(body)), r['outcome'])
                    if cfg['validator'] == 'soft' and kind == 'leak':
                        nleak += 1
                        fam = 'msgpack' if cfg['proto'].startswith('msgpack') else cfg['proto']
                        ctx.finding('c04:leak:%s:%s' % (fam, r.get('leak', '?')),
                                    'user code received a node that is not a value of the declared type (%s)' % r.get('leak'),
                                    {'op': 'request', 'cfg': cfg, 'ty': c.in_ty, 'reg': c.U.registry(), 'doc': doc_to_json(doc),
                                     'observed': r['outcome'], 'leak': r.get('leak')})
    B_mut.run('hier.request-retagged')
    part_c04_attrs(ctx)
    part_c04_nofreq(ctx)
    part_number_kinds(ctx)
    part_c04_leaves(ctx)
    part_c04_file(ctx)
    ctx.cov['c04_hier_rule'] = ('valid requests of generated signatures with inheritance x 32 configurations, each retagged with '
                                'class names of the interface at every wrapper position and mutated by kind swaps; the oracle '
                                'walks the captured argument tree (isinstance of the declared native type / class / subclass)')
    ctx.cov['c04_hier_leaks_under_soft'] = nleak


def part_c04_attrs(ctx):
    """wrapper retagging in a universe where the subclass list of the declared class holds unrelated classes: X's Attributes
    class derives from D.Attributes (D <- S1 <- S2), so X.get_subclasses() lists S1 and S2. Every wrapper position is retagged
    with every class name; T3 = the captured arguments are instances of the declared classes (an `obj:` leak counts under any
    validator), T2 = the model with a placeholder subclass for X (see model_registry)."""
    rng = ctx.rng
    B_at = Batch(ctx)
    classes = attrs_universe()
    by = {c['name']: c for c in classes}
    oty = lambda n, o=None: dict({k: v for k, v in by[n].items() if k != 'attrs_of'}, k='obj', occ=o or occ())
    holder = {'name': 'AHolder', 'ns': TNS, 'base': None,
              'fields': [['h0_d', oty('D')], ['h1_x', oty('X')], ['h2_xs', {'k': 'arr', 'member': 'm', 'elem': oty('X', occ(True, 0, 1)), 'occ': occ()}]]}
    classes = classes + [holder]
    by['AHolder'] = holder
    U = Universe.__new__(Universe)
    U.rng, U.classes, U.by_name, U.facets, U.rep, U.kinds = rng, classes, by, False, True, None
    B = Builder()
    B.register(classes)
    B.universe_fields = {c['name']: c['fields'] for c in classes}
    sig = {'args': [['a_d', oty('D')], ['b_x', oty('X')], ['c_xs', holder['fields'][2][1]], ['d_hold', oty('AHolder')]],
           'ret': {'k': 'int', 'occ': occ()}}
    impl = Impl(B, sig)
    in_ty = impl.in_ty()
    reg = model_registry(classes)
    names = ['S1', 'S2', 'D', 'Y', 'X', 'Nope']
    nleak = 0
    for vi in range(6 if ctx.thorough else 2):
        x = lambda: gen_one(rng, oty('X'), U, 0.0)
        d = lambda: gen_poly_value(rng, oty('D'), U)
        args = {'o': ['f', [['a_d', d()], ['b_x', x()], ['c_xs', {'l': [x() for _ in range(rng.choice([1, 2]))]}],
                            ['d_hold', {'o': ['AHolder', [['h0_d', d()], ['h1_x', x()], ['h2_xs', {'l': [x()]}]]]}]]]}
        for proto in PROTOS:
            for validator in (None, 'soft'):
                cfg = {'proto': proto, 'validator': validator, 'iw': False, 'cas': 'dict', 'poly': rng.random() < 0.5}
                mp = proto.startswith('msgpack')
                doc0 = ref_request(cfg, 'f', in_ty, args, U, bytes_keys=mp)
                rt = retags(doc0, names)
                rng.shuffle(rt)
                muts = [(doc0, 'valid')] + [(set_at(deep(doc0), path, deep(node)), 'retag') for path, node in rt[:40 if ctx.thorough else 24]]
                # a subclass of D with its own members where X is declared (what a client of D would send)
                s1 = ref_encode(cfg, oty('D'), gen_one(rng, oty('S1'), U, 0.0), U, bytes_keys=mp)
                for path in [p_ for p_ in paths(doc0) if isinstance(get_at(doc0, p_), dict) and len(get_at(doc0, p_)) == 1
                             and next(iter(get_at(doc0, p_))) in ('X', b'X')]:
                    muts.append((set_at(deep(doc0), path, deep(s1)), 'foreign-subclass'))
                for doc, tag in muts:
                    try:
                        data = dump(proto, doc)
                        parsed = load(proto, data)
                    except Exception:
                        continue
                    r = impl.run(cfg, data)
                    kind = next(iter(r['outcome']))
                    fam = 'msgpack' if mp else proto
                    ctx.case({'c04attrs': cfg_key(cfg), 'doc': doc_to_json(parsed)}, True)
                    ctx.hit('c04:attrs:%s:%s' % (tag, kind))
                    body, ok = request_body(cfg, parsed)
                    if ok and spyne_parses(cfg, data):
                        B_at.add({'op': 'request', 'cfg': cfg, 'reg': reg, 'ty': in_ty, 'doc': doc_to_json(body)}, r['outcome'])
                    if kind == 'leak' and (validator == 'soft' or r.get('leak', '').startswith('obj:')):
                        nleak += 1
                        ctx.finding('c04:leak:%s:wrapper-key:%s' % (fam, r.get('leak', '?')),
                                    'a wrapper key made user code receive an instance that is not of the declared class (%s)' % r.get('leak'),
                                    {'op': 'request', 'cfg': cfg, 'ty': in_ty, 'reg': classes, 'doc': doc_to_json(doc),
                                     'observed': r['outcome'], 'leak': r.get('leak'), 'mutation': tag})
    B_at.run('hier.request-attrs')
    ctx.cov['c04_attrs_leaks'] = nleak
    ctx.cov['c04_attrs_rule'] = ('D <- S1 <- S2, Y, X with `class Attributes(D.Attributes)`; f(D, X, Array(X), Holder{D, X, Array(X)}), '
                                 'ignore_wrappers=False x 4 protocols x validator: every wrapper position retagged with every class name, '
                                 'X positions replaced by a whole S1 document')


def part_c04_nofreq(ctx):
    """a class with validate_freq=False (`novalidate_freq()`, the `self` of @mrpc methods) as argument, array item and nested
    member: every leaf position below it x foreign document nodes / facet violations x the soft configurations. The
    occurrence check of that class is skipped (model: `Cfg.noFreq`), everything else is validated."""
    rng = ctx.rng
    B_nf = Batch(ctx)
    nleak = 0
    acct = {k: v for k, v in NF_ACCOUNT.items()}
    classes = [{'name': t['name'], 'ns': TNS, 'base': None, 'fields': t['fields']} for t in (NF_INNER, NF_ACCOUNT)]
    holder = {'name': 'NfHolder', 'ns': TNS, 'base': None, 'fields': [['acct', acct], ['accts', {'k': 'arr', 'member': 'm', 'elem': dict(acct, occ=occ(True, 0, 1)), 'occ': occ()}]]}
    classes.append(holder)
    B = Builder()
    B.register(classes)
    B.universe_fields = {c['name']: c['fields'] for c in classes}
    impl = Impl(B, {'args': [['hold', dict(holder, k='obj', occ=occ())], ['self', acct]], 'ret': INT_PLAIN})
    in_ty = impl.in_ty()
    cfgs = [dict(c, nofreq=['NfAccount']) for c in ALL_CFGS + MP_EXTRA_CFGS if c['validator'] == 'soft' and c['cas'] == 'dict']
    good = lambda: {'inner': {'s': 'in'}, 'n': 7, 'owner': 'abc', 'tags': ['a', 'b']}
    for cfg in cfgs:
        mp = cfg['proto'].startswith('msgpack')

        def enc(d):             # str keys -> the key kind of the protocol; wrappers where they are kept
            if isinstance(d, dict):
                return {(k.encode('utf8') if mp else k): enc(v) for k, v in d.items()}
            if isinstance(d, list):
                return [enc(x) for x in d]
            return d
        W = (lambda n, b: b) if cfg['iw'] else (lambda n, b: {n: b})
        mk = lambda a: W('NfAccount', dict(a, inner=W('NfInner', a['inner'])) if 'inner' in a else a)
        pool = [5, 0, 2.5, True, ['x'], [], {'a': 1}, {}, 'waytoolong', 300, -1, 'x', '']
        for place in ('self', 'hold.acct', 'hold.accts[0]'):
            for member in ('owner', 'n', 'inner.s', 'tags[1]', 'tags', 'absent:tags', 'absent:owner'):
                for w in ([None] if member.startswith('absent') else pool):
                    a = good()
                    if member == 'owner':
                        a['owner'] = w
                    elif member == 'n':
                        a['n'] = w
                    elif member == 'inner.s':
                        a['inner'] = {'s': w}
                    elif member == 'tags[1]':
                        a['tags'] = ['a', w]
                    elif member == 'tags':
                        a['tags'] = ['a', 'b', 'c', 'd', 'e'] if w == 5 else (['a'] if w == 0 else w)
                    else:
                        del a[member.split(':')[1]]
                    body = {'self': mk(good()), 'hold': W('NfHolder', {'acct': mk(good()), 'accts': [mk(good())]})}
                    if place == 'self':
                        body['self'] = mk(a)
                    elif place == 'hold.acct':
                        body['hold'] = W('NfHolder', {'acct': mk(a), 'accts': [mk(good())]})
                    else:
                        body['hold'] = W('NfHolder', {'acct': mk(good()), 'accts': [mk(a)]})
                    body = W('f', body)
                    doc = enc([0, 1, 'f', body] if cfg['proto'] == 'msgpackrpc' else {'f': body} if cfg['iw'] else body)
                    if cfg['proto'] == 'msgpackrpc':
                        doc[2] = 'f'
                    try:
                        data = dump(cfg['proto'], doc)
                        parsed = load_as_server(cfg, data)
                    except Exception:
                        continue
                    r = impl.run(cfg, data)
                    kind = next(iter(r['outcome']))
                    fam = 'msgpack' if mp else cfg['proto']
                    ctx.case({'c04nofreq': cfg_key(cfg), 'place': place, 'member': member, 'w': repr(w)}, True)
                    ctx.hit('c04:nofreq:%s:%s' % (member.split('[')[0].split(':')[0], kind))
                    pb, okb = request_body(cfg, parsed)
                    if okb and spyne_parses(cfg, data):
                        B_nf.add({'op': 'request', 'cfg': cfg, 'reg': classes, 'ty': in_ty, 'doc': doc_to_json(pb)}, r['outcome'])
                    if kind == 'leak':
                        nleak += 1
                        ctx.finding('c04:leak:nofreq:%s:%s' % (fam, r.get('leak', '?')),
                                    'below a class with validate_freq=False user code received a node that is not a value of the declared type (%s)' % r.get('leak'),
                                    {'op': 'request', 'cfg': cfg, 'ty': in_ty, 'reg': classes, 'doc': doc_to_json(doc), 'observed': r['outcome'],
                                     'leak': r.get('leak'), 'place': place, 'member': member})
    B_nf.run('hier.request-nofreq')
    ctx.cov['c04_nofreq_leaks_under_soft'] = nleak


def part_c04_leaves(ctx):
    """every leaf kind x every foreign document kind x the soft-validating configurations incl. the MessagePack
    constructor matrix (raw, use_bin_type), at an argument, an array item and a nested member"""
    rng = ctx.rng
    B_leaf = Batch(ctx)
    nleak = 0
    cfgs = [c for c in ALL_CFGS + MP_EXTRA_CFGS if c['validator'] == 'soft' and c['cas'] == 'dict']
    variants = [(k, None) for k in LEAF_KINDS] + [('int', ik) for ik in ('unbounded', 'i64', 'u64', 'i32')]
    for kind, ikind in variants:
        lt = gen_leaf(rng, kind, occ(), facets=False)
        if ikind:
            lt = dict(lt, kind=ikind, r={})          # directed: the integer kinds whose range reaches 2**53 (and one that does not)
        box = {'name': 'Box', 'ns': TNS, 'base': None, 'fields': [['v', lt]]}
        B = Builder()
        B.register([box])
        B.universe_fields = {'Box': box['fields']}
        sig = {'args': [['a', lt], ['arr', {'k': 'arr', 'member': 'm', 'elem': lt, 'occ': occ()}], ['box', dict(box, k='obj', occ=occ())]],
               'ret': {'k': 'int', 'occ': occ()}}
        impl = Impl(B, sig)
        in_ty = impl.in_ty()

        class _U:
            classes, by_name = [box], {'Box': box}

            def registry(self):
                return [box]
        U = _U()
        for cfg in cfgs:
            mp = cfg['proto'].startswith('msgpack')
            K = (lambda n: n.encode('utf8')) if mp else (lambda n: n)
            good = [gen_one(rng, lt, U, 0.0) for _ in range(3)]
            args = {'o': ['f', [['a', good[0]], ['arr', {'l': [good[1]]}], ['box', {'o': ['Box', [['v', good[2]]]]}]]]}
            doc0 = ref_request(cfg, 'f', in_ty, args, U, bytes_keys=mp)
            root = (3,) if cfg['proto'] == 'msgpackrpc' else (K('f'),)
            if cfg['proto'] == 'msgpackrpc' and not cfg['iw']:
                root += (K('f'),)
            places = [root + (K('a'),), root + (K('arr'), 0), root + (K('box'),) + (() if cfg['iw'] else (K('Box'),)) + (K('v'),)]
            pool = ['x', '', '1', 5, 0, 1, 2.5, 1.0, True, [1], [], {K('a'): 1}, {}, b'abc' if cfg['proto'] != 'json' else 'abc',
                    b'\xff\xfe' if cfg['proto'] != 'json' else '\ud7ff']
            if ikind:
                pool = BIG_FLOATS + [-(2.0 ** 63), 2.0 ** 64, 1e300, -0.0]      # integral floats at and beyond 2**53
            for w in pool:
                place = rng.choice(places)
                try:
                    doc = set_at(deep(doc0), place, w)
                    data = dump(cfg['proto'], doc)
                    parsed = load_as_server(cfg, data)
                except Exception:
                    continue
                r = impl.run(cfg, data)
                kindo = next(iter(r['outcome']))
                fam = 'msgpack' if mp else cfg['proto']
                ctx.case({'c04leaf': cfg_key(cfg), 'kind': kind, 'doc': doc_to_json(parsed)}, True)
                ctx.hit('c04:leaf:%s:%s:%s' % (kind + (':' + ikind if ikind else ''), type(w).__name__, kindo))
                body, ok = request_body(cfg, parsed)
                if ok and modelled_doc(body, in_ty) and spyne_parses(cfg, data):
                    B_leaf.add({'op': 'request', 'cfg': cfg, 'reg': [box], 'ty': in_ty, 'doc': doc_to_json(body)}, r['outcome'])
                if kindo == 'leak':
                    nleak += 1
                    opts = '' if mp_opts(cfg) == (False, True) else ':raw=%s,use_bin_type=%s' % mp_opts(cfg)
                    ctx.finding('c04:leak:%s%s:%s' % (fam, opts, r.get('leak', '?')),
                                'user code received a node that is not a value of the declared type (%s)' % r.get('leak'),
                                {'op': 'request', 'cfg': cfg, 'ty': in_ty, 'reg': [box], 'doc': doc_to_json(doc),
                                 'observed': r['outcome'], 'leak': r.get('leak')})
    B_leaf.run('hier.request-leaves')
    ctx.cov['c04_leaf_matrix_leaks_under_soft'] = nleak
    ctx.cov['c04_leaf_matrix_rule'] = ('9 leaf kinds x 15 foreign document nodes x {argument, array item, nested member} x 14 soft '
                                       'configurations (4 protocols x wrappers + MessagePack(raw, use_bin_type) in all 4 settings)')


# ---- File (outside the shared type universe: T3 on the real pipeline, T2 for the object form through `FileValue`)
FILE_VALUE_DEF = {'name': 'FileValue', 'ns': 'spyne.model.binary', 'base': None,
                  'fields': [['name', STR_PLAIN], ['type', STR_PLAIN], ['data', {'k': 'bytes', 'enc': 'base64', 'occ': occ()}]]}


def file_model_ty(t):
    """the model's view of a signature with File members: the object form of a File is the class FileValue read by the
    same `_doc_to_object` (lean/SpyneModel/HierFile.lean)"""
    k = t['k']
    if k == 'file':
        return dict(FILE_VALUE_DEF, k='obj', occ=t.get('occ') or occ())
    if k == 'obj':
        return dict(t, fields=[[n, file_model_ty(ft)] for n, ft in t['fields']])
    if k == 'arr':
        return dict(t, elem=file_model_ty(t['elem']))
    return t


def gen_file_value(rng):
    return {'name': rng.choice([None, 'a.txt', 'a.txt', '\u00e9.bin', 'x']), 'type': rng.choice([None, 'text/plain', 'text/plain', 'a/b']),
            'data': rng.choice([None, b'', b'hello', bytes([0, 255, 128, 10])])}


def file_node(rng, cfg, fv, form, bk):
    """the document node for a File value: `plain` = the encoded bytes alone, `object` = the members of File.Value
    (always with a `type` entry, see part_c04_file). Returns (node, {member: path inside the node})"""
    mp = cfg['proto'].startswith('msgpack')
    K = (lambda n: n.encode('utf8')) if bk else (lambda n: n)
    T = (lambda x: None if x is None else x.encode('utf8')) if (mp and bk) else (lambda x: x)
    D = (lambda b: b) if mp else (lambda b: None if b is None else base64.b64encode(b).decode('ascii'))
    if form == 'plain':
        return D(fv['data'] or b''), {}
    members = [('name', T(fv['name'])), ('type', T(fv['type'] or 'text/plain')), ('data', D(fv['data']))]
    if cfg['cas'] == 'list':
        return [v for _, v in members], {n: (i,) for i, (n, _) in enumerate(members)}
    body = {K(n): v for n, v in members if v is not None or n == 'type'}
    where = {n: (K(n),) for n, v in members if K(n) in body}
    if cfg['iw']:
        return body, where
    return {K('FileValue'): body}, {n: (K('FileValue'),) + p for n, p in where.items()}


def file_pool(rng, proto):
    pool = [5, 0, True, False, 1.5, 'txt', '', ['a.txt'], [1], [], {}, {'a': 1}, {'name': 5}, None, [[b'x' if proto != 'json' else 'x']]]
    if proto != 'json':
        pool += [b'\xff\xfe', b'abc']
    return pool


def part_c04_file(ctx):
    """File arguments and members (plain-bytes form and object form) under type-directed mutation.
    T3: the captured argument tree is walked incl. File.Value.name / type / data (declared Unicode, Unicode, ByteArray);
    T2: requests whose File nodes are in object form, read by the model as objects of class FileValue."""
    rng = ctx.rng
    B_file = Batch(ctx)
    nleak = nruns = 0
    upload = {'name': 'Upload', 'ns': TNS, 'base': None,
              'fields': [['attachment', {'k': 'file', 'occ': occ()}], ['more', {'k': 'file', 'occ': occ(True, 0, None)}],
                         ['title', STR_PLAIN]]}
    for ci in range(6 if ctx.thorough else 2):
        B = Builder()
        B.register([upload])
        B.universe_fields = {'Upload': upload['fields']}
        f_occ = occ(rng.random() < 0.7, rng.choice([0, 0, 1]), 1)
        sig = {'args': [['f', {'k': 'file', 'occ': f_occ}], ['u', dict(upload, k='obj', occ=occ())]], 'ret': {'k': 'int', 'occ': occ()}}
        impl = Impl(B, sig)
        in_ty = impl.in_ty()
        m_ty = file_model_ty(in_ty)
        reg = [FILE_VALUE_DEF, dict(upload, fields=file_model_ty(dict(upload, k='obj'))['fields'])]
        names = ['FileValue', 'Upload', 'f']
        for cfg in ALL_CFGS:
            mp = cfg['proto'].startswith('msgpack')
            bk = mp
            K = (lambda n: n.encode('utf8')) if bk else (lambda n: n)
            for form in ('object', 'plain', 'mixed'):
                forms = [form if form != 'mixed' else rng.choice(['object', 'plain']) for _ in range(4)]
                nodes = [file_node(rng, cfg, gen_file_value(rng), fm, bk) for fm in forms]
                title = 't\u00e9' if not (mp and bk) else 't\u00e9'.encode('utf8')
                # ---- the request document and the places of its File nodes / File members
                if cfg['cas'] == 'list':
                    u_body = [nodes[1][0], [nodes[2][0], nodes[3][0]], title]
                    u_paths = [(0,), (1, 0), (1, 1)]
                    u_doc = u_body
                    body = [nodes[0][0], u_doc]
                    places = [(0,)] + [(1,) + q for q in u_paths]
                else:
                    u_body = {K('attachment'): nodes[1][0], K('more'): [nodes[2][0], nodes[3][0]], K('title'): title}
                    u_paths = [(K('attachment'),), (K('more'), 0), (K('more'), 1)]
                    if cfg['iw']:
                        u_doc = u_body
                    else:
                        u_doc, u_paths = {K('Upload'): u_body}, [(K('Upload'),) + q for q in u_paths]
                    body = {K('f'): nodes[0][0], K('u'): u_doc}
                    places = [(K('f'),)] + [(K('u'),) + q for q in u_paths]
                if cfg['proto'] == 'msgpackrpc':
                    doc0, root = [0, 1, 'f', body if cfg['iw'] else {K('f'): body}], (3,) if cfg['iw'] else (3, K('f'))
                else:
                    doc0, root = {K('f'): body}, (K('f'),)
                muts = [(doc0, 'valid', form == 'object')]
                pool = file_pool(rng, cfg['proto'])
                for _ in range(8 if ctx.thorough else 5):
                    i = rng.randrange(4)
                    place = root + places[i]
                    if forms[i] == 'object' and rng.random() < 0.75:
                        member = rng.choice(sorted(nodes[i][1]))
                        d = set_at(deep(doc0), place + nodes[i][1][member], rng.choice(pool))
                        muts.append((d, 'member:' + member, form == 'object'))
                    else:
                        muts.append((set_at(deep(doc0), place, rng.choice(pool)), 'node', False))
                for _ in range(2):
                    d, tag = mutate_doc(rng, doc0, cfg['proto'], names)
                    muts.append((d, 'any:' + tag, False))
                for doc, tag, modelled in muts:
                    try:
                        data = dump(cfg['proto'], doc)
                        parsed = load(cfg['proto'], data)
                    except Exception:
                        continue
                    if not spyne_parses(cfg, data):
                        continue
                    r = impl.run(cfg, data)
                    nruns += 1
                    kind = next(iter(r['outcome']))
                    fam = 'msgpack' if mp else cfg['proto']
                    ctx.case({'c04file': cfg_key(cfg), 'doc': doc_to_json(parsed)}, True)
                    ctx.hit('c04:file:%s:%s:%s:%s' % (form, tag.split(':')[0], 'soft' if cfg['validator'] else 'none', kind))
                    if tag == 'valid' and kind != 'ok':
                        ctx.hit('c04:file:valid-not-delivered:%s:%s' % (fam, kind))
                    pbody, okb = request_body(cfg, parsed)
                    if modelled and okb and modelled_doc(pbody, m_ty):
                        B_file.add({'op': 'request', 'cfg': cfg, 'reg': reg, 'ty': m_ty, 'doc': doc_to_json(pbody)}, r['outcome'])
                    if cfg['validator'] == 'soft' and kind == 'leak':
                        nleak += 1
                        what = r.get('leak', '?')
                        ctx.finding('c04:leak:file:%s:%s' % (fam, what),
                                    'user code received a File.Value whose attribute is not a value of its declared type (%s)' % what,
                                    {'op': 'request', 'cfg': cfg, 'ty': in_ty, 'reg': [upload], 'doc': doc_to_json(doc),
                                     'observed': r['outcome'], 'leak': what, 'mutation': tag, 'form': form})
    B_file.run('hier.request-file')
    ctx.cov['c04_file_rule'] = ('f(File, Upload{attachment: File, more: File*, title}) x 32 configurations x {object form, plain-bytes '
                                'form, mixed} x replacements of a File node / of a name, type, data member by every document kind, plus '
                                'generic mutations; the oracle walks the captured arguments incl. File.Value.name / type / data')
    ctx.cov['c04_file_runs'] = nruns
    ctx.cov['c04_file_leaks_under_soft'] = nleak


# ===================================================================================== C05 (dict-document side)
STR_EDGES = [('lf', lambda s: s + [10]), ('crlf', lambda s: s + [13, 10]), ('lf2', lambda s: s + [10, 10]), ('lead-sp', lambda s: [32] + s),
             ('lead-lf', lambda s: [10] + s), ('nul', lambda s: s[:1] + [0] + s[1:]), ('trail-sp', lambda s: s + [32]),
             ('trail-nul', lambda s: s + [0])]


def str_edge(rng, t, s, which=None):
    """a member of the facet (conformant text) with a line feed / CR LF / blank / NUL around or inside it: what anchoring
    and length bugs let through (`re.match('(?:p)$', 'abc\\n')` matches). Whether the result conforms is for `conforms` to say."""
    name, f = which or rng.choice(STR_EDGES)
    base = list(s)
    mx = t.get('maxLen')
    if mx is not None and len(base) >= mx and len(base) > max(t.get('minLen') or 0, (t.get('pattern') or {}).get('min', 0)):
        base = base[:-1]            # leave room, so that it is not the length facet that rejects
    return {'s': f(base)}, 'str-edge:' + name


def violate(rng, t, v, field=True):
    """one local change that breaks exactly one declared constraint somewhere in the value; None if no change
    applies at the chosen place. Returns (value, what)."""
    o = t.get('occ') or occ()
    if field and is_rep(o):
        choices = []
        if v is not None and 'l' in v:
            n = len(v['l'])
            if o['max'] is not None:
                choices.append('over')
            if o['min'] > 0:
                choices.append('under')
            if n > 0:
                choices.append('item')
        elif v is None and o['min'] == 0:
            return None
        if not choices:
            return None
        ch = rng.choice(choices)
        if ch == 'over':
            extra = [gen_item(rng, t, None, 0.0) for _ in range(o['max'] + rng.choice([1, 2]) - len(v['l']))]
            return {'l': v['l'] + extra}, 'max_occurs'
        if ch == 'under':
            return {'l': v['l'][:o['min'] - 1]}, 'min_occurs'
        i = rng.randrange(len(v['l']))
        r = violate(rng, t, v['l'][i], field=False)
        if r is None:
            return None
        return {'l': v['l'][:i] + [r[0]] + v['l'][i + 1:]}, r[1]
    if v is None:
        return None
    k = t['k']
    if k == 'int':
        lo, hi = int_bounds(t)
        cands = ([lo - 1] if lo is not None else []) + ([hi + 1] if hi is not None else [])
        if not cands:
            return None
        return {'i': str(rng.choice(cands))}, 'int-range'
    if k == 'str':
        s = list(v['s'])
        opts = []
        if t.get('maxLen') is not None and not t.get('values'):
            opts.append('long')
        if (t.get('minLen') or 0) > 0 and not t.get('values'):
            opts.append('short')
        if t.get('pattern'):
            opts.append('pattern')
        if t.get('values'):
            opts.append('values')
        if not opts:
            return None
        opts += ['edge', 'edge']
        ch = rng.choice(opts)
        if ch == 'edge':
            return str_edge(rng, t, s)
        if ch == 'long':
            pool = [c for lo, hi in t['pattern']['ranges'] for c in range(lo, hi + 1)] if t.get('pattern') else [120]
            return {'s': s + [rng.choice(pool)] * (t['maxLen'] + 1 - len(s))}, 'max_len'
        if ch == 'short':
            return {'s': s[:t['minLen'] - 1]}, 'min_len'
        if ch == 'pattern':
            bad = 33
            while any(lo <= bad <= hi for lo, hi in t['pattern']['ranges']):
                bad += 1
            return {'s': ([bad] + s[1:]) if s else [bad]}, 'pattern'
        if [] not in [list(x) for x in t['values']] and rng.random() < 0.5:
            return {'s': []}, 'values-falsy'            # the empty string: falsy, not null, not in the enumeration
        return {'s': cps('not-a-value')}, 'values'
    if k == 'date':
        return {'date': rng.choice([[2021, 2, 29], [2020, 13, 1], [2020, 0, 10], [2020, 4, 31], [0, 1, 1]])}, 'date-lexical'
    if k == 'time':
        return {'time': rng.choice([[24, 0, 0, 0], [12, 60, 0, 0], [12, 0, 60, 0]])}, 'time-lexical'
    if k == 'dt':
        return {'dt': rng.choice([[2021, 2, 29, 0, 0, 0, 0, None], [2020, 1, 1, 24, 0, 0, 0, 0]])}, 'datetime-lexical'
    if k == 'enum':
        return {'e': cps('nosuchmember')}, 'enum'
    if k == 'obj':
        idx = list(range(len(t['fields'])))
        rng.shuffle(idx)
        for i in idx:
            n, ft = t['fields'][i]
            fo = ft.get('occ') or occ()
            fv = v['o'][1][i][1]
            if fv is None:
                continue
            choices = ['deep']
            if not (fo['min'] == 0 or (fo['nillable'] and not is_rep(fo))):
                choices.append('drop')
            ch = rng.choice(choices)
            if ch == 'drop':
                nv, what = None, 'required-member-null'
            else:
                r = violate(rng, ft, fv)
                if r is None:
                    continue
                nv, what = r
            fvs = [list(x) for x in v['o'][1]]
            fvs[i][1] = nv
            return {'o': [v['o'][0], fvs]}, what
        return None
    if k == 'arr':
        if not v['l']:
            return None
        i = rng.randrange(len(v['l']))
        x = v['l'][i]
        if x is None:
            return None
        if not (t['elem'].get('occ') or occ())['nillable'] and rng.random() < 0.3:
            return {'l': v['l'][:i] + [None] + v['l'][i + 1:]}, 'item-null'
        r = violate(rng, dict(t['elem']), x, field=False)
        if r is None:
            return None
        return {'l': v['l'][:i] + [r[0]] + v['l'][i + 1:]}, r[1]
    return None


C05_CFGS = [{'proto': p, 'validator': 'soft', 'iw': iw, 'cas': 'dict', 'poly': False}
            for p in PROTOS for iw in (True, False)]


def only_kinds(t, kinds):
    k = t['k']
    if k == 'obj':
        return all(only_kinds(ft, kinds) for _, ft in t['fields'])
    if k == 'arr':
        return only_kinds(t['elem'], kinds)
    return k in kinds


def text_as_bin(d):
    """the MessagePack spelling MessagePackDocument itself writes: every text value as bin"""
    if isinstance(d, str):
        return d.encode('utf8')
    if isinstance(d, list):
        return [text_as_bin(x) for x in d]
    if isinstance(d, dict):
        return {k: text_as_bin(v) for k, v in d.items()}
    return d


def c05_verdicts(ctx, c, args, what, B_req, B_conf):
    """send one logical request through every soft-validating configuration; compare the verdict with `conforms`"""
    expected = conforms(c.in_ty, args)
    B_conf.add({'op': 'conforms', 'ty': c.in_ty, 'val': args}, {'ok': expected})
    verdicts = {}
    binok = only_kinds(c.in_ty, ('int', 'bool', 'str', 'bytes'))
    extra = [dict(x, _extra=True) for x in MP_EXTRA_CFGS if x['validator'] == 'soft']
    # positional form (complex_as=list, wrappers ignored) for fully populated argument tuples
    pos = [dict(x, cas='list') for x in C05_CFGS if x['iw']] if fully_populated(args) else []
    for cfg0 in C05_CFGS + pos + extra + ([dict(x, _bin=True) for x in C05_CFGS + extra if x['proto'].startswith('msgpack')] if binok else []):
        cfg = {k: v for k, v in cfg0.items() if k not in ('_bin', '_extra')}
        doc = ref_request(cfg, 'f', c.in_ty, args, c.U, bytes_keys=cfg['proto'].startswith('msgpack'))
        if cfg0.get('_bin'):
            # text as bin, the way MessagePackDocument writes it (method name of msgpack-rpc stays text)
            doc = [doc[0], doc[1], doc[2], text_as_bin(doc[3])] if cfg['proto'] == 'msgpackrpc' else text_as_bin(doc)
        try:
            data = dump(cfg['proto'], doc)
        except Exception:
            continue
        r = c.impl.run(cfg, data)
        parsed = load_as_server(cfg, data)
        body, _ = request_body(cfg, parsed)
        B_req.add(c.query('request', cfg, ty=c.in_ty, doc=doc_to_json(body)), r['outcome'])
        kind = next(iter(r['outcome']))
        accepted = kind in ('ok', 'leak')
        if getattr(c.U, 'nf', None) and what in ('max_occurs', 'min_occurs'):
            # classes with validate_freq=False skip exactly this check for their own members: T2 only
            ctx.hit('c05:nofreq-universe:occurrence-violation:%s' % kind)
            continue
        if cfg0.get('_extra'):
            # non-default (raw, use_bin_type): what such a server can read at all differs (raw=True hands MessagePackRpc
            # every str as bytes; only the from_bytes table reads dates from bytes), so only one direction is judged here:
            # nothing non-conformant is accepted. T2 compares every outcome.
            ctx.case({'c05': cfg_key(cfg), 'bin': bool(cfg0.get('_bin')), 'ty': c.in_ty, 'args': args})
            ctx.hit('c05:mp-options:%s:%s' % ('conf' if expected else 'nonconf', kind))
            if accepted and not expected:
                ctx.finding('c05:accepted-nonconformant:%s:msgpack-options' % (what or 'conformant'),
                            'soft validation of a MessagePack protocol constructed with raw=%s, use_bin_type=%s accepts a value that '
                            'violates the declared constraints (%s)' % (cfg['raw'], cfg['bin'], what),
                            {'op': 'request', 'cfg': cfg, 'ty': c.in_ty, 'reg': c.U.registry(), 'args': args,
                             'doc': doc_to_json(doc), 'observed': r['outcome'], 'expected_conforms': expected})
            continue
        verdicts[cfg_key(cfg) + (bool(cfg0.get('_bin')),)] = accepted
        ctx.case({'c05': cfg_key(cfg), 'bin': bool(cfg0.get('_bin')), 'ty': c.in_ty, 'args': args})
        ctx.hit('c05:%s:%s:%s' % (what or 'conformant', 'conf' if expected else 'nonconf', kind))
        fam = 'msgpack' if cfg['proto'].startswith('msgpack') else cfg['proto']
        if kind == 'crash':
            ctx.hit('c05:crash-seen')     # C10's concern
            continue
        if accepted != expected:
            fid = 'c05:%s:%s:%s' % ('accepted-nonconformant' if accepted else 'rejected-conformant', what or 'conformant', fam)
            ctx.finding(fid, 'soft validation verdict differs from the declared constraints (%s)' % (what or 'conformant value'),
                        {'op': 'request', 'cfg': cfg, 'ty': c.in_ty, 'reg': c.U.registry(), 'args': args,
                         'doc': doc_to_json(doc), 'observed': r['outcome'], 'expected_conforms': expected})
        elif accepted and r['outcome'] != {'ok': args}:
            ctx.finding('c05:accepted-with-other-values:%s' % fam, 'accepted, but the user function got other values',
                        {'op': 'request', 'cfg': cfg, 'ty': c.in_ty, 'reg': c.U.registry(), 'args': args,
                         'doc': doc_to_json(doc), 'observed': r['outcome']})
    if len(set(verdicts.values())) > 1:
        ctx.finding('c05:cross-protocol:%s' % (what or 'conformant'), 'the verdict for the same logical request differs between '
                    'json / yaml / msgpack / msgpack-rpc or wrapper modes',
                    {'op': 'verdicts', 'ty': c.in_ty, 'reg': c.U.registry(), 'args': args, 'verdicts': {str(k): v for k, v in verdicts.items()}})


def part_c05(ctx):
    """C05: soft verdict == declared constraints, on / just inside / just outside every boundary, same over
    json / yaml / msgpack / msgpack-rpc; python `conforms` diffed against the Lean one."""
    load_known(ctx)
    rng = ctx.rng
    B_req, B_conf = Batch(ctx), Batch(ctx)
    for ci in range(120 if ctx.thorough else 30):
        c = Case(rng, nclasses=rng.choice([2, 3]), depth=3, inherit=False, nf_p=0.6 if ci % 3 == 2 else 0.0)
        for vi in range(3):
            args = c.gen_args(none_p=rng.choice([0.0, 0.2]))
            if args is None:
                continue
            c05_verdicts(ctx, c, args, None, B_req, B_conf)
            part_c05_absent(ctx, c, args, B_req)
            for _ in range(4):
                r = violate(rng, c.in_ty, args, field=False)
                if r is None:
                    continue
                bad, what = r
                c05_verdicts(ctx, c, bad, what, B_req, B_conf)
    # ---- exhaustive small domains: 8-bit integers, 16-bit boundaries, occurrence counts 0 .. max+2
    for kind in ('i8', 'u8', 'i16', 'u16'):
        lo, hi = KIND_RANGE[kind]
        vals = range(lo - 3, hi + 4) if kind in ('i8', 'u8') else [lo - 2, lo - 1, lo, lo + 1, -1, 0, 1, hi - 1, hi, hi + 1, hi + 2]
        c = FixedCase([['n', {'k': 'int', 'kind': kind, 'r': {}, 'occ': occ(False, 1, 1)}]])
        for i in vals:
            c05_verdicts(ctx, c, {'o': ['f', [['n', {'i': str(i)}]]]}, 'int-range' if not lo <= i <= hi else None, B_req, B_conf)
    ctx.cov['exhaustive_parts'] = 'Integer8 / UnsignedInteger8: every value of the range and 3 beyond on each side; 16-bit: boundaries +-2'
    for mn, mx in ((0, 2), (1, 3), (2, 2), (0, None), (2, None)):
        c = FixedCase([['m', {'k': 'int', 'kind': 'i32', 'r': {}, 'occ': occ(True, mn, mx)}]])
        top = (mx if mx is not None else mn + 1) + 2
        for n in range(0, top + 1):
            v = {'l': [{'i': str(j)} for j in range(n)]}
            c05_verdicts(ctx, c, {'o': ['f', [['m', v]]]}, 'occurs', B_req, B_conf)
        c05_verdicts(ctx, c, {'o': ['f', [['m', None]]]}, 'occurs', B_req, B_conf)
    # ---- every Unicode facet x every edge form of a member (systematic; the random violations above draw from the same set)
    str_types = [dict(STR_PLAIN, pattern={'ranges': [[97, 122]], 'min': 1, 'max': None}),
                 dict(STR_PLAIN, pattern={'ranges': [[97, 99], [95, 95]], 'min': 0, 'max': 4}),
                 dict(STR_PLAIN, pattern={'ranges': [[97, 122]], 'min': 1, 'max': None}, maxLen=5),
                 dict(STR_PLAIN, values=[cps('abc'), cps('b')]),
                 dict(STR_PLAIN, minLen=1, maxLen=4),
                 dict(STR_PLAIN, minLen=3, maxLen=None)]
    for st in str_types + [dict(x, _nillable=True) for x in str_types]:
        nil = st.pop('_nillable', False)
        c = FixedCase([['s', dict(st, occ=occ(True, 0, 1) if nil else occ(False, 1, 1))]])
        # the falsy value of the kind: not null, and (for these facets) not a member unless the bounds allow the empty string
        c05_verdicts(ctx, c, {'o': ['f', [['s', {'s': []}]]]}, 'values-falsy' if st.get('values') else 'str-empty', B_req, B_conf)
        for member in (cps('abc'), cps('b')):
            c05_verdicts(ctx, c, {'o': ['f', [['s', {'s': member}]]]}, None, B_req, B_conf)
            for e in STR_EDGES:
                v, what = str_edge(rng, st, member, e)
                c05_verdicts(ctx, c, {'o': ['f', [['s', v]]]}, what, B_req, B_conf)
    B_req.run('hier.request-c05')
    B_conf.run('hier.conforms')
    part_c05_ranges(ctx)
    # ---- non-interference (T3): the verdict of a protocol does not depend on which other protocol instance used the type first
    bad = _probe_prot_attrs()
    ctx.case({'c05-prot-attrs': 'history'}, True)
    ctx.hit('c05:prot-attrs:%s' % ('independent' if not bad else 'interference'))
    for k, v in sorted(bad.items()):
        ctx.finding('c05:prot-attrs-interference:%s' % k.replace(' ', '-'),
                    'soft validation of a type with per-protocol attributes (pa=) gives another verdict after an instance of another protocol '
                    'has used the type: %s' % (v,), {'op': 'probe', 'fact': 'attrCachesPerInstance', 'witness': k, 'observed': v,
                                                     'expected': 'fault, with or without the other protocol instance'})
    ctx.cov['c05_hier_rule'] = ('conformant values and single-facet violations (range, length, pattern, enumeration, occurrence, '
                                'nullability, lexical form) at every nesting position x json/yaml/msgpack/msgpack-rpc x wrapper modes, '
                                'soft validation; oracle = python re-statement of `conforms`, diffed against the Lean definition')


# ---- range facets of Date / Time / DateTime / Decimal / Double: T3 only, outside the Lean universe
def _instant(a):
    """UTC instant of a `dt` value [y, m, d, h, mi, s, us, tz-minutes | None]; naive = LOCAL_TZ = UTC"""
    return pydt.datetime(*a[:7]) - pydt.timedelta(minutes=a[7] or 0)


def _dt_at(instant, tz):
    """the `dt` value for the UTC instant, written with the given offset (None = naive)"""
    loc = instant + pydt.timedelta(minutes=tz or 0)
    return {'dt': [loc.year, loc.month, loc.day, loc.hour, loc.minute, loc.second, loc.microsecond, tz]}


def range_key(k, v):
    if k == 'date':
        return tuple(v['date'])
    if k == 'time':
        return tuple(v['time'])
    if k == 'dt':
        return _instant(v['dt'])
    if k == 'dec':
        return decimal.Decimal(v['dec'])
    return float(v['dbl'])


def range_ok(t, v):
    """the meaning of ge / gt / le / lt: comparison of dates, times of day, INSTANTS, numbers"""
    x = range_key(t['k'], v)
    for f, b in (t.get('rng') or {}).items():
        y = range_key(t['k'], b)
        if not {'ge': x >= y, 'gt': x > y, 'le': x <= y, 'lt': x < y}[f]:
            return False
    return True


def _around(k, b, rng):
    """values on / just inside / just outside the bound `b`"""
    if k == 'date':
        d0 = pydt.date(*b['date'])
        return [{'date': [d.year, d.month, d.day]} for d in (d0 + pydt.timedelta(days=n) for n in (-400, -1, 0, 1, 31))]
    if k == 'time':
        t0 = pydt.datetime(2000, 1, 1, *b['time'])
        out = []
        for us in (-3600 * 10 ** 6, -10 ** 6, -1, 0, 1, 10 ** 6, 3600 * 10 ** 6):
            x = t0 + pydt.timedelta(microseconds=us)
            if x.date() == t0.date():
                out.append({'time': [x.hour, x.minute, x.second, x.microsecond]})
        return out
    if k == 'dt':
        i0 = _instant(b['dt'])
        out = []
        for us in (-86400 * 10 ** 6, -1800 * 10 ** 6, -10 ** 6, -1, 0, 1, 10 ** 6, 1800 * 10 ** 6, 86400 * 10 ** 6):
            for tz in rng.sample([None, 0, 300, -300, 60, -60, 840, -720, 330], 4):
                out.append(_dt_at(i0 + pydt.timedelta(microseconds=us), tz))
        return out
    if k == 'dec':
        d0 = decimal.Decimal(b['dec'])
        return [{'dec': str(d0 + decimal.Decimal(x))} for x in ('-1', '-0.001', '0', '0.001', '1', '1E+20')]
    f0 = float(b['dbl'])
    return [{'dbl': repr(x)} for x in (f0 - 1.0, f0 - 1e-9 * max(1.0, abs(f0)), f0, f0 + 1e-9 * max(1.0, abs(f0)), f0 + 1.0)]


def part_c05_ranges(ctx):
    """ge / gt / le / lt on Date, Time, DateTime, Decimal, Double (the shared PrimTy has range facets for integers only):
    soft verdict vs `range_ok` on / just inside / just outside every bound; DateTime bounds and values are instants written
    with assorted UTC offsets (and naive = UTC). (Duration declares no range facets in spyne.)"""
    rng = ctx.rng
    bases = {'date': [{'date': [2020, 1, 1]}, {'date': [2024, 2, 29]}],
             'time': [{'time': [12, 0, 0, 0]}, {'time': [23, 59, 59, 0]}, {'time': [0, 0, 1, 0]}],
             'dt': [{'dt': [2020, 1, 1, 0, 0, 0, 0, 0]}, {'dt': [2021, 6, 30, 23, 30, 0, 0, 300]}, {'dt': [2019, 12, 31, 22, 0, 0, 500000, -120]}],
             'dec': [{'dec': '0'}, {'dec': '10.5'}, {'dec': '-1E+3'}],
             'dbl': [{'dbl': '0.0'}, {'dbl': '2.5'}, {'dbl': '-1000.0'}]}
    n = nbad = 0
    for k in ('date', 'time', 'dt', 'dec', 'dbl'):
        for b in bases[k]:
            for facets in (('ge',), ('gt',), ('le',), ('lt',), ('ge', 'lt'), ('gt', 'le')):
                if len(facets) == 2:
                    hi = _around(k, b, rng)[-1]
                    if k == 'dt' and hi['dt'][7] is None:
                        # bounds are declared as aware datetimes (like spyne's own defaults): an aware value cannot be
                        # compared with a naive bound at all
                        hi = _dt_at(_instant(hi['dt']), 0)
                    t = {'k': k, 'occ': occ(False, 1, 1), 'rng': {facets[0]: b, facets[1]: hi}}
                    vals = _around(k, b, rng) + _around(k, hi, rng)
                else:
                    t = {'k': k, 'occ': occ(False, 1, 1), 'rng': {facets[0]: b}}
                    vals = _around(k, b, rng)
                try:
                    c = FixedCase([['v', t]])
                    c.impl.server(CFG_DEFAULT)
                except (ValueError, AssertionError, TypeError):
                    ctx.hit('c05:range:type-refused:' + k)
                    continue
                for v in vals:
                    expected = range_ok(t, v)
                    args = {'o': ['f', [['v', v]]]}
                    for cfg in C05_CFGS:
                        doc = ref_request(cfg, 'f', c.in_ty, args, None, bytes_keys=cfg['proto'].startswith('msgpack'))
                        r = c.impl.run(cfg, dump(cfg['proto'], doc))
                        kind = next(iter(r['outcome']))
                        n += 1
                        ctx.case({'c05range': cfg_key(cfg), 'ty': t, 'v': v}, True)
                        ctx.hit('c05:range:%s:%s:%s' % (k, 'in' if expected else 'out', kind))
                        if kind == 'crash':
                            continue
                        accepted = kind in ('ok', 'leak')
                        if accepted != expected:
                            nbad += 1
                            fam = 'msgpack' if cfg['proto'].startswith('msgpack') else cfg['proto']
                            ctx.finding('c05:%s:range:%s:%s' % ('accepted-nonconformant' if accepted else 'rejected-conformant', k, fam),
                                        'soft validation verdict differs from the declared %s bound(s) of a %s member'
                                        % ('/'.join(facets), {'dt': 'DateTime (compared as instants)', 'date': 'Date', 'time': 'Time',
                                                              'dec': 'Decimal', 'dbl': 'Double'}[k]),
                                        {'op': 'range', 'cfg': cfg, 'ty': t, 'value': v, 'expected_conforms': expected,
                                         'observed': r['outcome'], 'doc': doc_to_json(doc)})
    # ---- `values` enumerations on numbers and booleans (the shared PrimTy has them on strings only): members, non-members,
    # the falsy non-member of the kind, null; nillable and not
    for t0, members, others in (({'k': 'int', 'kind': 'unbounded', 'r': {}, 'vals': ['1', '2', '5']}, [{'i': '1'}, {'i': '5'}], [{'i': '0'}, {'i': '3'}, {'i': '-1'}]),
                                ({'k': 'int', 'kind': 'i8', 'r': {}, 'vals': ['0', '7']}, [{'i': '0'}, {'i': '7'}], [{'i': '1'}]),
                                ({'k': 'bool', 'vals': [True]}, [{'b': True}], [{'b': False}]),
                                ({'k': 'dbl', 'vals': ['1.5', '2.0']}, [{'dbl': '1.5'}, {'dbl': '2.0'}], [{'dbl': '0.0'}, {'dbl': '3.25'}]),
                                ({'k': 'dec', 'vals': ['1.5', '10']}, [{'dec': '1.5'}, {'dec': '10'}], [{'dec': '0'}, {'dec': '0.0'}, {'dec': '3'}])):
        for nil in (True, False):
            t = dict(t0, occ=occ(nil, 0 if nil else 1, 1))
            try:
                c = FixedCase([['v', t]])
                c.impl.server(CFG_DEFAULT)
            except (ValueError, AssertionError, TypeError):
                ctx.hit('c05:values:type-refused:' + t['k'])
                continue
            for v, expected in [(m, True) for m in members] + [(x, False) for x in others] + [(None, nil)]:
                args = {'o': ['f', [['v', v]]]}
                for cfg in C05_CFGS:
                    if v is None:
                        mpk = cfg['proto'].startswith('msgpack')
                        key = (lambda s_: s_.encode('utf8')) if mpk else (lambda s_: s_)
                        body = {key('v'): None}
                        body = body if cfg['iw'] else {key('f'): body}
                        doc = [0, 1, 'f', body] if cfg['proto'] == 'msgpackrpc' else ({key('f'): body} if cfg['iw'] else body)
                    else:
                        doc = ref_request(cfg, 'f', c.in_ty, args, None, bytes_keys=cfg['proto'].startswith('msgpack'))
                    r = c.impl.run(cfg, dump(cfg['proto'], doc))
                    kind = next(iter(r['outcome']))
                    n += 1
                    ctx.case({'c05values': cfg_key(cfg), 'ty': t, 'v': v}, True)
                    ctx.hit('c05:values:%s:%s:%s' % (t['k'], 'in' if expected else 'out', kind))
                    if kind == 'crash':
                        continue
                    accepted = kind in ('ok', 'leak')
                    if accepted != expected:
                        fam = 'msgpack' if cfg['proto'].startswith('msgpack') else cfg['proto']
                        falsy = v is not None and list(v.values())[0] in ('0', '0.0', False)
                        ctx.finding('c05:%s:values%s:%s:%s' % ('accepted-nonconformant' if accepted else 'rejected-conformant',
                                                             '-falsy' if falsy else '', t['k'], fam),
                                    'soft validation verdict differs from the declared `values` enumeration of a %s member' % t['k'],
                                    {'op': 'range', 'cfg': cfg, 'ty': t, 'value': v, 'expected_conforms': expected,
                                     'observed': r['outcome'], 'doc': doc_to_json(doc)})
    ctx.cov['c05_range_facets_T3_only'] = n
    ctx.cov['c05_range_rule'] = ('Date / Time / DateTime / Decimal / Double x ge, gt, le, lt (single and paired) x values on, just inside and '
                                 'just outside each bound; DateTime as instants with offsets None/0/+-60/+-300/+330/+840/-720; 8 soft '
                                 'configurations; oracle = python comparison of dates / times / instants / numbers (T3 only)')


class FixedCase:
    """a case with a hand-written signature"""

    def __init__(self, args):
        class _U:
            classes = []
            by_name = {}

            def registry(self):
                return []

            def subclasses(self, n):
                return []
        self.U = _U()
        self.B = Builder()
        self.sig = {'args': args, 'ret': {'k': 'int', 'occ': occ()}}
        self.impl = Impl(self.B, self.sig)
        self.in_ty = self.impl.in_ty()

    def query(self, op, cfg, **kw):
        q = {'op': op, 'cfg': cfg, 'reg': []}
        q.update(kw)
        return q


def part_c05_absent(ctx, c, args, B_req):
    """a required member (min_occurs > 0) left out of the document must be rejected, whatever its type"""
    for cfg in C05_CFGS:
        if cfg['proto'] == 'msgpackrpc' and cfg['iw'] is False:
            pass
        doc = ref_request(cfg, 'f', c.in_ty, args, c.U, bytes_keys=cfg['proto'].startswith('msgpack'))
        body = doc[3] if cfg['proto'] == 'msgpackrpc' else next(iter(doc.values()))
        if not cfg['iw']:
            body = next(iter(body.values())) if cfg['proto'] == 'msgpackrpc' else body
        if not isinstance(body, dict):
            continue
        for (n, t), (_, v) in zip(c.in_ty['fields'], args['o'][1]):
            o = t.get('occ') or occ()
            key = n.encode('utf8') if cfg['proto'].startswith('msgpack') else n
            if o['min'] > 0 and key in body:
                d2 = deep(doc)
                b2 = d2[3] if cfg['proto'] == 'msgpackrpc' else next(iter(d2.values()))
                if not cfg['iw'] and cfg['proto'] == 'msgpackrpc':
                    b2 = next(iter(b2.values()))
                del b2[key]
                data = dump(cfg['proto'], d2)
                r = c.impl.run(cfg, data)
                pb, _ = request_body(cfg, load(cfg['proto'], data))
                B_req.add(c.query('request', cfg, ty=c.in_ty, doc=doc_to_json(pb)), r['outcome'])
                kind = next(iter(r['outcome']))
                ctx.case({'c05-absent': cfg_key(cfg), 'ty': c.in_ty, 'member': n})
                ctx.hit('c05:required-member-absent:%s:%s' % (t['k'], kind))
                if kind in ('ok', 'leak'):
                    fam = 'msgpack' if cfg['proto'].startswith('msgpack') else cfg['proto']
                    ctx.finding('c05:accepted-nonconformant:required-%s-absent:%s' % ('array' if t['k'] == 'arr' else 'member', fam),
                                'a member declared with min_occurs > 0 is left out and the request is accepted',
                                {'op': 'request', 'cfg': cfg, 'ty': c.in_ty, 'reg': c.U.registry(), 'doc': doc_to_json(d2),
                                 'observed': r['outcome'], 'member': n})


# ===================================================================================== C16 (dict-document side)
def gen_poly_value(rng, t, U, p_sub=0.6):
    """a value for the object type `t` whose class is `t`'s class or one of its registered subclasses"""
    subs = U.subclasses(t['name'])
    if subs and rng.random() < p_sub:
        cd = rng.choice(subs)
        st = U.obj_ty(cd, occ())
        return gen_one(rng, st, U, 0.1)
    return gen_one(rng, dict(t, occ=occ()), U, 0.1)


def part_c16(ctx):
    """C16: class trees of depth <= 3, subclass instances where the base is declared (single values and arrays with
    mixed classes), polymorphic on/off, wrappers kept; T3 = class and member values at both ends; T2 = model."""
    load_known(ctx)
    poly_cases(ctx, 'c16', 100 if ctx.thorough else 24)
    ctx.cov['c16_hier_rule'] = POLY_RULE


POLY_RULE = ('class trees of depth <= 3 in one namespace; subclass instances in every kind of declared-base position: plain Base, '
             'customized Base (Base.customize(min_occurs=1), Mandatory: nillable=False, min_occurs=1), the item type of Array(Base) '
             '(a customized Base), a repeated Base member, as arguments / results and as members of a holder object, arrays freely '
             'mixed; polymorphic on/off x json/yaml/msgpack/msgpack-rpc x validator, ignore_wrappers=False; oracle = class and member '
             'values at both ends')


def part_poly(ctx):
    """the polymorphic round trips as part of C02 (wire fidelity for `polymorphic=True`)"""
    poly_cases(ctx, 'poly', 36 if ctx.thorough else 10)
    ctx.cov['poly_rule'] = POLY_RULE


def poly_cases(ctx, pre, ncases):
    rng = ctx.rng
    B_req, B_resp = Batch(ctx), Batch(ctx)
    for ci in range(ncases):
        for _ in range(20):
            U = Universe(rng, nclasses=rng.choice([3, 4, 5]), depth=2, inherit=True, facets=False)
            roots = [cd for cd in U.classes if U.subclasses(cd['name'])]
            if roots:
                break
        else:
            continue
        base = rng.choice(roots)
        # the declared type is the class itself or a customized variant of it (`cls.__orig__` is the class the model
        # names in `Ty.obj`: `polyTarget` compares the instance's class with that name)
        bt = U.obj_ty(base, occ())
        mand = U.obj_ty(base, occ(False, 1, 1))                     # Mandatory(Base)
        cust = U.obj_ty(base, occ(True, 1, 1))                      # Base.customize(min_occurs=1)
        arr = {'k': 'arr', 'member': 'm', 'elem': U.obj_ty(base, occ(False, 0, 1)), 'occ': occ()}      # Array(Base)
        rep = U.obj_ty(base, occ(True, 0, None))                    # Base.customize(max_occurs='unbounded')
        holder = {'name': 'Holder', 'ns': TNS, 'base': None,
                  'fields': [['h0_plain', bt], ['h1_mand', mand], ['h2_many', arr], ['h3_rep', rep]]}
        U.classes.append(holder)
        U.by_name['Holder'] = holder
        ht = U.obj_ty(holder, occ())
        B = Builder()
        try:
            B.register(U.classes)
        except ValueError:
            continue
        B.universe_fields = {c['name']: c['fields'] for c in U.classes}
        ret = rng.choice([arr, bt, mand, cust, ht, ht])
        sig = {'args': [['cust', cust], ['hold', ht], ['many', arr], ['one', bt]], 'ret': ret}
        try:
            impl = Impl(B, sig)
            impl.server(CFG_DEFAULT)
        except (ValueError, AssertionError):
            continue
        in_ty = impl.in_ty()
        # (the history step below changes the class definitions in place: queries keep snapshots)
        snap = json.loads(json.dumps({'reg': U.registry(), 'in_ty': in_ty, 'ret': ret}))
        # members are listed ancestors first
        for cd in U.classes:
            if cd['base']:
                bf = U.by_name[cd['base']]['fields']
                real = list(B.classes[cd['name']].get_flat_type_info(B.classes[cd['name']]).keys())
                ctx.case({pre + '-flat': cd['name'], 'fields': real})
                if real != [n for n, _ in cd['fields']] or real[:len(bf)] != [n for n, _ in bf]:
                    ctx.finding(pre + ':flat-type-info-order', 'get_flat_type_info does not list the ancestors\' members first',
                                {'op': 'flat', 'class': cd['name'], 'real': real, 'expected': [n for n, _ in cd['fields']]})
        for vi in range(4):
            try:
                pv = lambda: gen_poly_value(rng, bt, U)
                lst = lambda: {'l': [pv() for _ in range(rng.choice([0, 1, 2, 3]))]}
                one, cu, many = pv(), pv(), lst()
                hold = {'o': ['Holder', [['h0_plain', pv() if rng.random() < 0.8 else None], ['h1_mand', pv()],
                                         ['h2_many', lst() if rng.random() < 0.85 else None],
                                         ['h3_rep', lst() if rng.random() < 0.85 else None]]]}
            except Unsat:
                continue
            if None in (one, cu) or hold['o'][1][1][1] is None:
                continue
            args = {'o': ['f', [['cust', cu], ['hold', hold], ['many', many], ['one', one]]]}
            rv = many if ret is arr else hold if ret is ht else one
            nat = B.native(ret, chunkify(rng, rv))
            for proto in PROTOS:
                for poly in (True, False):
                    for validator in (None, 'soft'):
                        cfg = {'proto': proto, 'validator': validator, 'iw': False, 'cas': 'dict', 'poly': poly}
                        fam = 'msgpack' if proto.startswith('msgpack') else proto
                        doc = ref_request(cfg, 'f', in_ty, args, U, bytes_keys=proto.startswith('msgpack'))
                        data = dump(proto, doc)
                        r = impl.run(cfg, data, ret=nat)
                        body, _ = request_body(cfg, load(proto, data))
                        B_req.add({'op': 'request', 'cfg': cfg, 'reg': snap['reg'], 'ty': snap['in_ty'], 'doc': doc_to_json(body)}, r['outcome'])
                        ctx.case({pre: cfg_key(cfg), 'args': args}, True)
                        ctx.hit('%s:request:%s:poly=%s:%s' % (pre, fam, poly, next(iter(r['outcome']))))
                        # the receiver reconstructs the same subclass (wrapper keys select the class with or without
                        # the polymorphic flag: it only governs what is written)
                        if r['outcome'] != {'ok': args}:
                            if 'crash' in r['outcome'] or 'leak' in r['outcome'] or 'fault' in r['outcome']:
                                ctx.finding('%s:request:%s:%s' % (pre, fam, next(iter(r['outcome']))),
                                            'a subclass instance sent where the base is declared is not received as that subclass',
                                            {'op': 'request', 'cfg': cfg, 'ty': in_ty, 'reg': U.registry(), 'args': args,
                                             'doc': doc_to_json(doc), 'observed': r['outcome'], 'where': r.get('where')})
                            else:
                                ctx.finding('%s:request-class-lost:%s' % (pre, fam), 'the received instances differ in class or members',
                                            {'op': 'request', 'cfg': cfg, 'ty': in_ty, 'reg': U.registry(), 'args': args,
                                             'doc': doc_to_json(doc), 'observed': r['outcome']})
                            continue
                        if r.get('resp_crash') or r['out'] is None:
                            ctx.finding('%s:response-crash:%s' % (pre, fam), 'the subclass instance cannot be serialized: %s' % r.get('where'),
                                        {'op': 'response', 'cfg': cfg, 'ty': ret, 'reg': U.registry(), 'returned': rv})
                            continue
                        out = load(proto, r['out'])
                        B_resp.add({'op': 'response', 'cfg': cfg, 'reg': snap['reg'], 'ty': snap['ret'], 'val': rv, 'method': 'f'},
                                   {'ok': doc_to_json(out)})
                        try:
                            back = ref_response(cfg, 'f', ret, out, U)
                        except (RefError, ValueError) as e:
                            back = repr(e)
                        expect = rv if poly else strip_to_declared(ret, rv, U)
                        ctx.hit('%s:response:%s:poly=%s:%s' % (pre, fam, poly, 'same' if back == expect else 'differs'))
                        if back != expect and none_among_objects(rv):
                            ctx.hit(pre + ':skipped:none-item-written-as-empty-object(C02 known finding)')
                        elif back != expect:
                            kind = 'array' if ret is arr else 'holder' if ret is ht else 'customized' if ret in (mand, cust) else 'plain'
                            ctx.finding('%s:response:%s:%s:poly=%s' % (pre, kind, fam, poly),
                                        'polymorphic response does not carry the runtime class and its members' if poly else
                                        'non-polymorphic response does not carry exactly the declared members',
                                        {'op': 'response', 'cfg': cfg, 'ty': ret, 'reg': U.registry(), 'returned': rv,
                                         'decoded': back, 'expected': expect, 'response_doc': doc_to_json(out)})
        poly_history(ctx, pre, rng, U, B, impl, in_ty, base, bt, B_req)
    B_req.run('hier.request-' + pre)
    B_resp.run('hier.response-' + pre)


def poly_history(ctx, pre, rng, U, B, impl, in_ty, base, bt, B_req):
    """history: the class tree is warm (requests were served, subclass lists and flat member tables are memoised). Then a new
    subclass of the base is defined, and after that a member is appended to the base; requests that use them go to the SAME
    application. Nothing that clears spyne's memos as a side effect (customize, Array) happens in between."""
    steps = []
    late = {'name': 'Late', 'ns': TNS, 'base': base['name'],
            'fields': list(base['fields']) + [['late_f0', gen_leaf(rng, rng.choice(['int', 'str', 'bool']), occ(), facets=False)]]}
    U.classes.append(late)
    U.by_name['Late'] = late
    B.obj_class(dict(late, k='obj'))
    B.universe_fields['Late'] = late['fields']
    steps.append('subclass-defined-late')
    for step in ('subclass-defined-late', 'member-appended-late'):
        if step == 'member-appended-late':
            from spyne.model.primitive import Unicode
            n0 = len(base['fields'])
            extra = ['zz_appended', dict(STR_PLAIN)]
            B.classes[base['name']].append_field('zz_appended', Unicode)
            for cd in [base] + U.subclasses(base['name']):
                cd['fields'].insert(n0, extra)
        for vi in range(2):
            try:
                lv = lambda: gen_one(rng, U.obj_ty(late, occ()), U, 0.1)
                pv = lambda: gen_poly_value(rng, bt, U)
                lst = {'l': [lv(), pv()] if vi else [pv(), lv(), lv()]}
                hold = {'o': ['Holder', [['h0_plain', lv()], ['h1_mand', pv() if vi else lv()], ['h2_many', lst], ['h3_rep', {'l': [lv()]}]]]}
                args = {'o': ['f', [['cust', lv() if vi else pv()], ['hold', hold], ['many', lst], ['one', lv()]]]}
            except Unsat:
                continue
            if any(x is None for x in [args['o'][1][0][1], args['o'][1][3][1], hold['o'][1][0][1], hold['o'][1][1][1]] + lst['l']):
                continue
            for proto in PROTOS:
                for validator in (None, 'soft'):
                    cfg = {'proto': proto, 'validator': validator, 'iw': False, 'cas': 'dict', 'poly': True}
                    fam = 'msgpack' if proto.startswith('msgpack') else proto
                    doc = ref_request(cfg, 'f', in_ty, args, U, bytes_keys=proto.startswith('msgpack'))
                    data = dump(proto, doc)
                    r = impl.run(cfg, data)
                    body, _ = request_body(cfg, load(proto, data))
                    reg = json.loads(json.dumps(U.registry()))
                    B_req.add({'op': 'request', 'cfg': cfg, 'reg': reg, 'ty': json.loads(json.dumps(in_ty)), 'doc': doc_to_json(body)}, r['outcome'])
                    ctx.case({pre + '-history': step, 'cfg': cfg_key(cfg), 'args': args}, True)
                    ctx.hit('%s:history:%s:%s:%s' % (pre, step, fam, next(iter(r['outcome']))))
                    if r['outcome'] != {'ok': args}:
                        ctx.finding('%s:history:%s:%s:%s' % (pre, step, fam, next(iter(r['outcome']))),
                                    'after the class tree was used, %s: a request that uses it is not delivered as sent'
                                    % ('a new subclass of the declared base was defined' if step.startswith('subclass')
                                       else 'a member was appended to the declared base (ComplexModel.append_field)'),
                                    {'op': 'history', 'step': step, 'cfg': cfg, 'ty': json.loads(json.dumps(in_ty)), 'reg': reg, 'base': base['name'],
                                     'late': late, 'args': args, 'doc': doc_to_json(doc), 'observed': r['outcome'], 'where': r.get('where'),
                                     'faultcode': r.get('faultcode')})


def strip_to_declared(t, v, U):
    """what a non-polymorphic writer transmits: the declared class with the declared members only"""
    if v is None:
        return None
    if t['k'] == 'arr' and 'l' in v:
        return {'l': [strip_to_declared(t['elem'], x, U) for x in v['l']]}
    if t['k'] == 'obj' and 'o' in v:
        n = len(t['fields'])
        return {'o': [t['name'], [[fn, strip_to_declared(ft, fv, U)] for (fn, ft), (_, fv) in zip(t['fields'], v['o'][1][:n])]]}
    if is_rep(t.get('occ') or occ()) and 'l' in v:
        return {'l': [strip_to_declared(t, x, U) for x in v['l']]}
    return v


# ===================================================================================== C10 (dict-document side)
def wsgi_call(impl, cfg, data):
    """the same request through WsgiApplication: (status:int|None, body bytes, escaping exception class|None, calls)"""
    import io
    from spyne.server.wsgi import WsgiApplication
    key = ('wsgi',) + cfg_key(cfg)
    app = impl.servers.get(key)
    if app is None:
        app = WsgiApplication(impl.server(cfg).app)
        impl.servers[key] = app
    impl.calls = []
    impl.ret_value = None
    env = {'SERVER_NAME': 'localhost', 'SERVER_PORT': '80', 'SERVER_PROTOCOL': 'HTTP/1.1', 'SCRIPT_NAME': '',
           'wsgi.url_scheme': 'http', 'wsgi.version': (1, 0), 'wsgi.errors': io.StringIO(), 'wsgi.multithread': False,
           'wsgi.multiprocess': False, 'wsgi.run_once': False, 'wsgi.input': io.BytesIO(data),
           'REQUEST_METHOD': 'POST', 'PATH_INFO': '/', 'QUERY_STRING': '', 'CONTENT_LENGTH': str(len(data)),
           'CONTENT_TYPE': {'json': 'application/json', 'yaml': 'text/yaml'}.get(cfg['proto'], 'application/x-msgpack')}
    st = {}

    def start_response(status, headers, exc_info=None):
        st['status'] = status
        return lambda b: None
    try:
        body = b''.join(app(env, start_response))
    except Exception as e:
        return None, b'', type(e).__name__, len(impl.calls), crash_site(e)
    code = int(st.get('status', '0 ').split()[0]) if st.get('status') else None
    return code, body, None, len(impl.calls), None


def fault_code_of(cfg, body):
    """faultcode of a fault document in the protocol's own spelling (dict or positional list), None if it is not one"""
    try:
        d = load(cfg['proto'], body)
    except Exception:
        return '#unparsable'
    if cfg['proto'] == 'msgpackrpc':
        if isinstance(d, (list, tuple)) and len(d) >= 3 and d[0] == 3:
            d = d[2]
        else:
            return None
    if isinstance(d, (list, tuple)) and len(d) == 1:
        d = d[0]
    if isinstance(d, dict):
        c = d.get('faultcode', d.get(b'faultcode'))
        if isinstance(c, bytes):
            c = c.decode('utf8', 'replace')
        if c is None and len(d) == 1:
            (k, v), = d.items()
            if isinstance(v, dict):
                c = v.get('faultcode', v.get(b'faultcode'))
        return c
    if isinstance(d, (list, tuple)) and d and isinstance(d[0], (str, bytes)) and str(d[0] if isinstance(d[0], str) else d[0].decode()).split('.')[0] in ('Client', 'Server'):
        return d[0] if isinstance(d[0], str) else d[0].decode()
    return None


YAML_BAD = [b'a: b: c', b'\x00', b'*alias', b'!!python/object:os.system {}', b'{', b'[1, 2', b'"unterminated', b'a: [1,\n',
            b'\xff\xfe', b'%YAML 9.9\n---\na', b'? [a\n: b', b'a: !!int "x"', b'- - - -', b'&a [*a]', b'key: *undefined',
            b'!!binary "###"', b'!!timestamp "junk"', b'!!set {a, b}', b'a: !!float "x"', b'\t- x']
JSON_BAD = [b'', b' ', b'{', b'[', b'}', b'{"f"', b'{"f":', b'{"f": }', b'nul', b'NaN', b'Infinity', b'\xff', b'\xef\xbb\xbf{}',
            b'{"f": {"a": 1,}}', b"{'f': 1}", b'{"f": 1} x', b'"\\ud800"', b'[' * 2000, b'{"a": 1, "a": 2}', b'1e99999', b'\x00']
MSGPACK_BAD = [b'', b'\xc1', b'\x81', b'\x81\xa1f', b'\x92\x01', b'\xdc\xff\xff', b'\x81\x01\x02', b'\x81\xc0\xc0', b'\xd9',
               b'\x91' * 2000, b'\x81\xa1f\xc0\x00', b'\xc7\x01\x05a', b'\xd6\xff\x00\x00\x00\x00', b'\x81\x81\xa1a\x01\xa1b',
               b'\x94\x00\x01\xa1f', b'\x93\x02\x01\xa1f', b'\x94\x07\x01\xa1f\x90', b'\x94\x00\x01\xc4\x02\xff\xfe\x90',
               b'\x93\x00\x01\x81\xa1a\x01', b'\x95\x00\x01\xa1f\x90\x00', b'\x01', b'\xa1f']


def parse_like_spyne(cfg, data):
    """the third-party parser as the protocol calls it -> {'doc': pydoc} | {'err': 'syntax' | <exception class>}"""
    proto = cfg['proto']
    try:
        if proto == 'json':
            return {'doc': json.loads(data)}
        if proto == 'yaml':
            import yaml
            try:
                from yaml import CSafeLoader as SL
            except ImportError:
                from yaml import SafeLoader as SL
            return {'doc': yaml.load(data.decode('UTF-8'), Loader=SL)}
        import msgpack
        if proto == 'msgpack':
            return {'doc': msgpack.unpackb(data)}
        return {'doc': msgpack.unpackb(data, raw=False, use_list=False)}
    except Exception as e:
        n = type(e).__name__
        if proto == 'json' and isinstance(e, ValueError):
            return {'err': 'syntax'}        # spyne's JSONDecodeError is ValueError when simplejson is absent
        if proto == 'yaml' and n == 'ParserError':
            return {'err': 'syntax'}
        if proto.startswith('msgpack') and isinstance(e, ValueError):
            # the handler of the decode error joins e.args: not all of them are strings (ExtraData)
            return {'err': 'syntax'} if all(isinstance(a, str) for a in e.args) else {'err': 'TypeError'}
        return {'err': n}


def part_c10(ctx):
    """C10: random bytes, every prefix truncation of valid requests, parser-level garbage and structure-aware
    mutations through ServerBase and WsgiApplication: no escaping exception, Client-family fault, 4xx, no call."""
    load_known(ctx)
    rng = ctx.rng
    B_mut = Batch(ctx)
    sites = {}

    def judge(c, cfg, data, tag, r=None):
        """evaluate the property on one request through both transports"""
        fam = 'msgpack' if cfg['proto'].startswith('msgpack') else cfg['proto']
        r = r or c.impl.run(cfg, data)
        kind = next(iter(r['outcome']))
        ctx.hit('c10:%s:%s:%s' % (tag, fam, kind))
        if kind == 'crash':
            exc = r['outcome']['crash']
            where = (r.get('where') or '').rsplit(':', 1)[0]
            sid = '%s:%s' % (exc, where.split(':', 1)[-1] if where else r.get('stage') or '?')
            sites[(fam, sid)] = sites.get((fam, sid), 0) + 1
            ctx.finding('c10:crash:%s:%s' % (fam, sid),
                        'a malformed request ends in %s (%s) instead of a client fault' % (exc, r.get('where') or r.get('faultcode')),
                        {'op': 'bytes', 'cfg': cfg, 'args_ty': c.sig['args'], 'reg': c.U.registry(), 'data': list(data[:4000]),
                         'observed': r['outcome'], 'where': r.get('where'), 'tag': tag})
        elif kind == 'fault' and r['calls'] != 0:
            ctx.finding('c10:called-then-fault:%s' % fam, 'the user function ran for a request that is answered with a fault',
                        {'op': 'bytes', 'cfg': cfg, 'args_ty': c.sig['args'], 'reg': c.U.registry(), 'data': list(data[:4000])})
        # ---- WSGI
        code, body, exc, calls, where = wsgi_call(c.impl, cfg, data)
        ctx.case({'c10': cfg_key(cfg), 'data': hashlib_sha(data), 'tag': tag})
        if exc is not None:
            ctx.finding('c10:wsgi-escape:%s:%s' % (fam, exc), 'an exception escapes the WSGI callable: %s' % where,
                        {'op': 'bytes', 'cfg': cfg, 'args_ty': c.sig['args'], 'reg': c.U.registry(), 'data': list(data[:4000]), 'wsgi': True})
            return
        ctx.hit('c10:wsgi:%s:%s' % (fam, code))
        if code is not None and code != 200:
            fc = fault_code_of(cfg, body)
            if not (400 <= code < 500) or not (isinstance(fc, str) and fc.split('.')[0] == 'Client'):
                if kind != 'crash':     # the crash itself is reported above with its site
                    ctx.finding('c10:wsgi-status:%s:%s:%s' % (fam, code, (fc or 'no-fault-doc')[:30]),
                                'a malformed request is answered with HTTP %s / faultcode %r' % (code, fc),
                                {'op': 'bytes', 'cfg': cfg, 'args_ty': c.sig['args'], 'reg': c.U.registry(), 'data': list(data[:4000]), 'wsgi': True})
            if calls != 0:
                ctx.finding('c10:wsgi-called-then-fault:%s' % fam, 'the user function ran although the response is a fault',
                            {'op': 'bytes', 'cfg': cfg, 'args_ty': c.sig['args'], 'reg': c.U.registry(), 'data': list(data[:4000]), 'wsgi': True})
        elif code == 200 and kind == 'fault':
            ctx.finding('c10:wsgi-200-for-fault:%s' % fam, 'ServerBase reports a client fault, WSGI answers 200',
                        {'op': 'bytes', 'cfg': cfg, 'args_ty': c.sig['args'], 'reg': c.U.registry(), 'data': list(data[:4000]), 'wsgi': True})

    B_srv = Batch(ctx)

    def server_t2(c, cfg, data, r):
        """compare with the model's `serverRun` where the parsed document is inside the model"""
        p = parse_like_spyne(cfg, data)
        if 'doc' in p:
            try:
                if not modelled_doc(p['doc'], c.in_ty):
                    return
                p = {'doc': doc_to_json(p['doc'])}
            except RecursionError:
                return
        B_srv.add(c.query('server', cfg, ty=c.in_ty, parsed=p), r['outcome'])

    _judge = judge

    def judge(c, cfg, data, tag, r=None):
        r = r or c.impl.run(cfg, data)
        server_t2(c, cfg, data, r)
        return _judge(c, cfg, data, tag, r)

    cfgs = [cfg for cfg in ALL_CFGS if cfg['cas'] == 'dict' or cfg['iw']]
    for ci in range(30 if ctx.thorough else 12):
        c = Case(rng, nclasses=3, depth=3)
        names = [cd['name'] for cd in c.U.classes] + ['f']
        args = c.gen_args(none_p=0.1)
        if args is None:
            continue
        for cfg in cfgs:
            if cfg['cas'] == 'list' and not fully_populated(args):
                continue
            if cfg['cas'] == 'list' and rng.random() < 0.6:
                continue
            proto = cfg['proto']
            doc0 = ref_request(cfg, 'f', c.in_ty, args, c.U, bytes_keys=proto.startswith('msgpack'))
            valid = dump(proto, doc0)
            # every prefix truncation (thinned for long requests)
            step = max(1, len(valid) // (60 if ctx.thorough else 25))
            for n in list(range(0, len(valid), step)) + [len(valid) - 1]:
                judge(c, cfg, valid[:n], 'truncated')
            # random bytes, byte flips
            for _ in range(6 if ctx.thorough else 2):
                judge(c, cfg, bytes(rng.randrange(256) for _ in range(rng.choice([1, 2, 5, 17, 64]))), 'random')
                b = bytearray(valid)
                for _ in range(rng.choice([1, 1, 2, 4])):
                    b[rng.randrange(len(b))] = rng.randrange(256)
                judge(c, cfg, bytes(b), 'flipped')
            # a well-formed request for a method the service does not have
            unk = [0, 1, 'no_such_method', {}] if proto == 'msgpackrpc' else {(b'no_such_method' if proto == 'msgpack' else 'no_such_method'): {}}
            judge(c, cfg, dump(proto, unk), 'unknown-method')
            # parser-level garbage
            for g in ({'json': JSON_BAD, 'yaml': YAML_BAD}.get(proto, MSGPACK_BAD)):
                if rng.random() < (1.0 if ci == 0 else 0.15):
                    judge(c, cfg, g, 'garbage')
            # structure-aware mutations (also compared with the model where it applies)
            for _ in range(10 if ctx.thorough else 4):
                doc, tag = mutate_doc(rng, doc0, proto, names)
                if rng.random() < 0.3:
                    doc, _ = mutate_doc(rng, doc, proto, names)
                try:
                    data = dump(proto, doc)
                    parsed = load(proto, data)
                except Exception:
                    continue
                r = c.impl.run(cfg, data)
                judge(c, cfg, data, 'mut-' + tag, r)
                body, ok = request_body(cfg, parsed)
                if ok and modelled_doc(body, c.in_ty) and spyne_parses(cfg, data):
                    B_mut.add(c.query('request', cfg, ty=c.in_ty, doc=doc_to_json(body)), r['outcome'])
    B_mut.run('hier.request-c10')
    B_srv.run('hier.server')
    ctx.cov['c10_hier_crash_sites'] = {'%s %s' % k: v for k, v in sorted(sites.items())}
    ctx.cov['c10_hier_rule'] = ('valid requests of generated signatures x configurations: every (thinned) prefix truncation, random bytes, '
                                'byte flips, per-parser garbage corpora, structure-aware mutations; through ServerBase and WsgiApplication; '
                                'oracle = no escaping exception, Client-family fault, 4xx, user function not run on a fault')


def hashlib_sha(b):
    import hashlib
    return hashlib.sha1(b).hexdigest()[:16]
