"""Dict-document codec block (JSON / YAML / MessagePack): shared machinery of C02 and of the
dict-document parts of C04 C05 C16 C10.

Vocabulary (same JSON goes to the Lean driver `lean/Driver/C02.lean`):
  Ty   {"k":"int","kind":"i8","r":{"ge":..},"occ":{..}} | bool | str | date | time | dt | dur | bytes | enum
       {"k":"obj","name","ns","base","fields":[[n,Ty]..],"occ"} | {"k":"arr","member","elem":Ty,"occ"}
       extra T3-only leaf kinds (no Lean counterpart in the shared vocabulary): dec, dbl, uuid
  Val  null | {"i":"digits"} | {"b":bool} | {"s":[cps]} | {"date":[y,m,d]} | {"time":[h,mi,s,us]} |
       {"dt":[y,mo,d,h,mi,s,us,tz|null]} | {"dur":"us"} | {"x":[bytes]} | {"e":[cps]} |
       {"o":[cls,[[n,Val]..]]} | {"l":[Val..]}      (T3-only: {"dec":str} {"dbl":repr} {"uuid":hex})
  Doc  null | {"B":bool} | {"I":"digits"} | {"F":"int-digits"|null} | {"O":1} | {"S":[cps]} | {"X":[bytes]} |
       {"N":1} (NaN) | {"L":[Doc..]} | {"M":[[Key,Doc]..]}     Key = {"s":[cps]} | {"x":[bytes]} | {"i":"digits"} | {"o":1}
"""
import base64, binascii, datetime as pydt, decimal, json, math, uuid as pyuuid

from . import core

TNS = 'tns'
PROTOS = ('json', 'yaml', 'msgpack', 'msgpackrpc')
KIND_RANGE = {'i8': (-2 ** 7, 2 ** 7 - 1), 'i16': (-2 ** 15, 2 ** 15 - 1), 'i32': (-2 ** 31, 2 ** 31 - 1),
              'i64': (-2 ** 63, 2 ** 63 - 1), 'u8': (0, 2 ** 8 - 1), 'u16': (0, 2 ** 16 - 1),
              'u32': (0, 2 ** 32 - 1), 'u64': (0, 2 ** 64 - 1), 'unbounded': (None, None)}
DAY = 86400 * 10 ** 6
DUR_MIN, DUR_MAX = -999999999 * DAY, 999999999 * DAY + DAY - 1


def cps(s):
    return [ord(c) for c in s]


def uncps(l):
    return ''.join(chr(c) for c in l)


def occ(nillable=True, mn=0, mx=1):
    return {'nillable': nillable, 'min': mn, 'max': mx}


def is_rep(o):
    return o['max'] is None or o['max'] > 1


# ===================================================================================== spyne classes
class Builder:
    """turns Ty JSON into real spyne classes (cached per class name / structural key)"""

    _keep = []      # spyne memoises per id(cls): never let a generated class be collected (its id could be reused)

    def __init__(self):
        Builder._keep.append(self)
        self.classes = {}       # name -> ComplexModel subclass
        self.enums = {}
        self._n = 0

    def obj_class(self, ty):
        from spyne.model.complex import ComplexModelMeta, ComplexModel
        name = ty['name']
        c = self.classes.get(name)
        if c is not None:
            return c
        base = ComplexModel
        nbase = 0
        if ty.get('base'):
            base = self.classes[ty['base']]
            nbase = len(base.get_flat_type_info(base))
        own = [(n, self.py_type(t)) for n, t in ty['fields'][nbase:]]
        c = ComplexModelMeta(str(name), (base,), {'__namespace__': ty.get('ns') or TNS, '_type_info': own})
        self.classes[name] = c
        return c

    def register(self, classdefs):
        """classes of a universe, bases first: [{"name","ns","base","fields"}]"""
        for cd in classdefs:
            self.obj_class(dict(cd, k='obj'))

    def py_type(self, ty):
        from spyne.model import primitive as P
        from spyne.model import ByteArray, Enum, Array
        o = ty.get('occ') or occ()
        kw = {}
        if not o['nillable']:
            kw['nillable'] = False
        if o['min'] != 0:
            kw['min_occurs'] = o['min']
        if o['max'] != 1:
            kw['max_occurs'] = 'unbounded' if o['max'] is None else o['max']
        k = ty['k']
        if k == 'int':
            cls = {'unbounded': P.Integer, 'i8': P.Integer8, 'i16': P.Integer16, 'i32': P.Integer32,
                   'i64': P.Integer64, 'u8': P.UnsignedInteger8, 'u16': P.UnsignedInteger16,
                   'u32': P.UnsignedInteger32, 'u64': P.UnsignedInteger64}[ty.get('kind', 'unbounded')]
            for f, v in (ty.get('r') or {}).items():
                if v is not None:
                    kw[f] = int(v)
            if kw:
                # customising an integer type resets its max_str_len guard to infinity; declare the guard of the
                # plain class explicitly so that every generated integer type has the guard the model knows
                kw['max_str_len'] = cls.Attributes.max_str_len
            return cls(**kw) if kw else cls
        if k == 'bool':
            return P.Boolean(**kw) if kw else P.Boolean
        if k == 'str':
            if ty.get('minLen'):
                kw['min_len'] = ty['minLen']
            if ty.get('maxLen') is not None:
                kw['max_len'] = ty['maxLen']
            if ty.get('pattern'):
                kw['pattern'] = pattern_regex(ty['pattern'])
            if ty.get('values'):
                kw['values'] = [uncps(v) for v in ty['values']]
            return P.Unicode(**kw) if kw else P.Unicode
        if k in ('date', 'time', 'dt', 'dur', 'dec', 'dbl', 'uuid'):
            cls = {'date': P.Date, 'time': P.Time, 'dt': P.DateTime, 'dur': P.Duration, 'dec': P.Decimal,
                   'dbl': P.Double, 'uuid': P.Uuid}[k]
            return cls(**kw) if kw else cls
        if k == 'bytes':
            enc = ty.get('enc', 'base64')
            if enc == 'hex':
                kw['encoding'] = 'hex'
            elif enc == 'urlsafe':
                kw['encoding'] = 'urlsafe_base64'
            return ByteArray(**kw) if kw else ByteArray
        if k == 'enum':
            key = tuple(uncps(n) for n in ty['names'])
            e = self.enums.get(key)
            if e is None:
                self._n += 1
                e = Enum(*key, type_name='Enum%d' % self._n)
                self.enums[key] = e
            return e.customize(**kw) if kw else e
        if k == 'obj':
            c = self.obj_class(ty)
            return c.customize(**kw) if kw else c
        if k == 'arr':
            elem = self.py_type(ty['elem'])
            return Array(elem, **kw)
        raise ValueError(k)

    # ------------------------------------------------------------------ values
    def to_native(self, ty, v):
        """Val JSON -> native python value for the declared type"""
        if v is None:
            return None
        if is_rep(ty.get('occ') or occ()) and 'l' in v and not ty.get('_item'):
            it = dict(ty, _item=True)
            return [self.to_native(it, x) for x in v['l']]
        k = ty['k']
        if 'i' in v:
            return int(v['i'])
        if 'b' in v:
            return v['b']
        if 's' in v:
            return uncps(v['s'])
        if 'date' in v:
            return pydt.date(*v['date'])
        if 'time' in v:
            return pydt.time(*v['time'])
        if 'dt' in v:
            import pytz
            a = v['dt']
            return pydt.datetime(*a[:7], tzinfo=None if a[7] is None else pytz.FixedOffset(a[7]))
        if 'dur' in v:
            return pydt.timedelta(microseconds=int(v['dur']))
        if 'x' in v:
            return [bytes(v['x'])]
        if 'e' in v:
            return getattr(self.py_type(dict(ty, occ=occ())), uncps(v['e']))
        if 'dec' in v:
            return decimal.Decimal(v['dec'])
        if 'dbl' in v:
            return float(v['dbl'])
        if 'uuid' in v:
            return pyuuid.UUID(hex=v['uuid'])
        if 'o' in v:
            cname, fvs = v['o']
            cls = self.classes[cname]
            inst = cls()
            fti = dict(self.flat_fields(cname, ty))
            for n, fv in fvs:
                setattr(inst, n, self.to_native(fti[n], fv))
            return inst
        if 'l' in v:
            return [self.to_native(ty['elem'], x) for x in v['l']]
        raise ValueError(v)

    def flat_fields(self, cname, ty):
        if ty['k'] == 'obj' and ty['name'] == cname:
            return ty['fields']
        return self.universe_fields[cname]

    universe_fields = {}

    def from_native(self, ty, x, item=False):
        """native python value -> Val JSON; raises Leak when a node is not a value of the declared type"""
        o = ty.get('occ') or occ()
        if x is None:
            return None
        if is_rep(o) and not item:
            if not isinstance(x, (list, tuple)):
                raise Leak('repeated:%s' % type(x).__name__)
            return {'l': [self.from_native(ty, y, True) for y in x]}
        k = ty['k']
        if k == 'int':
            if isinstance(x, bool) or not isinstance(x, int):
                if isinstance(x, bool):
                    return {'i': str(int(x))}       # bool is an int
                raise Leak('int:%s' % type(x).__name__)
            return {'i': str(x)}
        if k == 'bool':
            if not isinstance(x, bool):
                raise Leak('bool:%s' % type(x).__name__)
            return {'b': x}
        if k == 'str':
            if not isinstance(x, str):
                raise Leak('str:%s' % type(x).__name__)
            return {'s': cps(x)}
        if k == 'date':
            if isinstance(x, pydt.datetime) or not isinstance(x, pydt.date):
                raise Leak('date:%s' % type(x).__name__)
            return {'date': [x.year, x.month, x.day]}
        if k == 'time':
            if not isinstance(x, pydt.time):
                raise Leak('time:%s' % type(x).__name__)
            return {'time': [x.hour, x.minute, x.second, x.microsecond]}
        if k == 'dt':
            if not isinstance(x, pydt.datetime):
                raise Leak('dt:%s' % type(x).__name__)
            off = x.utcoffset()
            tz = None if off is None else (off.days * 86400 + off.seconds) // 60
            return {'dt': [x.year, x.month, x.day, x.hour, x.minute, x.second, x.microsecond, tz]}
        if k == 'dur':
            if not isinstance(x, pydt.timedelta):
                raise Leak('dur:%s' % type(x).__name__)
            return {'dur': str((x.days * 86400 + x.seconds) * 1000000 + x.microseconds)}
        if k == 'bytes':
            if isinstance(x, (bytes, bytearray)):
                return {'x': list(x)}
            if isinstance(x, (list, tuple)) and all(isinstance(c, (bytes, bytearray)) for c in x):
                return {'x': list(b''.join(x))}
            raise Leak('bytes:%s' % type(x).__name__)
        if k == 'enum':
            names = [uncps(n) for n in ty['names']]
            s = str(x)
            if type(x).__name__ != 'EnumValue' or s not in names:
                raise Leak('enum:%s' % type(x).__name__)
            return {'e': cps(s)}
        if k == 'dec':
            if not isinstance(x, decimal.Decimal):
                raise Leak('dec:%s' % type(x).__name__)
            return {'dec': str(x)}
        if k == 'dbl':
            if not isinstance(x, float):
                raise Leak('dbl:%s' % type(x).__name__)
            return {'dbl': repr(x)}
        if k == 'uuid':
            if not isinstance(x, pyuuid.UUID):
                raise Leak('uuid:%s' % type(x).__name__)
            return {'uuid': x.hex}
        if k == 'obj':
            if isinstance(x, list) and len(x) == 0:
                return {'l': []}                    # `_doc_to_object(None)` -> [] (reported as is)
            decl = self.classes[ty['name']]
            if not isinstance(x, decl):
                raise Leak('obj:%s' % type(x).__name__)
            cname = type(x).get_type_name()
            fields = self.flat_fields(cname, ty)
            return {'o': [cname, [[n, self.from_native(ft, getattr(x, n, None))] for n, ft in fields]]}
        if k == 'arr':
            if not isinstance(x, (list, tuple)):
                raise Leak('arr:%s' % type(x).__name__)
            return {'l': [self.from_native(ty['elem'], y, True) for y in x]}
        raise ValueError(k)


class Leak(Exception):
    """user code received a node that is not a value of the declared type"""


def pattern_regex(p):
    def esc(c):
        ch = chr(c)
        return '\\' + ch if ch in '\\]^-[' else ch
    cls = ''.join(esc(lo) if lo == hi else '%s-%s' % (esc(lo), esc(hi)) for lo, hi in p['ranges'])
    return '[%s]{%d,%s}' % (cls, p.get('min', 0), '' if p.get('max') is None else p['max'])


# ===================================================================================== documents
class Opaque:
    """a foreign native object inside a parsed document (e.g. a YAML timestamp)"""

    def __init__(self, x):
        self.x = x


def doc_to_json(d):
    """python document (as produced by json.loads / yaml.load / msgpack.unpackb) -> Doc JSON"""
    if d is None:
        return None
    if isinstance(d, bool):
        return {'B': d}
    if isinstance(d, int):
        return {'I': str(d)}
    if isinstance(d, float):
        if d != d:
            return {'N': 1}
        return {'F': str(int(d)) if (math.isfinite(d) and d == int(d)) else None}
    if isinstance(d, str):
        return {'S': cps(d)}
    if isinstance(d, (bytes, bytearray)):
        return {'X': list(d)}
    if isinstance(d, (list, tuple)):
        return {'L': [doc_to_json(x) for x in d]}
    if isinstance(d, dict):
        return {'M': [[key_to_json(k), doc_to_json(v)] for k, v in d.items()]}
    return {'O': 1}


def key_to_json(k):
    if isinstance(k, str):
        return {'s': cps(k)}
    if isinstance(k, bytes):
        return {'x': list(k)}
    if isinstance(k, int) and not isinstance(k, bool):
        return {'i': str(k)}
    return {'o': 1}


def json_to_doc(j, tuples=False):
    if j is None:
        return None
    if 'B' in j:
        return j['B']
    if 'I' in j:
        return int(j['I'])
    if 'F' in j:
        return float(j['F']) if j['F'] is not None else 0.5
    if 'S' in j:
        return uncps(j['S'])
    if 'X' in j:
        return bytes(j['X'])
    if 'L' in j:
        return [json_to_doc(x) for x in j['L']]
    if 'M' in j:
        return {json_to_key(k): json_to_doc(v) for k, v in j['M']}
    if 'O' in j:
        return pydt.date(2020, 1, 2)
    if 'N' in j:
        return float('nan')
    raise ValueError(j)


def json_to_key(k):
    if 's' in k:
        return uncps(k['s'])
    if 'x' in k:
        return bytes(k['x'])
    if 'i' in k:
        return int(k['i'])
    return pydt.date(2020, 1, 2)


# ---- third-party (de)serialisers as oracles bytes <-> Doc
def dump(proto, pydoc):
    if proto == 'json':
        return json.dumps(pydoc).encode('utf8')
    if proto == 'yaml':
        import yaml
        return yaml.safe_dump(pydoc, allow_unicode=True, encoding='utf-8')
    import msgpack
    return msgpack.packb(pydoc, use_bin_type=True)


def load(proto, data):
    if proto == 'json':
        return json.loads(data.decode('utf8'))
    if proto == 'yaml':
        import yaml
        return yaml.safe_load(data.decode('utf8'))
    import msgpack
    return msgpack.unpackb(data, raw=False, strict_map_key=False)


def dumpable(proto, j):
    """can the Doc JSON be written by the protocol's serialiser at all?"""
    if j is None:
        return True
    if 'X' in j:
        return proto != 'json'
    if 'O' in j:
        return proto == 'yaml'
    if 'I' in j:
        return proto in ('json', 'yaml') or -2 ** 63 <= int(j['I']) < 2 ** 64
    if 'L' in j:
        return all(dumpable(proto, x) for x in j['L'])
    if 'M' in j:
        ks = [canon_key(k) for k, _ in j['M']]
        if len(set(ks)) != len(ks):
            return False
        for k, v in j['M']:
            if 'x' in k and proto == 'json' or ('o' in k or 'i' in k) and proto != 'yaml':
                return False
            if not dumpable(proto, v):
                return False
        return True
    return True


def canon_key(k):
    return core.canon(k)


# ===================================================================================== implementation runner
CFG_DEFAULT = {'proto': 'json', 'validator': None, 'iw': True, 'cas': 'dict', 'poly': False}


def cfg_key(cfg):
    return (cfg['proto'], cfg['validator'], cfg['iw'], cfg['cas'], cfg['poly'])


def proto_class(name):
    if name == 'json':
        from spyne.protocol.json import JsonDocument
        return JsonDocument
    if name == 'yaml':
        from spyne.protocol.yaml import YamlDocument
        return YamlDocument
    if name == 'msgpack':
        from spyne.protocol.msgpack import MessagePackDocument
        return MessagePackDocument
    from spyne.protocol.msgpack import MessagePackRpc
    return MessagePackRpc


class Impl:
    """one generated service `f(arg0..argN) -> ret` under every configuration, driven through the real
    pipeline (Application + ServerBase).  `ret_fn(args)` decides what the user function returns."""

    def __init__(self, B, sig, method='f'):
        self.B, self.sig, self.method = B, sig, method
        self.calls = []
        self.ret_value = None
        self.servers = {}
        from spyne import rpc, ServiceBase
        argt = [B.py_type(t) for _, t in sig['args']]
        rett = B.py_type(sig['ret']) if sig.get('ret') is not None else None
        me = self

        # a user function with exactly the declared positional parameters (as real services have)
        names = [n for n, _ in sig['args']]
        env = {'me': me}
        exec('def %s(ctx%s):\n    me.calls.append((%s))\n    return me.ret_value\n' % (
            method, ''.join(', ' + n for n in names), ''.join(n + ', ' for n in names)), env)
        f = env[method]
        kw = {'_args': [n for n, _ in sig['args']]}
        if rett is not None:
            kw['_returns'] = rett
        self.service = type('Svc', (ServiceBase,), {method: rpc(*argt, **kw)(f)})

    def in_ty(self):
        return {'k': 'obj', 'name': self.method, 'ns': TNS, 'base': None, 'fields': self.sig['args'], 'occ': occ()}

    def server(self, cfg):
        k = cfg_key(cfg)
        s = self.servers.get(k)
        if s is None:
            from spyne import Application
            from spyne.server import ServerBase
            pc = proto_class(cfg['proto'])
            cas = list if cfg['cas'] == 'list' else dict
            app = Application([self.service], TNS, name='App',
                              in_protocol=pc(validator=cfg['validator'], ignore_wrappers=cfg['iw'], complex_as=cas,
                                             polymorphic=cfg['poly']),
                              out_protocol=pc(ignore_wrappers=cfg['iw'], complex_as=cas, polymorphic=cfg['poly']))
            s = ServerBase(app)
            self.servers[k] = s
        return s

    def run(self, cfg, data, ret=None):
        """request bytes -> {'outcome': ok/fault/crash/leak ..., 'out': response bytes | None, 'calls': n}"""
        from spyne import MethodContext
        server = self.server(cfg)
        self.calls = []
        self.ret_value = ret
        res = {'calls': 0, 'out': None, 'stage': None}
        stage = 'generate_contexts'
        ctx = None
        try:
            initial = MethodContext(server, MethodContext.SERVER)
            initial.in_string = [data]
            ctxs = server.generate_contexts(initial)
            ctx = ctxs[0]
            if ctx.in_error is None:
                stage = 'get_in_object'
                server.get_in_object(ctx)
            if ctx.in_error is None:
                stage = 'get_out_object'
                server.get_out_object(ctx)
            stage = 'get_out_string'
            server.get_out_string(ctx)
            out = b''.join(ctx.out_string)
            res['out'] = out
        except Exception as e:
            res['calls'] = len(self.calls)
            res['stage'] = stage
            res['outcome'] = {'crash': type(e).__name__}
            res['where'] = crash_site(e)
            return res
        res['calls'] = len(self.calls)
        err = ctx.out_error if ctx.out_error is not None else ctx.in_error
        if err is not None:
            code = str(getattr(err, 'faultcode', ''))
            res['faultcode'] = code
            if code.startswith('Client'):
                res['outcome'] = {'fault': 'Client'}
            else:
                res['outcome'] = {'crash': 'Fault:' + code.split('.')[0]}
                # ServerBase wraps a non-Fault exception of the input protocol into a Server fault; find out
                # which exception it was (class and innermost spyne frame) by driving the protocol directly
                exc = self.diagnose(cfg, data)
                if exc is not None:
                    res['outcome'] = {'crash': type(exc).__name__}
                    res['where'] = crash_site(exc)
            return res
        if len(self.calls) != 1:
            res['outcome'] = {'crash': 'calls=%d' % len(self.calls)}
            return res
        try:
            args = self.calls[0]
            res['outcome'] = {'ok': {'o': [self.method, [[n, self.B.from_native(t, a)]
                                                        for (n, t), a in zip(self.sig['args'], args)]]}}
        except Leak as e:
            res['outcome'] = {'leak': True}
            res['leak'] = str(e)
        return res


def _diagnose(self, cfg, data):
    from spyne import MethodContext
    from spyne.model.fault import Fault
    server = self.server(cfg)
    calls = self.calls
    try:
        ctx = MethodContext(server, MethodContext.SERVER)
        ctx.in_string = [data]
        p = server.app.in_protocol
        p.create_in_document(ctx, None)
        p.decompose_incoming_envelope(ctx, p.REQUEST)
        ctx, = p.generate_method_contexts(ctx)
        p.deserialize(ctx, message=p.REQUEST)
    except Fault:
        return None
    except Exception as e:
        return e
    finally:
        self.calls = calls
    return None


Impl.diagnose = _diagnose


def crash_site(e):
    import traceback
    tb = traceback.extract_tb(e.__traceback__)
    for fr in reversed(tb):
        if '/spyne/' in fr.filename:
            return '%s:%s:%d' % (type(e).__name__, fr.filename.split('/spyne/')[-1], fr.lineno)
    return type(e).__name__


# ===================================================================================== generators
INT_KINDS = ['unbounded', 'i8', 'i16', 'i32', 'i64', 'u8', 'u16', 'u32', 'u64']
LEAF_KINDS = ['int', 'bool', 'str', 'date', 'time', 'dt', 'dur', 'bytes', 'enum']
CHAR_POOL = [0, 1, 9, 10, 13, 32, 34, 39, 47, 48, 57, 65, 92, 97, 122, 127, 128, 0xe9, 0x7ff, 0x800, 0xd7ff, 0xe000,
             0xfffd, 0xffff, 0x10000, 0x1f600, 0x10ffff, 0x3b1, 0x4e2d, 0x5d0]


def gen_occ(rng, allow_rep=True, plain=False):
    if plain or rng.random() < 0.35:
        return occ()
    mx = rng.choice([1, 1, 1, 2, 3, None]) if allow_rep else 1
    mn = rng.choice([0, 0, 1, 2 if (mx is None or mx >= 2) else 1])
    if mx is not None and mn > mx:
        mn = mx
    return occ(rng.random() < 0.6, mn, mx)


def gen_range(rng, kind):
    lo, hi = KIND_RANGE[kind]
    r = {}
    if rng.random() < 0.5:
        return r
    pool = [-3, -1, 0, 1, 2, 5, 10, 100]
    if lo is not None:
        pool += [lo, lo + 1, hi - 1, hi]
    else:
        pool += [-2 ** 63, 2 ** 63, 2 ** 64, 10 ** 30, -10 ** 30]
    a, b = sorted([rng.choice(pool), rng.choice(pool)])
    if rng.random() < 0.7:
        r[rng.choice(['ge', 'gt'])] = str(a)
    if rng.random() < 0.7:
        r[rng.choice(['le', 'lt'])] = str(b)
    return r


def gen_leaf(rng, kind=None, o=None, facets=True):
    k = kind or rng.choice(LEAF_KINDS + ['int', 'str'])
    t = {'k': k, 'occ': o if o is not None else gen_occ(rng)}
    if k == 'int':
        t['kind'] = rng.choice(INT_KINDS)
        t['r'] = gen_range(rng, t['kind']) if facets else {}
    elif k == 'str':
        t['minLen'] = rng.choice([0, 0, 0, 1, 2]) if facets else 0
        t['maxLen'] = rng.choice([None, None, 2, 3, 5]) if facets else None
        if t['maxLen'] is not None and t['maxLen'] < t['minLen']:
            t['maxLen'] = t['minLen']
        t['pattern'] = None
        t['values'] = []
        if facets and rng.random() < 0.25:
            lo = rng.choice([97, 48, 65, 0x3b1])
            t['pattern'] = {'ranges': [[lo, lo + rng.choice([0, 2, 5])]] + ([[95, 95]] if rng.random() < 0.3 else []),
                            'min': rng.choice([0, 1]), 'max': rng.choice([None, 2, 4])}
        elif facets and rng.random() < 0.2:
            t['values'] = [cps(s) for s in rng.sample(['a', 'bb', 'ccc', '', 'é', 'x y'], rng.choice([1, 2, 3]))]
    elif k == 'bytes':
        t['enc'] = rng.choice(['base64', 'base64', 'hex', 'urlsafe'])
    elif k == 'enum':
        t['names'] = [cps(s) for s in rng.sample(['red', 'green', 'blue', 'x', 'Yy', 'z_1'], rng.choice([1, 2, 3]))]
    return t


class Universe:
    """generated class tree: classes C0.. (flattened fields, bases first), used as object types"""

    def __init__(self, rng, nclasses=4, depth=3, inherit=True, facets=True, rep=True, kinds=None):
        self.rng, self.facets, self.rep, self.kinds = rng, facets, rep, kinds
        self.classes = []       # ClassDef JSON, bases first
        self.by_name = {}
        for i in range(nclasses):
            self.new_class(depth if i == nclasses - 1 else rng.randrange(1, depth + 1), inherit)

    def new_class(self, depth, inherit=True):
        rng = self.rng
        name = 'C%d' % len(self.classes)
        base = None
        fields = []
        if inherit and self.classes and rng.random() < 0.4:
            base = rng.choice(self.classes)
            fields = list(base['fields'])
        n0 = len(fields)
        # every class has at least one member of its own (spyne registers a subclass without own members
        # under its grandparent)
        for j in range(rng.choice([1, 2, 2, 3, 4])):
            fields.append(['%s_f%d' % (name.lower(), n0 + j), self.gen_ty(depth - 1)])
        cd = {'name': name, 'ns': TNS, 'base': base['name'] if base else None, 'fields': fields}
        self.classes.append(cd)
        self.by_name[name] = cd
        return cd

    def obj_ty(self, cd, o=None):
        return {'k': 'obj', 'name': cd['name'], 'ns': cd['ns'], 'base': cd['base'], 'fields': cd['fields'],
                'occ': o if o is not None else occ()}

    def gen_ty(self, depth, o=None, allow_rep=True):
        rng = self.rng
        allow_rep = allow_rep and self.rep
        o = o if o is not None else gen_occ(rng, allow_rep)
        r = rng.random()
        if depth <= 0 or r < 0.5 or not self.classes and r < 0.8:
            return gen_leaf(rng, rng.choice(self.kinds) if self.kinds else None, o, self.facets)
        if r < 0.7:
            elem = self.gen_ty(depth - 1, occ(rng.random() < 0.7, 0, 1), allow_rep=False)
            return {'k': 'arr', 'member': 'm', 'elem': elem, 'occ': dict(o, max=1)}
        if self.classes:
            return self.obj_ty(rng.choice(self.classes), o)
        return gen_leaf(rng, None, o, self.facets)

    def subclasses(self, name):
        res = []
        for cd in self.classes:
            b = cd['base']
            while b is not None:
                if b == name:
                    res.append(cd)
                    break
                b = self.by_name[b]['base']
        return res

    def registry(self):
        return self.classes


def gen_sig(rng, U, nargs=None, depth=3):
    n = nargs if nargs is not None else rng.choice([1, 1, 2, 3])
    args = [['a%d' % i, U.gen_ty(depth)] for i in range(n)]
    ret = U.gen_ty(depth, occ(), allow_rep=False)
    return {'args': args, 'ret': ret}


# ---- values
def gen_text(rng, t):
    if t.get('values'):
        return list(rng.choice(t['values']))
    mn = t.get('minLen') or 0
    mx = t.get('maxLen')
    p = t.get('pattern')
    if p:
        mn = max(mn, p.get('min', 0))
        if p.get('max') is not None:
            mx = p['max'] if mx is None else min(mx, p['max'])
    hi = mx if mx is not None else mn + rng.choice([0, 1, 3, 8])
    n = rng.choice([mn, hi, rng.randint(mn, max(mn, hi))])
    if p:
        pool = [c for lo, hi2 in p['ranges'] for c in range(lo, hi2 + 1)]
        return [rng.choice(pool) for _ in range(n)]
    return [rng.choice(CHAR_POOL) if rng.random() < 0.5 else rng.randrange(32, 127) for _ in range(n)]


def int_bounds(t):
    lo, hi = KIND_RANGE[t.get('kind', 'unbounded')]
    r = t.get('r') or {}
    if r.get('ge') is not None:
        lo = int(r['ge']) if lo is None else max(lo, int(r['ge']))
    if r.get('gt') is not None:
        lo = int(r['gt']) + 1 if lo is None else max(lo, int(r['gt']) + 1)
    if r.get('le') is not None:
        hi = int(r['le']) if hi is None else min(hi, int(r['le']))
    if r.get('lt') is not None:
        hi = int(r['lt']) - 1 if hi is None else min(hi, int(r['lt']) - 1)
    return lo, hi


BIG_INTS = [0, 1, -1, 2 ** 31, 2 ** 63 - 1, 2 ** 63, -2 ** 63, -2 ** 63 - 1, 2 ** 64 - 1, 2 ** 64, 10 ** 40, -10 ** 40, 2 ** 200]


def gen_one(rng, t, U, none_p=0.15):
    """a conformant non-null value for one occurrence of t (None if impossible)"""
    k = t['k']
    if k == 'int':
        lo, hi = int_bounds(t)
        if lo is not None and hi is not None:
            if lo > hi:
                return None
            return {'i': str(rng.choice([lo, hi, rng.randint(lo, hi), min(hi, max(lo, 0))]))}
        if lo is not None:
            return {'i': str(lo + rng.choice([0, 1, 7, 2 ** 64, 10 ** 30]))}
        if hi is not None:
            return {'i': str(hi - rng.choice([0, 1, 7, 2 ** 64, 10 ** 30]))}
        return {'i': str(rng.choice(BIG_INTS + [rng.randrange(-1000, 1000), rng.getrandbits(rng.choice([8, 62, 64, 65, 130])) * rng.choice([1, -1])]))}
    if k == 'bool':
        return {'b': rng.random() < 0.5}
    if k == 'str':
        return {'s': gen_text(rng, t)}
    if k == 'date':
        return {'date': gen_date(rng)}
    if k == 'time':
        return {'time': gen_time(rng)}
    if k == 'dt':
        d = gen_date(rng)
        tz = rng.choice([None, None, 0, 60, -289, 330, 840, -840, 1439, -1439, rng.randrange(-1439, 1440)])
        if d[0] in (1, 9999) and tz is not None:
            # DateTime.validate_native compares the UTC instant with 0001-01-01Z .. 9999-12-31T23:59:59.999999Z;
            # the shared `validateNative` has no such clause (see fixes/HIER-NOTES.md), so stay inside
            tz = 0
        return {'dt': d + gen_time(rng) + [tz]}
    if k == 'dur':
        return {'dur': str(rng.choice([0, 1, -1, 5, 999999, 10 ** 6, 1500000, DAY, -DAY, DAY + 1, DUR_MIN, DUR_MAX,
                                       rng.randrange(-10 ** 12, 10 ** 12), rng.randrange(DUR_MIN, DUR_MAX)]))}
    if k == 'bytes':
        n = rng.choice([0, 1, 2, 3, 4, 5, 16, 33])
        return {'x': [rng.randrange(256) for _ in range(n)]}
    if k == 'enum':
        return {'e': list(rng.choice(t['names']))}
    if k == 'obj':
        return {'o': [t['name'], [[n, gen_field(rng, ft, U, none_p)] for n, ft in t['fields']]]}
    if k == 'arr':
        n = rng.choice([0, 1, 2, 3])
        return {'l': [gen_item(rng, t['elem'], U, none_p) for _ in range(n)]}
    raise ValueError(k)


def gen_item(rng, t, U, none_p=0.15, allow_none=True):
    """one occurrence: None iff nillable (with probability none_p)"""
    o = t.get('occ') or occ()
    if allow_none and o['nillable'] and rng.random() < none_p:
        return None
    v = gen_one(rng, t, U, none_p)
    if v is None and not o['nillable']:
        raise Unsat()
    return v


def gen_field(rng, t, U, none_p=0.15):
    """value of a member / argument: None, a conformant occurrence, or a list for repeated members"""
    o = t.get('occ') or occ()
    if is_rep(o):
        if o['min'] == 0 and rng.random() < none_p:
            return None
        hi = o['max'] if o['max'] is not None else o['min'] + 3
        n = rng.choice([o['min'], hi, rng.randint(o['min'], hi)])
        return {'l': [gen_item(rng, t, U, none_p / 2) for _ in range(n)]}
    if rng.random() < none_p and (o['min'] == 0 or o['nillable']):
        return None
    try:
        v = gen_item(rng, t, U, none_p, allow_none=False)
    except Unsat:
        v = None
    if v is None and not (o['min'] == 0 or o['nillable']):
        raise Unsat()
    return v


class Unsat(Exception):
    """no conformant value exists for the type (contradictory facets)"""


def gen_date(rng):
    if rng.random() < 0.3:
        return list(rng.choice([(1, 1, 1), (9999, 12, 31), (2024, 2, 29), (2000, 2, 29), (1900, 2, 28), (2020, 12, 31)]))
    d = pydt.date.fromordinal(rng.randrange(1, pydt.date.max.toordinal() + 1))
    return [d.year, d.month, d.day]


def gen_time(rng):
    return [rng.choice([0, 23, rng.randrange(24)]), rng.choice([0, 59, rng.randrange(60)]), rng.choice([0, 59, rng.randrange(60)]),
            rng.choice([0, 0, 1, 5, 500000, 999999, rng.randrange(10 ** 6)])]


# ===================================================================================== python re-statement of `conforms`
def pattern_match(p, s):
    return (all(any(lo <= c <= hi for lo, hi in p['ranges']) for c in s) and p.get('min', 0) <= len(s)
            and (p.get('max') is None or len(s) <= p['max']))


def days_in_month(y, m):
    if m == 2:
        return 29 if (y % 4 == 0 and (y % 100 != 0 or y % 400 == 0)) else 28
    return 30 if m in (4, 6, 9, 11) else 31


def date_ok(a):
    y, m, d = a
    return 1 <= y <= 9999 and 1 <= m <= 12 and 1 <= d <= days_in_month(y, m)


def time_ok(a):
    return a[0] < 24 and a[1] < 60 and a[2] < 60 and a[3] < 10 ** 6


def value_ok(t, v):
    k = t['k']
    if k == 'int' and 'i' in v:
        i = int(v['i'])
        lo, hi = int_bounds(t)
        return (lo is None or lo <= i) and (hi is None or i <= hi)
    if k == 'bool' and 'b' in v:
        return True
    if k == 'str' and 's' in v:
        s = v['s']
        return ((t.get('minLen') or 0) <= len(s) and (t.get('maxLen') is None or len(s) <= t['maxLen'])
                and (not t.get('pattern') or pattern_match(t['pattern'], s))
                and (not t.get('values') or s in t['values']))
    if k == 'date' and 'date' in v:
        return date_ok(v['date'])
    if k == 'time' and 'time' in v:
        return time_ok(v['time'])
    if k == 'dt' and 'dt' in v:
        a = v['dt']
        return date_ok(a[:3]) and time_ok(a[3:7]) and (a[7] is None or -1440 < a[7] < 1440)
    if k == 'dur' and 'dur' in v:
        return DUR_MIN <= int(v['dur']) <= DUR_MAX
    if k == 'bytes' and 'x' in v:
        return all(0 <= b < 256 for b in v['x'])
    if k == 'enum' and 'e' in v:
        return v['e'] in t['names']
    return False


def conforms_one(t, v):
    o = t.get('occ') or occ()
    if v is None:
        return o['nillable']
    k = t['k']
    if k == 'obj':
        if 'o' not in v or v['o'][0] != t['name']:
            return False
        return conforms_fields(t['fields'], v['o'][1])
    if k == 'arr':
        return 'l' in v and all(conforms_one(t['elem'], x) for x in v['l'])
    return value_ok(t, v)


def conforms(t, v):
    o = t.get('occ') or occ()
    if is_rep(o):
        if v is None:
            return o['min'] == 0
        if 'l' not in v:
            return False
        n = len(v['l'])
        return o['min'] <= n and (o['max'] is None or n <= o['max']) and all(conforms_one(t, x) for x in v['l'])
    return conforms_one(t, v)


def conforms_fields(fields, fvs):
    if len(fields) != len(fvs):
        return False
    for (n, t), (m, v) in zip(fields, fvs):
        if n != m:
            return False
        o = t.get('occ') or occ()
        if v is None:
            if not (o['min'] == 0 or (o['nillable'] and not is_rep(o))):
                return False
        elif not conforms(t, v):
            return False
    return True


# ===================================================================================== reference codec (documented conventions)
def iso_date(a):
    return '%04d-%02d-%02d' % tuple(a)


def iso_time(a):
    return '%02d:%02d:%02d' % tuple(a[:3]) + ('.%06d' % a[3] if a[3] else '')


def iso_offset(m):
    return ('-' if m < 0 else '+') + '%02d:%02d' % divmod(abs(m), 60)


def iso_dur(us):
    """xs:duration for a number of microseconds (canonical D/H/M/S split)"""
    neg, v = us < 0, abs(us)
    days, rem = divmod(v, DAY)
    secs, micro = divmod(rem, 10 ** 6)
    h, m, s = secs // 3600, secs // 60 % 60, secs % 60
    out = ('-P' if neg else 'P') + ('%dD' % days if days else '')
    tpart = ('%dH' % h if h else '') + ('%dM' % m if m else '')
    if s or micro:
        tpart += '%d' % s + ('.%06d' % micro if micro else '') + 'S'
    if not tpart and not days:
        tpart = '0S'
    return out + ('T' + tpart if tpart else '')


def ref_leaf(cfg, t, v):
    """documented wire form of a non-null leaf value"""
    mp = cfg['proto'].startswith('msgpack')
    k = t['k']
    if k == 'int':
        i = int(v['i'])
        if mp and not (-2 ** 63 <= i < 2 ** 64):
            return str(i)
        return i
    if k == 'bool':
        return v['b']
    if k == 'str':
        return uncps(v['s'])
    if k == 'date':
        return iso_date(v['date'])
    if k == 'time':
        return iso_time(v['time'])
    if k == 'dt':
        a = v['dt']
        return iso_date(a[:3]) + 'T' + iso_time(a[3:7]) + ('' if a[7] is None else iso_offset(a[7]))
    if k == 'dur':
        return iso_dur(int(v['dur']))
    if k == 'bytes':
        b = bytes(v['x'])
        enc = t.get('enc', 'base64')
        if enc == 'hex':
            return binascii.hexlify(b).decode('ascii')
        if enc == 'urlsafe':
            return base64.urlsafe_b64encode(b).decode('ascii')
        return b if mp else base64.b64encode(b).decode('ascii')
    if k == 'enum':
        return uncps(v['e'])
    if k == 'dec':
        return v['dec']
    if k == 'dbl':
        return float(v['dbl'])
    if k == 'uuid':
        return str(pyuuid.UUID(hex=v['uuid']))
    raise ValueError(k)


def ref_key(cfg, n, bytes_keys=False):
    return n.encode('utf8') if bytes_keys else n


def ref_encode(cfg, t, v, U=None, bytes_keys=False, item=False):
    """reference encoder: native value (Val JSON) -> python document by the documented conventions"""
    o = t.get('occ') or occ()
    if v is None:
        return None
    if is_rep(o) and not item:
        return [ref_encode(cfg, t, x, U, bytes_keys, True) for x in v['l']]
    k = t['k']
    if k == 'arr':
        return [ref_encode(cfg, t['elem'], x, U, bytes_keys, True) for x in v['l']]
    if k == 'obj':
        cname, fvs = v['o']
        fields = t['fields'] if cname == t['name'] else U.by_name[cname]['fields']
        if cfg['cas'] == 'list':
            body = [ref_encode(cfg, ft, fv, U, bytes_keys) for (n, ft), (_, fv) in zip(fields, fvs)]
        else:
            body = {}
            for (n, ft), (_, fv) in zip(fields, fvs):
                if fv is not None:
                    body[ref_key(cfg, n, bytes_keys)] = ref_encode(cfg, ft, fv, U, bytes_keys)
        if cfg['iw']:
            return body
        return {ref_key(cfg, cname, bytes_keys): body}
    return ref_leaf(cfg, t, v)


def ref_request(cfg, method, in_ty, args_val, U=None, bytes_keys=False):
    """request document: method name as the single key (msgpack-rpc: [0, msgid, method, params])"""
    body = ref_encode(dict(cfg, iw=True), in_ty, args_val, U, bytes_keys)
    # nested objects carry wrappers when the protocol does not ignore them
    if not cfg['iw']:
        body = ref_encode(cfg, in_ty, args_val, U, bytes_keys)
        body = next(iter(body.values()))
    if cfg['proto'] == 'msgpackrpc':
        return [0, 1, method, body if cfg['iw'] else {ref_key(cfg, method, bytes_keys): body}]
    return {ref_key(cfg, method, bytes_keys): body}


class RefError(Exception):
    pass


def as_text(cfg, d):
    if isinstance(d, str):
        return d
    if isinstance(d, bytes) and cfg['proto'].startswith('msgpack'):
        return d.decode('utf8')
    raise RefError('text expected, got %r' % type(d).__name__)


def ref_leaf_in(cfg, t, d):
    k = t['k']
    if k == 'int':
        if isinstance(d, bool) or not isinstance(d, int):
            return {'i': str(int(as_text(cfg, d)))}
        return {'i': str(d)}
    if k == 'bool':
        if not isinstance(d, bool):
            raise RefError('bool expected')
        return {'b': d}
    if k == 'str':
        return {'s': cps(as_text(cfg, d))}
    if k == 'date':
        x = pydt.date.fromisoformat(as_text(cfg, d))
        return {'date': [x.year, x.month, x.day]}
    if k == 'time':
        x = pydt.time.fromisoformat(as_text(cfg, d))
        return {'time': [x.hour, x.minute, x.second, x.microsecond]}
    if k == 'dt':
        x = pydt.datetime.fromisoformat(as_text(cfg, d))
        off = x.utcoffset()
        tz = None if off is None else (off.days * 86400 + off.seconds) // 60
        return {'dt': [x.year, x.month, x.day, x.hour, x.minute, x.second, x.microsecond, tz]}
    if k == 'dur':
        return {'dur': str(parse_dur(as_text(cfg, d)))}
    if k == 'bytes':
        enc = t.get('enc', 'base64')
        if enc == 'base64' and cfg['proto'].startswith('msgpack'):
            if not isinstance(d, bytes):
                raise RefError('bin expected')
            return {'x': list(d)}
        s = as_text(cfg, d)
        if enc == 'hex':
            return {'x': list(binascii.unhexlify(s))}
        if enc == 'urlsafe':
            return {'x': list(base64.urlsafe_b64decode(s))}
        return {'x': list(base64.b64decode(s, validate=True))}
    if k == 'enum':
        return {'e': cps(as_text(cfg, d))}
    if k == 'dec':
        return {'dec': str(decimal.Decimal(as_text(cfg, d) if not isinstance(d, (int, float)) or isinstance(d, bool) else repr(d)))}
    if k == 'dbl':
        if isinstance(d, bool) or not isinstance(d, (int, float)):
            raise RefError('number expected')
        return {'dbl': repr(float(d))}
    if k == 'uuid':
        return {'uuid': pyuuid.UUID(as_text(cfg, d)).hex}
    raise ValueError(k)


def parse_dur(s):
    import re
    m = re.fullmatch(r'(-?)P(?:(\d+)D)?(?:T(?:(\d+)H)?(?:(\d+)M)?(?:(\d+)(?:\.(\d+))?S)?)?', s)
    if not m:
        raise RefError('duration %r' % s)
    sg, d, h, mi, sec, fr = m.groups()
    us = ((int(d or 0) * 24 + int(h or 0)) * 60 + int(mi or 0)) * 60 * 10 ** 6 + int(sec or 0) * 10 ** 6
    if fr:
        if len(fr) > 6:
            raise RefError('fraction')
        us += int(fr.ljust(6, '0'))
    return -us if sg else us


def key_text(cfg, k):
    if isinstance(k, str):
        return k
    if isinstance(k, bytes) and cfg['proto'].startswith('msgpack'):
        return k.decode('utf8')
    raise RefError('key %r' % (k,))


def ref_decode(cfg, t, d, U=None, item=False):
    """reference decoder: python document -> Val JSON by the documented conventions"""
    o = t.get('occ') or occ()
    if d is None:
        return None
    if is_rep(o) and not item:
        if not isinstance(d, (list, tuple)):
            raise RefError('list expected')
        return {'l': [ref_decode(cfg, t, x, U, True) for x in d]}
    k = t['k']
    if k == 'arr':
        if not isinstance(d, (list, tuple)):
            raise RefError('list expected')
        return {'l': [ref_decode(cfg, t['elem'], x, U, True) for x in d]}
    if k == 'obj':
        cname, fields = t['name'], t['fields']
        if not cfg['iw'] and cfg['cas'] != 'list':
            if not isinstance(d, dict) or len(d) != 1:
                raise RefError('wrapper expected')
            (wk, d), = d.items()
            wk = key_text(cfg, wk)
            if wk != cname:
                sub = [c for c in (U.subclasses(cname) if U else []) if c['name'] == wk]
                if not sub:
                    raise RefError('unknown class %r' % wk)
                cname, fields = wk, sub[0]['fields']
        if isinstance(d, dict):
            dd = {key_text(cfg, kk): vv for kk, vv in d.items()}
            for kk in dd:
                if kk not in [n for n, _ in fields]:
                    raise RefError('unknown member %r' % kk)
            return {'o': [cname, [[n, ref_decode(cfg, ft, dd.get(n), U)] for n, ft in fields]]}
        if isinstance(d, (list, tuple)):
            if len(d) != len(fields):
                raise RefError('positional arity')
            return {'o': [cname, [[n, ref_decode(cfg, ft, x, U)] for (n, ft), x in zip(fields, d)]]}
        raise RefError('object expected')
    return ref_leaf_in(cfg, t, d)


def ref_response(cfg, method, ret_ty, d, U=None):
    """response document -> returned value"""
    if cfg['proto'] == 'msgpackrpc':
        if not (isinstance(d, (list, tuple)) and len(d) == 4 and d[0] == 1 and d[2] is None):
            raise RefError('msgpack-rpc response envelope')
        d = d[3]
        wrapped = True
    else:
        wrapped = not cfg['iw']
    if wrapped:
        if cfg['cas'] == 'list':
            if not isinstance(d, (list, tuple)) or len(d) != 1:
                raise RefError('positional response')
            d = d[0]
        else:
            if not (cfg['iw'] and cfg['proto'] == 'msgpackrpc'):
                if not isinstance(d, dict) or len(d) != 1:
                    raise RefError('response wrapper')
                (wk, d), = d.items()
                if key_text(cfg, wk) != method + 'Response':
                    raise RefError('response wrapper name')
            if not isinstance(d, dict) or len(d) > 1:
                raise RefError('result member')
            if len(d) == 0:
                return None
            (wk, d), = d.items()
            if key_text(cfg, wk) != method + 'Result':
                raise RefError('result member name')
    return ref_decode(cfg, ret_ty, d, U)


# ===================================================================================== cases
ALL_CFGS = [{'proto': p, 'validator': v, 'iw': iw, 'cas': cas, 'poly': False}
            for p in PROTOS for v in (None, 'soft') for iw in (True, False) for cas in ('dict', 'list')]


def strip_item(t):
    return {k: v for k, v in t.items() if k != '_item'}


def fully_populated(v):
    """no None at a member position (positional form is documented for fully populated objects)"""
    if v is None:
        return False
    if 'o' in v:
        return all(fully_populated(x) for _, x in v['o'][1])
    if 'l' in v:
        return all(fully_populated(x) for x in v['l'])
    return True


class Case:
    """one generated scenario: universe, signature, builder, implementation"""

    def __init__(self, rng, **kw):
        self.rng = rng
        for _ in range(50):
            self.U = Universe(rng, **kw)
            self.B = Builder()
            try:
                self.B.register(self.U.classes)
                break
            except ValueError:
                continue        # spyne refuses contradictory facets at class creation (e.g. lt <= min_bound)
        self.B.universe_fields = {c['name']: c['fields'] for c in self.U.classes}
        for _ in range(50):
            try:
                self.sig = gen_sig(rng, self.U)
                self.impl = Impl(self.B, self.sig)
                self.impl.server(CFG_DEFAULT)       # the interface must accept the signature
                break
            except (ValueError, AssertionError):
                continue
        self.in_ty = self.impl.in_ty()

    def gen_args(self, none_p=0.15):
        for _ in range(20):
            try:
                return {'o': ['f', [[n, gen_field(self.rng, t, self.U, none_p)] for n, t in self.sig['args']]]}
            except Unsat:
                continue
        return None

    def query(self, op, cfg, **kw):
        q = {'op': op, 'cfg': cfg, 'reg': self.U.registry()}
        q.update(kw)
        return q


# ===================================================================================== T1 facts
GOOD_FACTS = {'occCount': 'perItem', 'mpNameAnyKey': True, 'nullComplexIsNone': True, 'repeatedScalarFault': True,
              'leafKindFault': True, 'boolCoerced': True, 'utf8Fault': True, 'jsonNullDateOk': True,
              'intFromFloat': True, 'nativeKindFault': True, 'binKindFault': True, 'rawBytesKindFault': True, 'missingBodyFault': True}

FACT_WHAT = {
    'occCount': 'D09: _doc_to_object counts one occurrence per key, not per item: 3 items pass max_occurs=2 and 2 items '
                'fail min_occurs=2 under soft validation (hier.py:358)',
    'mpNameAnyKey': 'D10: MessagePackDocument looks the request body up under the bytes method name only; a str-keyed '
                    'request loses its arguments and ends in a Server fault (msgpack.py get_class_name / hier.py:93)',
    'nullComplexIsNone': 'a null in the place of an object/array member is delivered to user code as [] instead of None '
                         '(hier.py:245 via _from_dict_value)',
    'repeatedScalarFault': 'a scalar in the place of a repeated member (max_occurs>1) raises TypeError at hier.py:349 '
                           'instead of a ValidationError',
    'leafKindFault': 'a non-text document node for Date/Time/DateTime/Duration reaches re.match/strptime and raises '
                     'TypeError instead of a ValidationError (validator=None; yaml/msgpack also with soft)',
    'boolCoerced': '_ret_bool hands the number 1/0 (int or float) to user code where a bool is declared',
    'utf8Fault': 'undecodable bytes for a Unicode member raise UnicodeDecodeError instead of a ValidationError',
    'jsonNullDateOk': 'JsonDocument.validate rejects null for nillable Date/Time/DateTime members (json.py:143); yaml and '
                      'msgpack accept it',
    'intFromFloat': 'an integral float (2.0) for an Integer member is delivered to user code as float',
    'nativeKindFault': 'validate_native compares a foreign document node (e.g. a YAML timestamp in an Integer slot) with '
                       'Decimal bounds and raises TypeError',
    'binKindFault': 'ByteArray text decoders raise TypeError instead of a ValidationError: from_urlsafe_base64 takes len() of a '
                    'number (binary.py:149); from_base64/from_hex join a list of non-bytes outside the try (binary.py:122,161)',
    'rawBytesKindFault': 'MessagePack: a ByteArray without text encoding wraps any document node (str, int, list) into a '
                         'tuple and hands it to user code, also under soft validation',
    'missingBodyFault': 'a request whose body under the method name is null / missing calls the user function without '
                        'arguments: TypeError, Server fault (hier.py:93-96,245)',
}


def _probe(sig_args, cfg, pydoc, ret=None):
    B = Builder()
    impl = Impl(B, {'args': sig_args, 'ret': {'k': 'int', 'occ': occ()}})
    return impl.run(dict(CFG_DEFAULT, **cfg), dump(cfg.get('proto', 'json'), pydoc)), impl


FACT_WITNESS = {
    'occCount': ([['m', {'k': 'int', 'occ': occ(True, 0, 2)}]], {'validator': 'soft'}, {'f': {'m': [1, 2, 3]}}),
    'mpNameAnyKey': ([['a', {'k': 'int', 'occ': occ()}]], {'proto': 'msgpack'}, {'f': {'a': 1}}),
    'nullComplexIsNone': ([['o', {'k': 'obj', 'name': 'P0', 'ns': TNS, 'base': None,
                                  'fields': [['x', {'k': 'int', 'occ': occ()}]], 'occ': occ()}]], {}, {'f': {'o': None}}),
    'repeatedScalarFault': ([['m', {'k': 'int', 'occ': occ(True, 0, 2)}]], {}, {'f': {'m': 5}}),
    'leafKindFault': ([['d', {'k': 'date', 'occ': occ()}]], {}, {'f': {'d': 5}}),
    'boolCoerced': ([['b', {'k': 'bool', 'occ': occ()}]], {'validator': 'soft'}, {'f': {'b': 1}}),
    'utf8Fault': ([['s', {'k': 'str', 'occ': occ()}]], {'proto': 'msgpack', 'validator': 'soft'}, {b'f': {b's': b'\xff'}}),
    'jsonNullDateOk': ([['d', {'k': 'date', 'occ': occ()}]], {'validator': 'soft'}, {'f': {'d': None}}),
    'intFromFloat': ([['i', {'k': 'int', 'occ': occ()}]], {'validator': 'soft'}, {'f': {'i': 2.0}}),
    'nativeKindFault': ([['i', {'k': 'int', 'occ': occ()}]], {'proto': 'yaml', 'validator': 'soft'},
                        {'f': {'i': pydt.date(2020, 1, 2)}}),
    'binKindFault': ([['x', {'k': 'bytes', 'enc': 'urlsafe', 'occ': occ()}], ['y', {'k': 'bytes', 'occ': occ()}]], {},
                     {'f': {'x': 5}}, {'f': {'y': [1]}}),
    'rawBytesKindFault': ([['x', {'k': 'bytes', 'occ': occ()}]], {'proto': 'msgpack', 'validator': 'soft'},
                          {b'f': {b'x': 'abc'}}),
    'missingBodyFault': ([['a', {'k': 'int', 'occ': occ()}]], {}, {'f': None}),
}


def measure_facts():
    f, obs = {}, {}
    for name, w in FACT_WITNESS.items():
        args, cfg, doc = w[0], w[1], w[2]
        r, _ = _probe(args, cfg, doc)
        o = r['outcome']
        for extra in w[3:]:             # every witness document has to be answered with a fault
            o2 = _probe(args, cfg, extra)[0]['outcome']
            if 'fault' not in o2:
                o = o2
        obs[name] = o
        if name == 'occCount':
            f[name] = 'perItem' if 'fault' in o else 'perKey'
        elif name in ('mpNameAnyKey',):
            f[name] = 'ok' in o
        elif name == 'nullComplexIsNone':
            f[name] = o == {'ok': {'o': ['f', [['o', None]]]}}
        elif name in ('repeatedScalarFault', 'leafKindFault', 'utf8Fault', 'nativeKindFault', 'missingBodyFault',
                      'binKindFault', 'rawBytesKindFault'):
            f[name] = 'fault' in o
        elif name == 'boolCoerced':
            f[name] = o == {'ok': {'o': ['f', [['b', {'b': True}]]]}}
        elif name == 'jsonNullDateOk':
            f[name] = 'ok' in o
        elif name == 'intFromFloat':
            f[name] = o == {'ok': {'o': ['f', [['i', {'i': '2'}]]]}}
    return f, obs


def facts_lean(f):
    b = lambda x: 'true' if x else 'false'
    lines = ['  occCount := .%s' % f['occCount']]
    for k in ['mpNameAnyKey', 'nullComplexIsNone', 'repeatedScalarFault', 'leafKindFault', 'boolCoerced', 'utf8Fault',
              'jsonNullDateOk', 'intFromFloat', 'nativeKindFault', 'binKindFault', 'rawBytesKindFault', 'missingBodyFault']:
        lines.append('  %s := %s' % (k, b(f[k])))
    return ('-- GENERATED by harness/hierblock.py (T1) from /repo on every run. Do not edit.\n'
            'import SpyneModel.Hier\nnamespace SpyneModel.Generated\nopen SpyneModel SpyneModel.Hier\n\n'
            'def facts02 : Facts02 where\n' + '\n'.join(lines) + '\n\nend SpyneModel.Generated\n')


def t1(ctx):
    """measure the behaviour switches, regenerate Facts02.lean, report bad switches with their witnesses"""
    f, obs = measure_facts()
    ctx.facts02 = f
    ctx.write_generated('Facts02.lean', facts_lean(f))
    for k, good in GOOD_FACTS.items():
        if f[k] != good:
            args, cfg, doc = FACT_WITNESS[k][:3]
            ctx.hit('fact-bad:' + k)
            ctx.finding('switch:%s=%s' % (k, f[k]), FACT_WHAT[k],
                        {'op': 'witness', 'fact': k, 'measured': f[k], 'args': args, 'cfg': dict(CFG_DEFAULT, **cfg),
                         'doc': doc_to_json(doc), 'observed': obs[k]})
    return f


# ===================================================================================== document mutation
NASTY_TEXT = ['', ' ', 'x', 'ab', 'true', 'false', '1', '0', '-1', '1.5', '1e3', 'null', 'None', '2020-01-02', '2020-13-01',
              '2020-01-02T03:04:05', '2020-01-02T03:04:05Z', '2020-01-02T03:04:05+25:00', '24:00:00', '12:00:00', '12:00:00xyz',
              'P1D', 'PT1.5S', 'P', 'hello', 'YWJj', 'YWJ', '0102ff', '0102f', 'zz', '====', 'é', '\x00', '1_0', ' 1',
              '9' * 30, '1' * 1025, 'red', 'a', 'bb']


def scalar_pool(rng, proto):
    pool = [None, True, False, 0, 1, 2, 5, -1, 255, 256, 2 ** 63, 2 ** 64 - 1, 1.0, 2.0, 0.0, 1.5, -0.5,
            [], [1], ['a'], [None], [[1]], {}, {'k': 1}, {'a': {'b': 1}}] + [rng.choice(NASTY_TEXT) for _ in range(6)]
    if proto in ('json', 'yaml'):
        pool += [2 ** 70, -2 ** 70, float('inf'), float('nan')]
    if proto != 'json':
        pool += [b'', b'ab', b'\xff\xfe', b'12', b'YWJj', b'2020-01-02', 'h\xe9'.encode('utf8')]
    if proto == 'yaml':
        pool += [pydt.date(2020, 1, 2), pydt.datetime(2020, 1, 2, 3, 4, 5)]
    return pool


def paths(doc, pre=()):
    """all node paths of a python document"""
    yield pre
    if isinstance(doc, dict):
        for k, v in doc.items():
            yield from paths(v, pre + (k,))
    elif isinstance(doc, list):
        for i, v in enumerate(doc):
            yield from paths(v, pre + (i,))


def get_at(doc, path):
    for p in path:
        doc = doc[p]
    return doc


def set_at(doc, path, val):
    if not path:
        return val
    parent = get_at(doc, path[:-1])
    parent[path[-1]] = val
    return doc


def deep(doc):
    if isinstance(doc, dict):
        return {k: deep(v) for k, v in doc.items()}
    if isinstance(doc, list):
        return [deep(v) for v in doc]
    return doc


def mutate_doc(rng, doc, proto, names=()):
    """one structure-aware mutation of a request document; returns (new_doc, tag)"""
    doc = deep(doc)
    ps = list(paths(doc))
    op = rng.choice(['kind', 'kind', 'kind', 'text', 'delkey', 'addkey', 'renkey', 'dupitem', 'delitem', 'wraplist',
                     'wrapdict', 'tolist', 'todict', 'keykind', 'rewrap', 'swap'])
    path = rng.choice(ps)
    node = get_at(doc, path)
    if op == 'kind':
        return set_at(doc, path, rng.choice(scalar_pool(rng, proto))), 'kind'
    if op == 'text':
        leaves = [p for p in ps if isinstance(get_at(doc, p), str)]
        if leaves:
            p = rng.choice(leaves)
            s = get_at(doc, p)
            t = rng.choice(NASTY_TEXT) if rng.random() < 0.5 else _edit(rng, s)
            return set_at(doc, p, t), 'text'
        return set_at(doc, path, rng.choice(NASTY_TEXT)), 'text'
    dicts = [p for p in ps if isinstance(get_at(doc, p), dict)]
    lists = [p for p in ps if isinstance(get_at(doc, p), list)]
    if op in ('delkey', 'addkey', 'renkey', 'keykind', 'rewrap', 'tolist') and dicts:
        p = rng.choice(dicts)
        d = get_at(doc, p)
        if op == 'delkey' and d:
            del d[rng.choice(list(d))]
            return doc, 'delkey'
        if op == 'addkey':
            d[rng.choice(['zz', 'unknown', '', 'f'] + list(names))] = rng.choice(scalar_pool(rng, proto))
            return doc, 'addkey'
        if op == 'renkey' and d:
            k = rng.choice(list(d))
            v = d.pop(k)
            d[rng.choice(['zz', ''] + list(names))] = v
            return doc, 'renkey'
        if op == 'keykind' and d and proto != 'json':
            k = rng.choice(list(d))
            v = d.pop(k)
            if isinstance(k, str):
                nk = k.encode('utf8') if rng.random() < 0.7 or proto != 'yaml' else rng.choice([1, 0, 7, pydt.date(2020, 1, 2)])
            elif isinstance(k, bytes):
                nk = rng.choice([k.decode('utf8', 'replace'), b'\xff' + k])
            else:
                nk = 'k'
            d[nk] = v
            return doc, 'keykind'
        if op == 'rewrap' and len(d) == 1:
            k = next(iter(d))
            v = d.pop(k)
            nk = rng.choice(list(names) + ['Nope'])
            d[nk if isinstance(k, str) else nk.encode('utf8')] = v
            return doc, 'rewrap'
        if op == 'tolist':
            return set_at(doc, p, list(d.values())), 'tolist'
    if op in ('dupitem', 'delitem', 'todict', 'swap') and lists:
        p = rng.choice(lists)
        l = get_at(doc, p)
        if op == 'dupitem' and l:
            l.insert(rng.randrange(len(l) + 1), deep(rng.choice(l)))
            return doc, 'dupitem'
        if op == 'delitem' and l:
            del l[rng.randrange(len(l))]
            return doc, 'delitem'
        if op == 'swap' and len(l) > 1:
            i, j = rng.sample(range(len(l)), 2)
            l[i], l[j] = l[j], l[i]
            return doc, 'swap'
        if op == 'todict':
            return set_at(doc, p, {('k%d' % i): v for i, v in enumerate(l)}), 'todict'
    if op == 'wraplist':
        return set_at(doc, path, [node]), 'wraplist'
    if op == 'wrapdict':
        return set_at(doc, path, {rng.choice(list(names) + ['w']): node}), 'wrapdict'
    return set_at(doc, path, rng.choice(scalar_pool(rng, proto))), 'kind'


def _edit(rng, s):
    alphabet = '0123456789-:.TZ+ xPYMDHSabcé_='
    if not s:
        return rng.choice(alphabet)
    i = rng.randrange(len(s) + 1)
    op = rng.randrange(4)
    if op == 0:
        return s[:i] + rng.choice(alphabet) + s[i:]
    if op == 1 and i < len(s):
        return s[:i] + s[i + 1:]
    if op == 2 and i < len(s):
        return s[:i] + rng.choice(alphabet) + s[i + 1:]
    return s[:i] + s[i:i + 2][::-1] + s[i + 2:]


def has_text_bytes(t):
    """does the type contain a ByteArray leaf that is carried as base64 / hex text?"""
    k = t['k']
    if k == 'bytes':
        return True
    if k == 'obj':
        return any(has_text_bytes(ft) for _, ft in t['fields'])
    if k == 'arr':
        return has_text_bytes(t['elem'])
    return False


def lenient_only(s):
    """CPython's non-validating b64decode accepts `s` (skipping foreign characters) although it is not a
    base64 / urlsafe-base64 literal: outside the shared (strict) Binary model"""
    if isinstance(s, str):
        try:
            s = s.encode('ascii')
        except UnicodeEncodeError:
            return True
    for url in (False, True):
        try:
            (base64.urlsafe_b64decode if url else base64.b64decode)(s)
        except Exception:
            continue
        try:
            t = s.translate(bytes.maketrans(b'-_', b'+/')) if url else s
            if url and (b'+' in s or b'/' in s):
                return True
            base64.b64decode(t, validate=True)
        except Exception:
            return True
    return False


def modelled_doc(pydoc, in_ty):
    """is the (parsed) request inside what the Lean leaf model covers?  Excluded: base64 text that only
    CPython's lenient decoder accepts when the signature has a text-encoded ByteArray; non-ASCII text where a
    date/time/duration is expected is handled by the leaf model (fault) and stays in."""
    if not has_text_bytes(in_ty):
        return True
    for p in paths(pydoc):
        n = get_at(pydoc, p)
        if isinstance(n, (str, bytes)) and lenient_only(n):
            return False
        if isinstance(n, str) and any(lenient_only(c) for c in set(n)):
            return False        # strings are iterated character by character where a sequence is expected
        if isinstance(n, dict):
            for k in n:
                if isinstance(k, (str, bytes)) and lenient_only(k):
                    return False
    return True
