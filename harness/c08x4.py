"""C08, round 4 — dimensions of the anchored code that no earlier generator reached (coverage/C08.md):

 D1  the bytes entry points (`to_bytes` / `from_bytes`, used by MessagePackDocument and HttpRpc) of every primitive
 D2  `DateTime(dt_format=…)` / `Date(date_format=…)` over the directives %Y %m %d %H %M %S (model: Prim2.lean
     `renderFmt` / `strptimeFmt`; theorems dt_format_roundtrip, date_format_roundtrip, …), also with as_timezone
 D3  `Uuid(serialize_as=…)`
 D4  ByteArray value shapes (several chunks, tuple, bare bytes, memoryview, mmap) and the protocol's default encoding
 D5  a `datetime` handed to Date / Time
 D6  `format` / `str_format` of Decimal, Double, Integer, Unicode (reference: Python's own operators)
 D7  Unicode / AnyUri / String with an `encoding`, text arriving as bytes
 D8  digit-bounded Decimals (`Decimal(total_digits, fraction_digits)`): their own length guard
 D9  `None` and the empty string (`empty_is_none`)

Called by c08x.run_extra with its closures; queries for the model go to the same list.
"""
import datetime as pydt
import mmap
import uuid as pyuuid
from decimal import Decimal as D

from .c08 import outcome, cps, uncps, c_dt, c_date, c_time, td_us, mutate_text

DIRS = 'YmdHMS'
SEPS = ['-', '/', '.', ':', ',', ';', '_', 'T', 't', 'x', 'Z', '@', '#', '~', ' ', '+', '(', ')', '|', '*', '?', '$', '^', 'h']


# ------------------------------------------------------------------------------------ T1
def measure_facts(protos, P, f):
    import pytz
    b = protos['base']
    o = outcome(lambda: b.to_unicode(P.DateTime(dt_format='%Y'), pydt.datetime(999, 1, 2)))
    f['oldYearPad'] = {'0999': 'zero', ' 999': 'space'}.get(o.get('ok'), 'other')
    o = outcome(lambda: b.from_unicode(P.DateTime(dt_format='%Y-%m-%d'), 'junk'))
    f['fmtErrorsAreFaults'] = 'fault' in o
    o = outcome(lambda: c_dt(b.from_unicode(P.DateTime(dt_format='%Y-%m-%d %H:%M:%S', as_timezone=pytz.FixedOffset(330)),
                                            '2020-01-02 03:04:05')))
    f['fmtAsTz'] = 'replace' if o == {'ok': [2020, 1, 2, 3, 4, 5, 0, 330]} else ('systemLocal' if 'ok' in o else 'other')
    f['fmtAsTzProbe'] = o
    o = outcome(lambda: protos['soap11'].to_unicode(P.Date(date_format='%d.%m.%Y'), pydt.date(2020, 1, 2)))
    f['soapDateIso'] = o == {'ok': '2020-01-02'}
    from spyne.model import ByteArray
    o = [outcome(lambda: b''.join(b.from_unicode(ByteArray(encoding='base64'), s))) for s in ('AAEC AwQF', 'AAEC\r\nAwQF', 'Y Q = =')]
    f['b64IgnoresWhitespace'] = o == [{'ok': bytes(range(6))}, {'ok': bytes(range(6))}, {'ok': b'a'}]
    f['b64IgnoresWhitespaceProbe'] = str(o)
    from spyne.model.binary import BINARY_ENCODING_BASE64
    o = [outcome(lambda: protos[pn].to_unicode(ByteArray(encoding='hex'), [b'\xfb\xff'], BINARY_ENCODING_BASE64)) for pn in ('xml', 'base')]
    o.append(outcome(lambda: protos['xml'].to_bytes(ByteArray(encoding='hex'), [b'\xfb\xff'], BINARY_ENCODING_BASE64)))
    f['declaredBeatsSuggested'] = o == [{'ok': 'fbff'}, {'ok': 'fbff'}, {'ok': b'fbff'}]
    f['declaredBeatsSuggestedProbe'] = str(o)
    return f


def facts_lean_fields(f):
    return ('  oldYearPad := .%s\n  fmtErrorsAreFaults := %s\n  fmtAsTz := .%s\n  soapDateIso := %s\n  b64IgnoresWhitespace := %s\n'
            '  declaredBeatsSuggested := %s\n'
            % (f['oldYearPad'], 'true' if f['fmtErrorsAreFaults'] else 'false', f['fmtAsTz'],
               'true' if f['soapDateIso'] else 'false', 'true' if f['b64IgnoresWhitespace'] else 'false',
               'true' if f['declaredBeatsSuggested'] else 'false'))


SWITCH_WITNESS = {
    'oldYearPad': ('zero', "DateTime/Date with a dt_format/date_format write years below 1000 as %r-padded text that "
                           "strptime('%%Y') does not read back (witness: datetime(999, 1, 2) with dt_format='%%Y')"),
    'fmtAsTz': ('replace', "DateTime(dt_format=…, as_timezone=tz) does not put what it reads into tz (measured: %r): the "
                           "as_timezone branch of _datetime_from_unicode reads the attribute `as_time_zone`, i.e. converts to "
                           "the machine's local zone"),
    'b64IgnoresWhitespace': (True, "ByteArray.from_base64 does not skip the white space the xs:base64Binary lexical space allows "
                                   "('AAEC AwQF', line-wrapped MIME/PEM output): %s"),
    'declaredBeatsSuggested': (True, "ByteArray(encoding='hex') is not written in hex when the protocol suggests base64 (as XmlDocument/Soap always "
                                     "do): [xml, base to_unicode, xml to_bytes] of b'\\xfb\\xff' = %s — not an xs:hexBinary literal, refused on read"),
    'soapDateIso': (True, "Soap11/Soap12 write a Date(date_format=…) in the custom format but read ISO dates only (iso output: %r): "
                          "their own output is rejected"),
}


# ------------------------------------------------------------------------------------ formats
def fmt_items(fmt):
    """format string (from our generator) -> items for the driver"""
    out, i = [], 0
    while i < len(fmt):
        if fmt[i] == '%':
            out.append(fmt[i + 1]); i += 2
        else:
            out.append(ord(fmt[i])); i += 1
    return out


def fmt_wf(fmt):
    items = fmt_items(fmt)
    seen = set()
    for k, it in enumerate(items):
        nxt = items[k + 1] if k + 1 < len(items) else None
        if isinstance(it, str):
            if it in seen or isinstance(nxt, str):
                return False
            seen.add(it)
        else:
            if chr(it).isdigit() or chr(it) == '%':
                return False
            if chr(it).isspace() and isinstance(nxt, int) and chr(nxt).isspace():
                return False
    return True


FIXED_DT_FMTS = ['%Y-%m-%d %H:%M:%S', '%d/%m/%Y %H.%M.%S', '%Y-%m-%dT%H:%M:%S', '%d.%m.%Y %Hh%M:%S', '%S:%M:%H %d-%m-%Y',
                 '%Y%m%d%H%M%S', '%Y%m%dT%H%M%S', '%Y-%m-%d', '%H:%M', '%Y', '(%Y|%m|%d) %H*%M?%S$', '%m/%d/%Y %H:%M:%S',
                 '%Y_%m_%d_%H_%M_%S', 'x%Y-%m-%d %H:%M:%Sx', '%Y-%m-%d  %H:%M:%S']
FIXED_DATE_FMTS = ['%Y/%m/%d', '%d.%m.%Y', '%m-%d-%Y', '%Y%m%d', '%Y-%m-%d', '%d %m %Y', 'D%dM%mY%Y', '%Y-%m', '%Y-%m-%d %H:%M:%S']


def gen_fmt(rng, dirs):
    dirs = list(dirs)
    rng.shuffle(dirs)
    s = rng.choice(['', '', '', rng.choice(SEPS)])
    for k, d in enumerate(dirs):
        s += '%' + d
        if k + 1 < len(dirs) or rng.random() < 0.2:
            sep = rng.choice(SEPS)
            if rng.random() < 0.25:
                s2 = rng.choice(SEPS)
                if not (sep == ' ' and s2 == ' '):
                    sep += s2
            s += sep
    if '  ' in s or (s.startswith(' ') and False):
        s = s.replace('  ', ' ')
    return s


def run(ctx, protos, P, lex, f, add, check_same, dts, dates, times):
    import pytz
    from spyne.model import ByteArray
    from spyne.model.binary import BINARY_ENCODING_HEX, BINARY_ENCODING_BASE64, BINARY_ENCODING_URLSAFE_BASE64
    rng = ctx.rng
    base = protos['base']
    n_full = 1 if ctx.thorough else 0

    # ---- switches (T1): each bad value is a concrete failure of the property on its witness
    for k, (good, what) in SWITCH_WITNESS.items():
        if f[k] != good:
            ctx.hit('fact-bad:' + k)
            ctx.finding('switch:%s=%s' % (k, f[k]), what % (f.get(k + 'Probe', f[k]),), {'op': 'switch', 'fact': k, 'measured': str(f[k])})

    def text_of(x):
        return x.decode('utf8') if isinstance(x, (bytes, bytearray)) else x

    # ======================================================================== D1 bytes entry points, D9 None / ''
    u0 = pyuuid.UUID(int=0x12345678123456781234567812345678)
    samples = [(P.Decimal, [D('1.50'), D('-0'), D('1E+10'), D('123456789.000001'), D('0E-7')], lambda v: str(v.as_tuple())),
               (P.Double, [1.5, -0.0, 1e16, 5e-324, float('inf'), float('-inf')], repr),
               (P.Integer, [0, -7, 10 ** 30], str), (P.Integer32, [-2 ** 31, 2 ** 31 - 1], str), (P.UnsignedInteger8, [0, 255], str),
               (P.Boolean, [True, False], str),
               (P.DateTime, dts[::max(1, len(dts) // (60 if ctx.thorough else 25))], c_dt),
               (P.Date, dates[::max(1, len(dates) // (40 if ctx.thorough else 15))], c_date),
               (P.Time, times[::max(1, len(times) // (40 if ctx.thorough else 15))], c_time),
               (P.Duration, [pydt.timedelta(0), pydt.timedelta(1, 2, 3), -pydt.timedelta(0, 0, 5), pydt.timedelta(days=400, hours=5)], td_us),
               (P.Unicode, ['a', 'h\xe9llo 中\U0001f600', ' x ', '<&>'], str), (P.AnyUri, ['http://x/?a=1&b=\xe9'], str),
               (P.Uuid, [u0, pyuuid.UUID(int=0), pyuuid.UUID(int=2 ** 128 - 1)], lambda u: u.hex),
               (ByteArray(encoding='hex'), [[b'ab', b'c'], [b'\x00\xff']], lambda v: b''.join(v).hex()),
               (ByteArray(encoding='base64'), [[b'ab', b'c'], [b'\xfb\xff']], lambda v: b''.join(v).hex()),
               (ByteArray(encoding='urlsafe_base64'), [[b'\xfb\xff\xbe']], lambda v: b''.join(v).hex())]
    natively_typed = {('msgpack', 'Double'), ('msgpack', 'Integer'), ('msgpack', 'Boolean'), ('msgpack', 'Integer32'),
                      ('msgpack', 'UnsignedInteger8')}
    for cls, vals, canon in samples:
        for pn in ('base', 'msgpack', 'http', 'xml'):
            p = protos[pn]
            for v in vals:
                tu = outcome(lambda: p.to_unicode(cls, v))
                tb = outcome(lambda: p.to_bytes(cls, v))
                ctx.case({'op': 'bytes-path', 'cls': cls.__name__, 'p': pn, 'v': repr(v)[:60]})
                ctx.hit('bytes-path:' + cls.__name__)
                if (pn, cls.__name__) in natively_typed:
                    same = tb == tu
                else:
                    same = 'ok' in tb and 'ok' in tu and text_of(tb['ok']) == tu['ok']
                if not same:
                    ctx.finding('bytes-path:to:%s:%s' % (cls.__name__, pn), 'to_bytes and to_unicode of %s disagree on %r: %r vs %r' % (cls.__name__, v, tb, tu),
                                {'op': 'bytes-path.to', 'cls': cls.__name__, 'input': repr(v), 'bytes': str(tb), 'text': str(tu)})
                    continue
                wire = tb['ok']
                if (pn, cls.__name__) in natively_typed:
                    # the document carries the number natively; _ret_number turns 0.0/-0.0/1.0 into the ints 0/1
                    # (`value in (True, False)`): the same number, its type is C02/C04's concern, not a text form
                    back = outcome(lambda: p.from_bytes(cls, wire))
                    if 'ok' not in back or not (back['ok'] == v or (v != v)):
                        ctx.finding('roundtrip:bytes-path:%s' % cls.__name__, '%s %r -> %r -> %r (%s)' % (cls.__name__, v, wire, back, pn),
                                    {'op': 'bytes-path.roundtrip', 'cls': cls.__name__, 'input': repr(v), 'got': str(back)})
                    continue
                back = outcome(lambda: canon(p.from_bytes(cls, wire)))
                ctx.cov['traces_validated_against_impl'] += 1
                want = {'ok': canon(v)}
                if cls.__name__ == 'Double' and v != v:
                    continue
                if back != want:
                    ctx.hit('t3-fail:bytes-path')
                    ctx.finding('roundtrip:bytes-path:%s' % cls.__name__, '%s %r -> to_bytes %r -> from_bytes %r (%s)' % (cls.__name__, v, wire, back, pn),
                                {'op': 'bytes-path.roundtrip', 'cls': cls.__name__, 'input': repr(v), 'wire': repr(wire), 'got': str(back)})
            # D9
            for nul in (None,):
                if p.to_unicode(cls, nul) is not None or p.to_bytes(cls, nul) is not None or p.from_unicode(cls, nul) is not None \
                        or p.from_bytes(cls, nul) is not None:
                    ctx.finding('none-passthrough:' + cls.__name__, 'None is not passed through for %s' % cls.__name__, {'op': 'none', 'cls': cls.__name__})
    # literals: the bytes path reads exactly what the text path reads
    lit_sets = [(P.Decimal, ['1.5', ' 1 ', '1e5', 'junk', '1_0', '-.5', 'NaN', '1' * 1025], lambda v: str(v.as_tuple())),
                (P.Integer, ['12', '-0', '+7', '1.0', 'x', '1_0', ' 5'], str),
                (P.Boolean, ['true', 'TRUE', '0', 'junk', '1'], str),
                (P.Double, ['1e5', 'INF', '-INF', 'NaN', 'inf', 'x', '1_0'], repr),
                (P.DateTime, ['2020-01-01T00:00:00Z', '2020-01-01T00:00:00+05:30', '2020-01-01 00:00:00', '2020-13-01T00:00:00', 'junk', '2020-01-01T00:00:00.5'], c_dt),
                (P.Date, ['2020-01-01', '2020-01-01Z', '2020-02-30', 'x'], c_date), (P.Time, ['12:00:00', '12:00:00.5Z', '24:00:00', 'x'], c_time),
                (P.Duration, ['P1D', 'PT0.000005S', '-PT1.5S', 'hello', 'P1DT'], td_us),
                (P.Uuid, ['12345678-1234-5678-1234-567812345678', 'urn:uuid:12345678-1234-5678-1234-567812345678', 'x', '{' + u0.hex + '}'], lambda u: u.hex),
                (ByteArray(encoding='hex'), ['6162', '616', 'zz', 'AB'], lambda v: b''.join(v).hex()),
                (ByteArray(encoding='base64'), ['YWJj', 'YWJ', 'YQ==', '!!!!'], lambda v: b''.join(v).hex())]
    for cls, lits, canon in lit_sets:
        for pn in ('base', 'msgpack', 'http'):
            p = protos[pn]
            for s in lits:
                if (pn, cls.__name__) in natively_typed:
                    continue
                ru = outcome(lambda: canon(p.from_unicode(cls, s)))
                rb = outcome(lambda: canon(p.from_bytes(cls, s.encode('utf8'))))
                ctx.case({'op': 'bytes-path.from', 'cls': cls.__name__, 'p': pn, 's': s[:40]})
                if ru != rb:
                    ctx.hit('t3-fail:bytes-path.from')
                    ctx.finding('bytes-path:from:%s:%s' % (cls.__name__, pn), '%s literal %r: from_unicode %r, from_bytes %r' % (cls.__name__, s[:40], ru, rb),
                                {'op': 'bytes-path.from', 'cls': cls.__name__, 'input': s, 'text': str(ru), 'bytes': str(rb)})
    # D9: with empty_is_none the empty string is None (both ways in), without it it reaches the parser
    for tcls in (P.Integer, P.Decimal, P.DateTime, P.Boolean, P.Unicode, P.Uuid, P.Duration):
        cls = tcls.customize(empty_is_none=True)
        for pn in ('base', 'xml', 'json'):
            r = outcome(lambda: (protos[pn].from_unicode(cls, ''), protos[pn].from_bytes(cls, '')))
            r0 = outcome(lambda: protos[pn].from_unicode(tcls, ''))
            ctx.case({'op': 'empty-is-none', 'cls': tcls.__name__, 'p': pn})
            want0 = {'ok': ''} if tcls is P.Unicode else None
            if r != {'ok': (None, None)} or (want0 is not None and r0 != want0) or (want0 is None and 'ok' in r0 and pn != 'json'):
                ctx.finding('empty-is-none:' + tcls.__name__, "%s: '' is read as %r with empty_is_none, %r without (%s)" % (tcls.__name__, r, r0, pn),
                            {'op': 'empty', 'cls': tcls.__name__, 'got': str((r, r0))})

    # ======================================================================== D2 dt_format / date_format
    pad_bad = f['oldYearPad'] != 'zero'
    dt_vals = [pydt.datetime(y, mo, d, h, mi, s, us, tz) for (y, mo, d, h, mi, s, us, tz) in (
        (2020, 1, 2, 3, 4, 5, 6, None), (2020, 12, 31, 23, 59, 59, 999999, None), (1901, 1, 1, 0, 0, 0, 0, None),
        (1900, 12, 31, 23, 59, 59, 0, None), (1900, 1, 1, 0, 0, 0, 0, None), (1850, 8, 2, 7, 8, 9, 0, None), (1000, 1, 1, 0, 0, 0, 0, None),
        (999, 12, 31, 23, 59, 59, 0, None), (99, 2, 28, 1, 1, 1, 0, None), (1, 1, 1, 0, 0, 0, 0, None), (9999, 12, 31, 23, 59, 59, 0, None),
        (2000, 2, 29, 12, 0, 0, 0, None), (2020, 1, 2, 3, 4, 5, 6, pytz.FixedOffset(60)), (2019, 12, 31, 23, 30, 0, 0, pytz.FixedOffset(-289)),
        (1999, 12, 31, 20, 0, 0, 0, pytz.utc), (2004, 11, 9, 10, 10, 10, 5, None), (1960, 10, 10, 10, 10, 10, 0, None))]
    dt_vals += [x for x in dts[::max(1, len(dts) // (120 if ctx.thorough else 40))]]
    fmts = list(FIXED_DT_FMTS) + [gen_fmt(rng, DIRS) for _ in range(60 if ctx.thorough else 18)] + \
        [gen_fmt(rng, rng.sample(DIRS, rng.randrange(1, 6))) for _ in range(20 if ctx.thorough else 6)]
    for fmt in fmts:
        wf = fmt_wf(fmt)
        items = fmt_items(fmt)
        add({'op': 'fmt.wf', 'fmt': items}, {'ok': wf})
        full = all(('%' + d) in fmt for d in DIRS)
        ctx.hit('dtf:fmt:' + ('wf' if wf else 'adjacent') + (':full' if full else ':partial'))
        cls = P.DateTime(dt_format=fmt)
        for x in (dt_vals if wf and full else dt_vals[:8]):
            for pn, soap in (('base', False), ('soap11', True)):
                r = outcome(lambda: protos[pn].to_unicode(cls, x))
                if not soap and rng.random() < 0.15:
                    for n2 in ('xml', 'json', 'http', 'msgpack'):
                        r2 = outcome(lambda: protos[n2].to_unicode(cls, x))
                        if r2 != r:
                            ctx.finding('proto-disagree:dtf.to:' + n2, 'protocol %s disagrees with base on dt_format output' % n2,
                                        {'op': 'dtf.to', 'fmt': fmt, 'input': c_dt(x), 'base': r, n2: r2})
                if wf:
                    add({'op': 'dtf.to', 'fmt': items, 'soap': soap, 'as': None, 'same': False, 'tzflag': True, 'v': c_dt(x)},
                        {'ok': cps(r['ok'])} if 'ok' in r else r)
                if 'ok' not in r:
                    ctx.finding('crash:dtf.to', 'DateTime(dt_format=%r) cannot write %r: %r' % (fmt, x, r), {'op': 'dtf.to', 'fmt': fmt, 'input': c_dt(x), 'got': r})
                    continue
                s = r['ok']
                back = outcome(lambda: c_dt(protos[pn].from_unicode(cls, s)))
                if wf and not soap:
                    add({'op': 'dtf.from', 'fmt': items, 'as': None, 's': cps(s)}, back)
                elif wf and soap:
                    add({'op': 'dtc.from', 'as': None, 's': cps(s)}, back)
                ctx.cov['traces_validated_against_impl'] += 1
                if full or soap:
                    want = {'ok': c_dt(x)} if soap else {'ok': c_dt(x)[:6] + [0, None]}
                    if back != want:
                        ctx.hit('t3-fail:dt_format')
                        fid = 'switch:oldYearPad=%s' % f['oldYearPad'] if (pad_bad and x.year < 1000 and not soap) else 'roundtrip:datetime:dt_format'
                        ctx.finding(fid, 'DateTime(dt_format=%r) %r is written %r and read back as %r' % (fmt, c_dt(x), s, back),
                                    {'op': 'dtf.roundtrip', 'fmt': fmt, 'input': c_dt(x), 'text': s, 'got': back, 'expected': want})
        # malformed / near-miss texts against the model (the format regex is modelled exactly for wf formats)
        if wf:
            seeds = [base.to_unicode(cls, x) for x in dt_vals[:3] + [pydt.datetime(2021, 11, 12, 13, 14, 15)]]
            lits = list(seeds) + ['', 'junk']
            for _ in range(40 if ctx.thorough else 12):
                lits.append(mutate_text(rng, rng.choice(seeds), '0123456789-:. /TtxZ'))
            for s in lits:
                if any(ord(ch) > 127 for ch in s):
                    continue
                if s == '':
                    continue            # empty_is_none
                r = check_same('dtf.from', s, [(n, outcome(lambda: c_dt(protos[n].from_unicode(cls, s)))) for n in ('base', 'xml', 'json', 'http')])
                add({'op': 'dtf.from', 'fmt': items, 'as': None, 's': cps(s)}, r)
                ctx.hit('dtf.from:' + next(iter(r)))
    # with as_timezone / timezone=False on top
    for fmt in FIXED_DT_FMTS[:5] + [gen_fmt(rng, DIRS) for _ in range(6 if ctx.thorough else 3)]:
        if not fmt_wf(fmt):
            continue
        items = fmt_items(fmt)
        for o in (330, -289, 0):
            tzobj = pytz.utc if o == 0 else pytz.FixedOffset(o)
            for tzflag in (True, False):
                cls = P.DateTime(dt_format=fmt, as_timezone=tzobj, timezone=tzflag)
                for x in dt_vals[:20]:
                    r = outcome(lambda: base.to_unicode(cls, x))
                    add({'op': 'dtf.to', 'fmt': items, 'soap': False, 'as': o, 'same': x.tzinfo is tzobj, 'tzflag': tzflag, 'v': c_dt(x)},
                        {'ok': cps(r['ok'])} if 'ok' in r else r)
                    if 'ok' not in r:
                        continue
                    s = r['ok']
                    back = outcome(lambda: c_dt(base.from_unicode(cls, s)))
                    if f['fmtAsTz'] == 'replace':
                        add({'op': 'dtf.from', 'fmt': items, 'as': o, 's': cps(s)}, back)
                    conv = x.astimezone(tzobj) if x.tzinfo is not None else x
                    want = {'ok': c_dt(conv)[:6] + [0, o]}
                    ctx.cov['traces_validated_against_impl'] += 1
                    if back != want:
                        ctx.hit('t3-fail:dt_format+as_timezone')
                        if f['fmtAsTz'] != 'replace':
                            fid = 'switch:fmtAsTz=%s' % f['fmtAsTz']
                        elif pad_bad and conv.year < 1000:
                            fid = 'switch:oldYearPad=%s' % f['oldYearPad']
                        else:
                            fid = 'roundtrip:datetime:dt_format:as_timezone'
                        ctx.finding(fid, 'DateTime(dt_format=%r, as_timezone=%+d) %r -> %r -> %r, expected %r' % (fmt, o, c_dt(x), s, back, want['ok']),
                                    {'op': 'dtf.roundtrip', 'fmt': fmt, 'as': o, 'input': c_dt(x), 'text': s, 'got': back})
    # Date(date_format)
    d_vals = [pydt.date(2020, 1, 2), pydt.date(2020, 12, 31), pydt.date(1901, 1, 1), pydt.date(1900, 12, 31), pydt.date(1850, 8, 2),
              pydt.date(1000, 1, 1), pydt.date(999, 12, 31), pydt.date(99, 2, 28), pydt.date(1, 1, 1), pydt.date(9999, 12, 31),
              pydt.date(2000, 2, 29)] + dates[::max(1, len(dates) // (80 if ctx.thorough else 30))]
    dfmts = list(FIXED_DATE_FMTS) + [gen_fmt(rng, 'Ymd') for _ in range(30 if ctx.thorough else 10)]
    for fmt in dfmts:
        wf = fmt_wf(fmt)
        items = fmt_items(fmt)
        full = all(('%' + d) in fmt for d in 'Ymd')
        cls = P.Date(date_format=fmt)
        ctx.hit('datef:fmt:' + ('wf' if wf else 'adjacent') + (':full' if full else ':partial'))
        for x in (d_vals if wf and full else d_vals[:6]):
            for pn, soap in (('base', False), ('soap11', True)):
                r = outcome(lambda: protos[pn].to_unicode(cls, x))
                if wf:
                    add({'op': 'datef.to', 'fmt': items, 'soap': soap, 'v': c_date(x)}, {'ok': cps(r['ok'])} if 'ok' in r else r)
                if 'ok' not in r:
                    ctx.finding('crash:datef.to', 'Date(date_format=%r) cannot write %r: %r' % (fmt, x, r), {'op': 'datef.to', 'fmt': fmt, 'input': c_date(x)})
                    continue
                s = r['ok']
                back = outcome(lambda: c_date(protos[pn].from_unicode(cls, s)))
                if wf and not soap:
                    add({'op': 'datef.from', 'fmt': items, 's': cps(s)}, back)
                elif soap:
                    add({'op': 'date.from', 's': cps(s)}, back) if False else None
                ctx.cov['traces_validated_against_impl'] += 1
                if (full or soap) and back != {'ok': c_date(x)}:
                    ctx.hit('t3-fail:date_format')
                    if soap and not f['soapDateIso']:
                        fid = 'switch:soapDateIso=False'
                    elif pad_bad and x.year < 1000:
                        fid = 'switch:oldYearPad=%s' % f['oldYearPad']
                    else:
                        fid = 'roundtrip:date:date_format'
                    ctx.finding(fid, 'Date(date_format=%r) %r is written %r by %s and read back as %r' % (fmt, c_date(x), s, pn, back),
                                {'op': 'datef.roundtrip', 'fmt': fmt, 'input': c_date(x), 'text': s, 'got': back, 'proto': pn})
        if wf:
            seeds = [base.to_unicode(cls, x) for x in d_vals[:2]] + ['2020-01-02', '2020-01-02Z', '2020-01-02+05:00', '2020-02-30Z']
            lits = list(seeds) + ['junk']
            for _ in range(24 if ctx.thorough else 8):
                lits.append(mutate_text(rng, rng.choice(seeds), '0123456789-:. /Z+'))
            for s in lits:
                if s == '' or any(ord(ch) > 127 for ch in s):
                    continue
                r = check_same('datef.from', s, [(n, outcome(lambda: c_date(protos[n].from_unicode(cls, s)))) for n in ('base', 'xml', 'json')])
                add({'op': 'datef.from', 'fmt': items, 's': cps(s)}, r)
                ctx.hit('datef.from:' + next(iter(r)))

    # ======================================================================== D3 Uuid(serialize_as)
    uus = [u0, pyuuid.UUID(int=0), pyuuid.UUID(int=2 ** 128 - 1)] + [pyuuid.UUID(int=rng.getrandbits(128)) for _ in range(60 if ctx.thorough else 15)]
    for sa in ('hex', 'urn', 'bytes', 'bytes_le', 'fields', 'int', 'str'):
        cls = P.Uuid(serialize_as=sa)
        for u in uus:
            for pn in ('base', 'xml', 'json'):
                r = outcome(lambda: protos[pn].to_unicode(cls, u))
                if sa in ('hex', 'urn') and pn == 'base':
                    add({'op': 'uuid.to', 'form': sa, 'v': list(u.bytes)}, {'ok': cps(r['ok'])} if isinstance(r.get('ok'), str) else r)
                if 'ok' not in r:
                    ctx.finding('crash:uuid.to:' + sa, 'Uuid(serialize_as=%r) cannot be written: %r' % (sa, r), {'op': 'uuid.to', 'as': sa, 'input': str(u)})
                    continue
                back = outcome(lambda: protos[pn].from_unicode(cls, r['ok']).hex)
                if sa in ('hex', 'urn') and pn == 'base':
                    add({'op': 'uuid.from', 's': cps(r['ok'])}, {'ok': list(u.bytes)} if back == {'ok': u.hex} else back)
                ctx.case({'op': 'uuid.serialize_as', 'as': sa, 'p': pn, 'v': u.hex})
                ctx.cov['traces_validated_against_impl'] += 1
                if back != {'ok': u.hex}:
                    ctx.hit('t3-fail:uuid.serialize_as')
                    ctx.finding('roundtrip:uuid:serialize_as=%s' % sa, 'Uuid(serialize_as=%r) %s is written %r and read back as %r' % (sa, u, r['ok'], back),
                                {'op': 'uuid.roundtrip', 'as': sa, 'input': str(u), 'text': repr(r['ok']), 'got': back})
                    break

    # ======================================================================== D4 ByteArray shapes, default encoding
    mm = mmap.mmap(-1, 5)
    mm.write(b'\x00ab\xff\x10')
    blobs = [b'abcd', b'\x00\xff\xfb\xbe', bytes(range(40)), b'a', b'']
    encs = {'hex': (ByteArray(encoding='hex'), BINARY_ENCODING_HEX), 'base64': (ByteArray(encoding='base64'), BINARY_ENCODING_BASE64),
            'urlsafe_base64': (ByteArray(encoding='urlsafe_base64'), BINARY_ENCODING_URLSAFE_BASE64)}
    for name, (cls, const) in encs.items():
        for b in blobs:
            half = len(b) // 2
            shapes = [('list2', [b[:half], b[half:]]), ('tuple2', (b[:half], b[half:])), ('list3', [b[:1], b[1:half], b[half:]] if half >= 1 else [b, b'', b'']),
                      ('bytes', b), ('memoryview', memoryview(b)), ('list-mv', [memoryview(b[:half]), b[half:]]), ('tuple1', (b,))]
            if b == b'abcd':
                shapes.append(('mmap', (mm,)))
            for shape, v in shapes:
                flat = bytes(mm[:]) if shape == 'mmap' else b
                for clsx, sugg, tag in ((cls, None, 'explicit'), (ByteArray, const, 'default+suggested')):
                    res = [(pn, outcome(lambda: text_of(protos[pn].to_unicode(clsx, v, sugg) if sugg else protos[pn].to_unicode(clsx, v)))) for pn in ('base', 'xml', 'json')]
                    r = check_same('bytes.to:' + name, shape, res)
                    ctx.hit('bytearray-shape:' + shape)
                    q = {'op': 'hex.to', 'v': list(flat)} if name == 'hex' else {'op': 'b64.to', 'url': name != 'base64', 'v': list(flat)}
                    if 'ok' in r:
                        add(q, {'ok': cps(r['ok'])} if isinstance(r.get('ok'), str) else r)
                    if 'ok' not in r:
                        ctx.hit('t3-fail:bytearray-shape')
                        ctx.finding('crash:bytes.to:%s:%s' % (name, shape), 'a ByteArray value given as %s cannot be written with %s encoding: %r' % (shape, name, r),
                                    {'op': name + '.to', 'shape': shape, 'input': list(flat), 'got': r})
                        continue
                    if flat == b'':
                        continue
                    back = outcome(lambda: list(b''.join(base.from_unicode(clsx, r['ok'], sugg) if sugg else base.from_unicode(clsx, r['ok']))))
                    backb = outcome(lambda: list(b''.join(base.from_bytes(clsx, r['ok'].encode('ascii'), sugg) if sugg else base.from_bytes(clsx, r['ok'].encode('ascii')))))
                    ctx.cov['traces_validated_against_impl'] += 1
                    if back != {'ok': list(flat)} or backb != back:
                        ctx.finding('roundtrip:bytes:%s:%s' % (name, tag), 'ByteArray (%s, %s) %r -> %r -> %r / %r' % (name, shape, flat[:16], r['ok'][:32], back, backb),
                                    {'op': name + '.roundtrip', 'shape': shape, 'input': list(flat), 'text': r['ok'], 'got': back})
    # the protocols' own default: XmlDocument/Soap/Json write base64 for an unqualified ByteArray
    for pn in ('xml', 'soap11', 'json', 'http'):
        p = protos[pn]
        enc = getattr(p, 'binary_encoding', None)
        for b in blobs[:3]:
            r = outcome(lambda: text_of(p.to_unicode(ByteArray, [b], enc)))
            back = outcome(lambda: list(b''.join(p.from_unicode(ByteArray, r['ok'], enc)))) if 'ok' in r else None
            ctx.case({'op': 'bytes.default', 'p': pn, 'v': b.hex()})
            if back != {'ok': list(b)}:
                ctx.finding('roundtrip:bytes:default:' + pn, 'unqualified ByteArray %r with %s default encoding: %r -> %r' % (b[:16], pn, r, back),
                            {'op': 'bytes.default', 'proto': pn, 'input': list(b), 'got': str(back)})

    # ======================================================================== D5 datetime handed to Date / Time
    for x in dt_vals[:12]:
        for pn in ('base', 'xml', 'soap11', 'json'):
            p = protos[pn]
            rd = outcome(lambda: c_date(p.from_unicode(P.Date, p.to_unicode(P.Date, x))))
            rt = outcome(lambda: c_time(p.from_unicode(P.Time, p.to_unicode(P.Time, x))))
            ctx.case({'op': 'datetime-as-date', 'p': pn, 'v': c_dt(x)})
            if rd != {'ok': c_date(x.date())} and not (pn == 'soap11' and False):
                ctx.finding('roundtrip:date:from-datetime', 'Date given the datetime %r: %r (%s)' % (c_dt(x), rd, pn), {'op': 'date.roundtrip', 'input': c_dt(x), 'got': rd})
            if rt != {'ok': c_time(x.time())} and pn != 'soap11':
                ctx.finding('roundtrip:time:from-datetime', 'Time given the datetime %r: %r (%s)' % (c_dt(x), rt, pn), {'op': 'time.roundtrip', 'input': c_dt(x), 'got': rt})

    # ======================================================================== D6 number / text formats
    fcases = [(P.Decimal, 'format', '%s', D('1.50'), True), (P.Decimal, 'format', '%.3f', D('1.0005'), False), (P.Decimal, 'str_format', '{}', D('-12.5'), True),
              (P.Decimal, 'str_format', '{:f}', D('1E+3'), None), (P.Decimal, 'str_format', '{:.2f}', D('2.345'), False),
              (P.Double, 'format', '%r', 0.1, True), (P.Double, 'format', '%.17g', 0.1, True), (P.Double, 'format', '%.3f', 1.23456, False),
              (P.Double, 'str_format', '{!r}', 1e22, True), (P.Double, 'str_format', '{:.2e}', 12345.678, False),
              (P.Integer, 'format', '%d', -42, True), (P.Integer, 'format', '%05d', 42, True), (P.Integer, 'format', '%+d', 42, True),
              (P.Integer, 'str_format', '{}', 10 ** 20, True), (P.Integer, 'str_format', '{:08d}', -5, True), (P.Integer, 'format', '%x', 255, False),
              (P.Unicode, 'format', '%s', 'h\xe9', True), (P.Unicode, 'str_format', '{}', 'a b', True), (P.Unicode, 'format', '[%s]', 'x', False),
              (P.AnyUri, 'str_format', '{}', 'http://x/', True)]
    for tcls, attr, fs, v, lossless in fcases:
        cls = tcls(**{attr: fs})
        ref = fs.format(v) if attr == 'str_format' else fs % v
        for pn in ('base', 'xml', 'json', 'http'):
            p = protos[pn]
            if pn == 'json' and tcls in (P.Double, P.Integer):
                continue
            r = outcome(lambda: p.to_unicode(cls, v))
            rb = outcome(lambda: text_of(p.to_bytes(cls, v)))
            ctx.case({'op': 'format', 'cls': tcls.__name__, 'attr': attr, 'f': fs, 'p': pn})
            if r != {'ok': ref} or rb != {'ok': ref}:
                ctx.finding('format:%s:%s' % (tcls.__name__, attr), '%s(%s=%r) writes %r as %r / %r, Python says %r' % (tcls.__name__, attr, fs, v, r, rb, ref),
                            {'op': 'format', 'cls': tcls.__name__, 'attr': attr, 'format': fs, 'input': repr(v), 'got': str(r)})
            elif lossless:
                back = outcome(lambda: p.from_unicode(cls, ref))
                if back != {'ok': v}:
                    ctx.finding('roundtrip:format:%s:%s' % (tcls.__name__, attr), '%s(%s=%r) %r -> %r -> %r' % (tcls.__name__, attr, fs, v, ref, back),
                                {'op': 'format.roundtrip', 'cls': tcls.__name__, 'format': fs, 'input': repr(v), 'got': str(back)})

    # ======================================================================== D7 text with an encoding, text arriving as bytes
    from spyne.model import primitive as PP
    for enc in ('utf8', 'latin-1', 'utf-16-le', 'cp1252'):
        for tcls in (P.Unicode, P.AnyUri):
            cls = tcls(encoding=enc)
            for s in ('h\xe9llo', 'abc', '\xff\xe9 x'):
                for pn in ('base', 'msgpack', 'http'):
                    p = protos[pn]
                    wire = outcome(lambda: p.to_bytes(cls, s))
                    back = outcome(lambda: p.from_bytes(cls, wire['ok'])) if 'ok' in wire else wire
                    back2 = outcome(lambda: p.from_bytes(cls, s.encode(enc)))
                    same_text = outcome(lambda: p.from_unicode(cls, p.to_unicode(cls, s)))
                    # a bytes *value* (not text) handed to the text type is decoded with the declared encoding
                    from_bytes_value = outcome(lambda: p.to_unicode(cls, s.encode(enc)))
                    ctx.case({'op': 'text-encoding', 'enc': enc, 'cls': tcls.__name__, 'p': pn, 's': s})
                    if wire != {'ok': s.encode(enc)} or back != {'ok': s} or back2 != {'ok': s} or same_text != {'ok': s}:
                        ctx.finding('roundtrip:unicode:encoding', '%s(encoding=%r) %r: to_bytes %r, from_bytes %r / %r, text path %r (%s)' % (tcls.__name__, enc, s, wire, back, back2, same_text, pn),
                                    {'op': 'text-encoding', 'enc': enc, 'input': s, 'got': str((wire, back, back2, same_text))})
                    ctx.cov.setdefault('unicode_bytes_value_decoding', {})[enc] = str(from_bytes_value)[:60]

    # ======================================================================== D8 digit-bounded Decimals
    for td, fd in ((5, 2), (10, 0), (28, 10), (3, 3)):
        cls = P.Decimal(td, fd)
        msl = cls.Attributes.max_str_len
        vals = [D(10) ** (td - fd) - D(10) ** (-fd), -(D(10) ** (td - fd) - D(10) ** (-fd)), D(0), D(1).scaleb(-fd), -D(1).scaleb(-fd), D('0.' + '9' * fd) if fd else D(9)]
        for v in vals:
            r = outcome(lambda: base.to_unicode(cls, v))
            ctx.case({'op': 'decimal-digits', 'td': td, 'fd': fd, 'v': str(v)})
            if 'ok' not in r:
                continue
            back = outcome(lambda: base.from_unicode(cls, r['ok']))
            ctx.cov['traces_validated_against_impl'] += 1
            if back != {'ok': v}:
                ctx.hit('t3-fail:decimal-digits')
                ctx.finding('roundtrip:decimal:digits', 'Decimal(%d, %d) (max_str_len %s) %r is written %r and read back as %r' % (td, fd, msl, v, r['ok'], back),
                            {'op': 'dec.roundtrip', 'total_digits': td, 'fraction_digits': fd, 'text': r['ok'], 'got': str(back)})

    # ======================================================================== D10 remaining branches of the same handlers
    # Date(date_format) arriving as bytes; Uuid forms through the bytes entry points
    for fmt in FIXED_DATE_FMTS[:3]:
        cls = P.Date(date_format=fmt)
        for x in d_vals[:5]:
            for pn in ('base', 'msgpack', 'http'):
                p = protos[pn]
                r = outcome(lambda: c_date(p.from_bytes(cls, p.to_bytes(cls, x))))
                r2 = outcome(lambda: c_date(p.from_unicode(cls, p.to_unicode(cls, x))))
                ctx.case({'op': 'datef.bytes', 'fmt': fmt, 'p': pn, 'v': c_date(x)})
                if r != r2:
                    ctx.finding('bytes-path:from:Date:date_format', 'Date(date_format=%r) %r: bytes path %r, text path %r (%s)' % (fmt, c_date(x), r, r2, pn),
                                {'op': 'datef.bytes', 'fmt': fmt, 'input': c_date(x), 'bytes': str(r), 'text': str(r2)})
    for sa in ('hex', 'urn', 'bytes', 'bytes_le', 'int'):
        cls = P.Uuid(serialize_as=sa)
        for u in uus[:6]:
            for pn in ('base', 'msgpack'):
                p = protos[pn]
                back = outcome(lambda: p.from_bytes(cls, p.to_bytes(cls, u)).hex)
                ctx.case({'op': 'uuid.bytes', 'as': sa, 'p': pn, 'v': u.hex})
                if back != {'ok': u.hex}:
                    ctx.finding('roundtrip:uuid:bytes-path:serialize_as=%s' % sa, 'Uuid(serialize_as=%r) %s through to_bytes/from_bytes: %r (%s)' % (sa, u, back, pn),
                                {'op': 'uuid.bytes', 'as': sa, 'input': str(u), 'got': str(back)})
    # ByteArray: to_bytes with the suggested encoding, the protocol default, no encoding at all, chunks on input
    for name, (cls, const) in encs.items():
        for v in ([b'ab', b'cd'], b'abcd', (mm,)):
            flat = bytes(mm[:]) if isinstance(v, tuple) else b'abcd'
            for pn in ('base', 'xml', 'msgpack'):
                p = protos[pn]
                a = outcome(lambda: text_of(p.to_bytes(ByteArray, v, const)))
                b_ = outcome(lambda: text_of(p.to_unicode(ByteArray, v, const)))
                c_ = outcome(lambda: text_of(p.to_bytes(cls, v)))
                back = outcome(lambda: b''.join(p.from_bytes(cls, [a['ok'][:4].encode('ascii'), a['ok'][4:].encode('ascii')])))
                ctx.case({'op': 'bytes.suggested', 'enc': name, 'p': pn, 'shape': type(v).__name__})
                if not (a == b_ == c_) or back != {'ok': flat}:
                    ctx.finding('bytes-path:ByteArray:suggested:' + name, 'ByteArray %r with %s: to_bytes %r, to_unicode %r, explicit %r, chunked input read as %r (%s)' % (v, name, a, b_, c_, back, pn),
                                {'op': 'bytes.suggested', 'enc': name, 'got': str((a, b_, c_, back))})
    for pn in ('base', 'xml', 'json', 'msgpack', 'http'):
        p = protos[pn]
        enc = getattr(p, 'binary_encoding', None)
        for v, flat in (([b'ab', b'cd'], b'abcd'), (b'abcd', b'abcd'), (memoryview(b'abcd'), b'abcd'), ((mm,), bytes(mm[:]))):
            tu = outcome(lambda: p.to_unicode(ByteArray, v))          # no suggestion: the protocol's own default or ValueError
            tb = outcome(lambda: p.to_bytes(ByteArray, v))
            ctx.case({'op': 'bytes.no-encoding', 'p': pn, 'shape': type(v).__name__})
            if enc is None:
                ok = tu == {'crash': 'ValueError'} and 'ok' in tb and bytes(tb['ok'][:] if not isinstance(tb['ok'], bytes) else tb['ok']) == flat
            else:
                back = outcome(lambda: b''.join(p.from_unicode(ByteArray, tu['ok'], enc))) if 'ok' in tu else tu
                ok = back == {'ok': flat} and 'ok' in tb and text_of(tb['ok']) == tu['ok']
            if not ok:
                ctx.finding('bytes:no-encoding:' + pn, 'unqualified ByteArray %r through %s (binary_encoding %r): to_unicode %r, to_bytes %r' % (flat, pn, enc, tu, tb),
                            {'op': 'bytes.no-encoding', 'proto': pn, 'got': str((tu, tb))})
        r = outcome(lambda: p.to_bytes(ByteArray, 'text, not bytes')) if enc is None else {'crash': 'ValueError'}
        if r != {'crash': 'ValueError'}:
            ctx.finding('bytes:text-value', 'a str handed to an unencoded ByteArray is written as %r' % (r,), {'op': 'bytes.text-value', 'got': str(r)})
    for bad in ('rot13', 'base32'):
        r = outcome(lambda: ByteArray(encoding=bad))      # rejected (HEAD: AttributeError from building the ValueError's message)
        if 'crash' not in r:
            ctx.finding('bytes:unknown-encoding', 'ByteArray(encoding=%r): %r' % (bad, r), {'op': 'bytes.encoding', 'got': str(r)})
    if outcome(lambda: ByteArray(encoding=None).Attributes.encoding is ByteArray.Attributes.encoding) != {'ok': True}:
        ctx.finding('bytes:encoding-none', 'ByteArray(encoding=None) is not the protocol-default ByteArray', {'op': 'bytes.encoding'})
    # output-only formats of DateTime / Date (str_format, string_format, interp_format): reference = str.format
    for tcls, kw, v in ((P.DateTime, dict(str_format='{:%Y-%m-%d %H:%M}'), dt_vals[0]), (P.DateTime, dict(string_format='{:%d.%m.%Y}'), dt_vals[1]),
                        (P.DateTime, dict(interp_format='<{:%H:%M:%S}>'), dt_vals[0]), (P.Date, dict(str_format='{:%Y/%m/%d}'), pydt.date(2020, 1, 2)),
                        (P.Date, dict(str_format='{0.year}-{0.month}'), pydt.date(1850, 8, 2))):
        cls = tcls(**kw)
        ref = list(kw.values())[0].format(v)
        for pn in ('base', 'xml', 'json'):
            r = outcome(lambda: protos[pn].to_unicode(cls, v))
            ctx.case({'op': 'format', 'cls': tcls.__name__, 'kw': str(kw), 'p': pn})
            if r != {'ok': ref}:
                ctx.finding('format:%s:%s' % (tcls.__name__, list(kw)[0]), '%s(%r) writes %r as %r, Python says %r' % (tcls.__name__, kw, v, r, ref),
                            {'op': 'format', 'cls': tcls.__name__, 'got': str(r)})
    # `%s` is documented as unsupported by spyne's strftime
    r = outcome(lambda: base.to_unicode(P.DateTime(dt_format='%Y %s'), dt_vals[0]))
    if r != {'crash': 'TypeError'}:
        ctx.finding('format:DateTime:%s', "dt_format with %%s: %r" % (r,), {'op': 'format', 'got': str(r)})
    # an explicit max_str_len on a Decimal is the guard that is applied
    cls = P.Decimal(max_str_len=8)
    for s_, want in (('1234.567', 'ok'), ('12345.678', 'fault'), ('-0.00001', 'ok'), ('-0.000001', 'fault')):
        r = outcome(lambda: str(base.from_unicode(cls, s_)))
        ctx.case({'op': 'decimal-guard', 's': s_})
        if want not in r:
            ctx.finding('decimal:max_str_len', 'Decimal(max_str_len=8) reads %r as %r' % (s_, r), {'op': 'dec.from', 'input': s_, 'got': str(r)})

    # ======================================================================== D11 xs:base64Binary literals with white space
    # §3.2.16: a single space may follow every character but the last; whiteSpace=collapse turns any run of
    # space/tab/CR/LF into that space (and drops leading/trailing runs).  Line-wrapped MIME (76) / PEM (64) output,
    # 'AAEC AwQF', indented element content are all literals; hexBinary allows white space around only.
    import base64 as _b64
    from lxml import etree
    XS = 'http://www.w3.org/2001/XMLSchema'
    sch = {t: etree.XMLSchema(etree.fromstring('<xs:schema xmlns:xs="%s"><xs:element name="v" type="xs:%s"/></xs:schema>' % (XS, t)))
           for t in ('base64Binary', 'hexBinary')}

    def raw_ok(t, text):            # libxml2 with the whiteSpace facet applied (no pre-check as in c08.Lex.ok)
        if any(ord(ch) < 32 and ch not in '\t\n\r' for ch in text):
            return False
        e = etree.Element('v')
        e.text = text
        return sch[t].validate(e)

    WS = [' ', ' ', ' ', '\n', '\r\n', '\t', '  ', ' \n ', '\n\n']

    def wrap(txt, n, sep):
        return sep.join(txt[i:i + n] for i in range(0, len(txt), n))

    blobs11 = [bytes(range(6)), b'a', b'ab', b'abc', b'abcd', b'\xfb\xff\xbe\xff', bytes(range(58)), bytes(range(100)), bytes(255 - i for i in range(200))]
    for _ in range(40 if ctx.thorough else 10):
        blobs11.append(bytes(rng.randrange(256) for _ in range(rng.choice([1, 2, 3, 4, 5, 7, 30, 57, 58, 120]))))
    b64cls = ByteArray(encoding='base64')
    ws_bad = not f['b64IgnoresWhitespace']
    for b in blobs11:
        canon = _b64.b64encode(b).decode('ascii')
        interior = [wrap(canon, 4, ' '), wrap(canon, 1, ' '), wrap(canon, 76, '\r\n'), wrap(canon, 64, '\n'), wrap(canon, 76, '\n  '),
                    _b64.encodebytes(b).decode('ascii').rstrip('\n')]
        for _ in range(3):
            t = list(canon)
            for _k in range(rng.randrange(1, 4)):
                if len(t) > 1:
                    t.insert(rng.randrange(1, len(t)), rng.choice(WS))
            interior.append(''.join(t))
        around = ['\n    ' + wrap(canon, 76, '\n    ') + '\n  ', ' ' + canon, canon + '\n', _b64.encodebytes(b).decode('ascii')]
        for lit in interior + around:
            if lit == canon and False:
                continue
            is_interior = lit in interior
            add({'op': 'xsdlex', 't': 'base64Binary', 's': cps(lit)}, {'ok': bool(raw_ok('base64Binary', lit))}, nontrivial=len(lit) < 300)
            res = [(pn, outcome(lambda: list(b''.join(protos[pn].from_unicode(b64cls, lit))))) for pn in ('base', 'xml', 'soap11', 'json', 'http')]
            res.append(('base/bytes', outcome(lambda: list(b''.join(base.from_bytes(b64cls, lit.encode('ascii')))))))
            res.append(('xml/default', outcome(lambda: list(b''.join(protos['xml'].from_unicode(ByteArray, lit, BINARY_ENCODING_BASE64))))))
            r = check_same('b64ws.from', lit[:60], res)
            ctx.hit('b64ws:' + ('interior' if is_interior else 'around') + ':' + next(iter(r)))
            ctx.cov['traces_validated_against_impl'] += 1
            if not ws_bad:
                add({'op': 'b64ws.from', 's': cps(lit)}, r, nontrivial=len(lit) < 300)
            # T3: a literal of the lexical space (white space where the grammar / the collapse facet allow it inside the
            # literal) is read as the bytes it denotes
            if is_interior and raw_ok('base64Binary', lit) and any(x != {'ok': list(b)} for _, x in res):
                ctx.hit('t3-fail:b64ws')
                fid = 'switch:b64IgnoresWhitespace=False' if ws_bad else 'lex-read:base64Binary:whitespace'
                ctx.finding(fid, 'the xs:base64Binary literal %r (%d bytes, with white space) is read as %r' % (lit[:48], len(b), [x for x in res if x[1] != {'ok': list(b)}][0]),
                            {'op': 'b64ws.from', 'input': lit, 'expected': list(b), 'got': str([x for x in res if x[1] != {'ok': list(b)}][:2])})
        # near misses for the recogniser
        for _ in range(4):
            m = mutate_text(rng, rng.choice(interior[:4]), 'AQgw=+/ \n\t-_!')
            if m and not all(ch.isalnum() and ord(ch) < 128 or ch in '+/= \t\r\n' for ch in m):
                ctx.hit('xsdlex-skipped-libxml2-quirk:base64Binary')     # libxml2 skips characters outside the alphabet ('!', '-', '_')
                continue
            if m:
                add({'op': 'xsdlex', 't': 'base64Binary', 's': cps(m)}, {'ok': bool(raw_ok('base64Binary', m))}, nontrivial=len(m) < 300)
        hx = b.hex()
        for lit in (hx, ' ' + hx, hx + '\n', '\n  ' + hx.upper() + '\n', wrap(hx, 2, ' '), wrap(hx, 8, '\n'), hx[:-1], hx + 'g', mutate_text(rng, hx, '0123456789abcdefABCDEFg \n')):
            if all(ord(ch) < 128 for ch in lit):
                add({'op': 'xsdlex', 't': 'hexBinary', 's': cps(lit)}, {'ok': bool(raw_ok('hexBinary', lit))}, nontrivial=len(lit) < 300)

    # ======================================================================== D12 declared encoding x suggested encoding x protocol (directed, every seed)
    import binascii
    consts = {'hex': BINARY_ENCODING_HEX, 'base64': BINARY_ENCODING_BASE64, 'urlsafe_base64': BINARY_ENCODING_URLSAFE_BASE64, None: None}
    ref = {'hex': lambda b: binascii.hexlify(b).decode('ascii'), 'base64': lambda b: _b64.b64encode(b).decode('ascii'),
           'urlsafe_base64': lambda b: _b64.urlsafe_b64encode(b).decode('ascii')}
    xs_of = {'hex': 'hexBinary', 'base64': 'base64Binary'}
    enc_name = {BINARY_ENCODING_HEX: 'hex', BINARY_ENCODING_BASE64: 'base64', BINARY_ENCODING_URLSAFE_BASE64: 'urlsafe_base64', None: None}
    corpus12 = [b'\xfb\xff\xbe', b'abcd', b'\x00', bytes(range(20)), b'\xde\xad\xbe\xef']      # 'abcd'/deadbeef: base64 text that is also hex digits
    dbad = not f['declaredBeatsSuggested']
    for declared in ('hex', 'base64', 'urlsafe_base64', None):
        cls = ByteArray(encoding=declared) if declared else ByteArray
        for pn in ('xml', 'soap11', 'soap12', 'json', 'http', 'msgpack', 'yaml', 'base'):
            p = protos[pn]
            own = enc_name.get(getattr(p, 'binary_encoding', None))
            for sugg in dict.fromkeys([own, 'base64', 'hex', 'urlsafe_base64', None]):      # what the protocol itself passes first
                eff = declared or sugg or own
                for b in corpus12:
                    v = [b[:1], b[1:]]
                    args = (consts[sugg],) if sugg else ()
                    tu = outcome(lambda: text_of(p.to_unicode(cls, v, *args)))
                    tb = outcome(lambda: text_of(p.to_bytes(cls, v, *args)))
                    ctx.case({'op': 'ba.decl-x-sugg', 'declared': declared, 'suggested': sugg, 'p': pn, 'v': b.hex()})
                    ctx.hit('ba:declared=%s:suggested=%s' % (declared, sugg))
                    if not dbad:
                        add({'op': 'ba.to', 'declared': declared or '', 'suggested': sugg or '', 'default': own or '', 'v': list(b)},
                            {'ok': cps(tu['ok'])} if isinstance(tu.get('ok'), str) else tu)
                    if eff is None:
                        continue            # no text form: to_unicode refuses, to_bytes hands the bytes over (D10)
                    want = ref[eff](b)
                    fid = 'switch:declaredBeatsSuggested=False' if (dbad and declared and sugg and sugg != declared) else 'ba-encoding:%s' % (declared or 'default')
                    if tu != {'ok': want} or tb != {'ok': want}:
                        ctx.hit('t3-fail:ba-encoding')
                        ctx.finding(fid, 'ByteArray(encoding=%r) %r written by %s with suggested encoding %r: to_unicode %r, to_bytes %r; its %s form is %r'
                                    % (declared, b, pn, sugg, tu, tb, eff, want),
                                    {'op': 'ba.to', 'declared': declared, 'suggested': sugg, 'proto': pn, 'input': list(b), 'got': str((tu, tb)), 'expected': want})
                        txt = tu.get('ok')
                    else:
                        txt = want
                    # lexical space of the advertised type, and the same protocol reads its own output
                    if isinstance(txt, str) and not (declared is None and sugg is None):   # protocols always pass their suggestion when reading
                        if declared in xs_of and not lex.ok(xs_of[declared], txt):
                            ctx.finding(fid if fid.startswith('switch') else 'lex:%s:declared' % xs_of[declared],
                                        'ByteArray(encoding=%r) is advertised as xs:%s but %s writes %r' % (declared, xs_of[declared], pn, txt),
                                        {'op': 'ba.to', 'declared': declared, 'suggested': sugg, 'proto': pn, 'text': txt})
                        back = outcome(lambda: list(b''.join(p.from_unicode(cls, txt, *args))))
                        backb = outcome(lambda: list(b''.join(p.from_bytes(cls, txt.encode('ascii'), *args))))
                        ctx.cov['traces_validated_against_impl'] += 1
                        if txt == want:
                            add({'op': 'ba.from', 'declared': declared or '', 'suggested': sugg or '', 's': cps(txt)}, back)
                        if back != {'ok': list(b)} or backb != back:
                            ctx.finding(fid if fid.startswith('switch') else 'roundtrip:ba-encoding:%s' % (declared or 'default'),
                                        'ByteArray(encoding=%r) %r: %s writes %r (suggested %r) and reads it back as %r / %r' % (declared, b, pn, txt, sugg, back, backb),
                                        {'op': 'ba.roundtrip', 'declared': declared, 'suggested': sugg, 'proto': pn, 'input': list(b), 'text': txt, 'got': str(back)})
