"""C10 — hostile or malformed requests end in a client fault, never a crash.

Layers
  T1  `measure_facts` -> SpyneModel/Generated/Facts10.lean: (a) every try/except of the request funnel
      (spyne/server/_base.py, spyne/application.py, the create_in_document of every input protocol,
      spyne/server/wsgi.py handle_rpc) extracted by `ast` from the current source: caught classes in handler
      order and what the handler turns the exception into; (b) the exception hierarchies of the third-party
      parsers (introspection of lxml.etree, json, yaml, msgpack); (c) the fault-class -> HTTP status tables
      (probe of fault_to_http_response_code); (d) the transport decision table of WsgiApplication (request
      method x CONTENT_TYPE class x CONTENT_LENGTH class per protocol family), every row measured by
      replaying its witness environ on the real callable; (e) leaf-parser witnesses of the C08-only leaves.
  Proof  lean/Props/C10.lean (funnel model lean/SpyneModel/Hostile.lean, lemmas lean/Proofs/Hostile.lean) plus the two
      codec parts Props/C10_xml.lean, Props/C10_hier.lean.
  T2  model funnel vs real pipeline on the outcome class (ok / fault family / status class / called?) of every case
      of the failing-input search: the stage-level observations (third-party parser result, isolated codec stage) are
      fed to `funnel` and the composed prediction is compared with the end-to-end run.
  T3  failing-input search, systematic about leaves and transport (see `part_leaves`, `part_transport`,
      `part_bytes`), then the two codec blocks' own `part_c10`.
"""
import ast
import datetime as pydt
import hashlib
import io
import json
import os
import sys
import traceback
from collections import OrderedDict
from urllib.parse import quote

from . import core

TNS = 'urn:c10'
NS_SOAP11 = 'http://schemas.xmlsoap.org/soap/envelope/'
NS_SOAP12 = 'http://www.w3.org/2003/05/soap-envelope'


def _blocks():
    mods = []
    try:
        from . import xmlblock
        mods.append(xmlblock)
    except ImportError:
        pass
    try:
        from . import hierblock
        mods.append(hierblock)
    except ImportError:
        pass
    return mods


# ====================================================================================== literal dictionaries
def _offsets():
    out = []
    for sg in '+-':
        for hm in ('00:00', '00:01', '00:59', '00:60', '13:59', '14:00', '14:01', '23:59', '23:60', '24:00', '24:01', '24:30',
                   '24:59', '25:00', '29:59', '99:59', '99:99', '9:00', '123:00'):
            out.append(sg + hm)
    return out


GENERIC = ['', ' ', '\t', '\x00', '\ud800', 'é', '９', '١٢', '-', 'NaN', 'INF', 'null', 'None', '<', '&amp;', ']]>',
           'a' * 70000, '9' * 1100, '\U0001F600', '1\x00', ' 1 ', '1e3', '0x10']


def nasty_literals():
    """family -> ordered list of nasty literals (c08's dictionaries, extended)"""
    from . import c08, c08x
    offs = _offsets()
    d = OrderedDict()
    d['int'] = c08.NASTY_INT + ['５', '١٢', '1\x00', '9' * 4300, '9' * 4301, '1' * 1023, '٣', 'NaN', 'INF', '-INF', 'Infinity',
                               '1E3', '1e-3', '1.5e3', '+', '１２３', '²', '1 ', '​1']
    d['bool'] = c08.NASTY_BOOL + ['tru\x00e', 'ｔｒｕｅ', 'İ', 'TRUEİ', 'İ']
    d['dt'] = (c08.NASTY_DT + ['2020-01-01T00:00:00' + o for o in offs] +
               ['2020-01-01T24:00:00', '2020-01-01T24:00:00Z', '2020-01-01T24:00:01', '2020-13-01T00:00:00Z', '2020-12-32T00:00:00',
                '2020-01-01T00:00:00.' + '9' * 400, '2020-01-01T00:00:00.' + '9' * 5000, '99999999999-01-01T00:00:00',
                '2020-01-01T00:00:00\x00', '２０２０-01-01T00:00:00', '2020-01-01T00:00:00+٠٥:٣٠', '2020-01-01T00:00:00+05:٣٠',
                '0001-01-01T00:00:00+14:00', '9999-12-31T23:59:59-14:00', '0001-01-01T00:00:00+00:01', '9999-12-31T23:59:59.9999999',
                '-2020-01-01T00:00:00', '2020-01-01T00:00:00.1e5', '2020-01-01t00:00:00', '2020-01-01T00:00:00+', '2020-01-01T00:00:00+2',
                '2020-01-01T00:00:00+24', '2020-01-01T00:00:00 +24:00', '2020-01-01T99:99:99', '2020-01-01T-1:00:00'])
    d['date'] = (c08.NASTY_DATE + ['2020-01-01' + o for o in offs] +
                 ['2020-13-01Z', '2020-02-30-24:00', '99999999999-01-01', '2020-01-01\x00', '２０２０-01-01', '2020-01-٠١', '0000-00-00',
                  '2020-01-01+', '-2020-01-01', '2020-W01-1', '2020-001', '9' * 5000 + '-01-01', '2020-' + '1' * 5000 + '-01'])
    d['time'] = (c08.NASTY_TIME + ['12:00:00' + o for o in offs] +
                 ['24:00:00.000', '24:00:01', '23:59:60', '12:00:00.' + '9' * 400, '12:00:00.' + '9' * 5000, '12:00:00\x00', '１２:00:00',
                  '12:٠٠:00', '-1:00:00', '99:99:99', '12:00:00.1e5', '9' * 5000 + ':00:00'])
    d['dur'] = c08.NASTY_DUR + ['P' + '9' * 5000 + 'D', 'P' + '9' * 20 + 'D', 'PT' + '9' * 30 + 'S', 'PT' + '9' * 5000 + 'S',
                               'PT1.' + '9' * 5000 + 'S', 'P' + '9' * 4300 + 'Y', 'PT1e5S', 'P1\x00D', 'P１D', 'P٣D', 'PT٣S', 'PT1.٣S', 'P1Y' * 2,
                               'PT' + '9' * 19 + 'H', 'PT' + '9' * 19 + 'M', 'P999999999Y', 'P99999999999999M', '--P1D', 'PT-1S', 'PT1.-5S',
                               'PTINFS', 'PTNaNS', 'P1.5Y']
    d['hex'] = ['616', 'zz', '6 1', '0x61', '61\n', ' 61', '61 ', 'é', '６１', 'g1', '6', '61626', 'a' * 69999, 'a' * 70000, '\x00\x00',
                '61\x00', '--', '=', 'YWJj', '61-62', 'AB', 'ab', 'Ab', '\ud800a', '6¹']
    d['base64'] = ['YWJ', 'YWJj=', '====', '=', 'Y', 'YW Jj', 'YW\nJj', 'é', 'YWJjé', 'a' * 69999, 'a' * 70000, '\x00', 'YWJj\x00', 'YW-_', 'YW+/',
                   'Y===', 'YQ=', 'YQ', 'YQ==YQ==', '!!!!', 'YWJj' * 3 + 'Y', '\ud800', 'ＹＷＪｊ', '=YWJj', 'YW=Jj', '616']
    d['urlsafe'] = d['base64'] + ['YW-_YQ', '-___', '_', '-', 'YW+/YQ==', 'YW-_=', 'é-_']
    d['dec'] = c08x.NASTY_DEC + ['sNaN', '-sNaN', 'NaN', '-Infinity', 'Infinity', '１.５', '٣.٣', '1\x00', '1e' + '9' * 30, '1' * 4301,
                                 '0.' + '0' * 4300 + '1', 'nan' + '1' * 30, '1E+٣']
    d['dbl'] = c08x.NASTY_DBL + ['１.５', '٣.٣', '1\x00', '1e' + '9' * 30, '1' * 400, '1' * 5000, '0.' + '0' * 4300 + '1', 'nan(0x1)', 'infinity1',
                                 '1e+٣', '0x1.8p3', '1_000.5', '+-inf']
    d['uuid'] = c08x.NASTY_UUID + ['１2345678-1234-5678-1234-567812345678', '12345678-1234-5678-1234-56781234567\x00', '٣' * 32, 'é' * 32,
                                   '0' * 31, '0' * 33, '0' * 4301, 'urn:uuid:', '12345678-1234-5678-1234-5678123456 8', '-' * 31 + '1',
                                   '+1' + '0' * 30, '-1' + '0' * 30]
    d['datefmt'] = ['2020-01-02', '32.01.2020', '02.13.2020', '29.02.2021', '2.1.2020', '02.01.20', '02.01.10000', '00.00.0000', '02.01.2020 ',
                    ' 02.01.2020', '02.01.2020x', '02/01/2020', '٠٢.٠١.٢٠٢٠', '02.01.2020\x00', '9' * 5000, '02.01.' + '9' * 5000, '02.01.-2020', '%d.%m.%Y',
                    '02.01.2020+05:00', '02.01.2020Z']
    d['dtfmt'] = ['2020-01-02T03:04:05', '20200102 030405Z', '20201302 030405', '20200102 250000', '20200102 030460', '20200102', '20200102  030405',
                  '20200102 030405 ', '٢٠٢٠٠١٠٢ 030405', '20200102 030405\x00', '9' * 5000, '00000000 000000', '20200230 000000', '2020010 2030405', '%Y%m%d %H%M%S']
    d['uuidint'] = ['0', '-1', '1.5', '1e3', 'abc', str(2 ** 128 - 1), str(2 ** 128), str(2 ** 200), '9' * 4300, '9' * 4301, ' 5', '5 ', '0x10', '１２', '1_0', '',
                    '12345678-1234-5678-1234-567812345678', 'NaN', '+5', '--5']
    d['dtnum'] = ['1600000000', '-1', '0', '1e30', 'abc', '1600000000.5', 'NaN', 'inf', '9' * 30, '', ' ', '2020-01-02T03:04:05']
    d['str'] = ['abcd', 'ABC', 'a b', 'é', 'a' * 70000, '\x00', '\ud800', '\udfff\ud800', 'a\x0bb', '￾', '￿', '\x85', ' ']
    d['enum'] = ['nope', 'RED', ' red', 'red ', '__class__', '__doc__', '__module__', 'mro', '__values__', 'Attributes', 'red\x00',
                 'ｒｅｄ', '__init__', 'get_type_name', '_type_info']
    return d


def native_nasty(proto):
    """values of the wrong kind that a dict-document transport can carry at a leaf position"""
    pool = [None, True, False, 0, 1, -1, 5, 255, 256, 2 ** 31, 2 ** 63, 2 ** 64 - 1, 0.0, 1.0, 1.5, -0.5, 1e300, 5e-324,
            [], [1], ['a'], [None], [[1]], [[]], {}, {'k': 1}, {'a': {'b': 1}}, {'x': None}, [{}]]
    if proto in ('json', 'yaml'):
        pool += [2 ** 64, 2 ** 70, -2 ** 70, 10 ** 400, float('inf'), float('-inf'), float('nan')]
    if proto != 'json':
        pool += [b'', b'ab', b'\xff\xfe', b'12', b'YWJj', b'2020-01-02', b'2020-01-02T03:04:05', b'12:00:00', b'P1D', b'6162',
                 'h\xe9'.encode('utf8'), b'\x00', b'true', b'1.5', b'12345678-1234-5678-1234-567812345678', b'\xe9' * 32,
                 b'\xff' * 16, b'red']
    if proto == 'yaml':
        pool += [pydt.date(2020, 1, 2), pydt.datetime(2020, 1, 2, 3, 4, 5), {1: 2}, {None: 1}]
    return pool


# ====================================================================================== the leaf universe
def _safe(s):
    return ''.join(c if c.isalnum() else '_' for c in s)


def leaf_universe():
    """kind id -> dict(cls, fam, valid (text), native (value for dict documents))"""
    import pytz
    from spyne.model import primitive as P
    from spyne.model.binary import ByteArray
    from spyne.model.enum import Enum
    from . import c08
    _, ints, _ = c08.impl_env()
    K = OrderedDict()

    def add(kid, cls, fam, valid, native=None, only=None, skip=(), nosanity=()):
        """`only`: the protocols the kind makes sense for; `skip`: validators it is not used with; `nosanity`: validators under
        which even the valid value is refused (the hostile literals are still sent)"""
        K[kid] = {'id': kid, 'cls': cls, 'fam': fam, 'valid': valid, 'native': valid if native is None else native, 'only': only,
                  'skip': tuple(skip), 'nosanity': tuple(nosanity)}
    for k, cls in ints.items():
        add('int_' + k, cls, 'int', '5', 5)
    add('int_ge0le9', P.Integer(ge=0, le=9), 'int', '5', 5)
    add('int_u8gt1', P.UnsignedInteger8(gt=1), 'int', '5', 5)
    add('bool', P.Boolean, 'bool', 'true', True)
    add('str', P.Unicode, 'str', 'abc')
    add('str_max3', P.Unicode(max_len=3), 'str', 'abc')
    add('str_pat', P.Unicode(pattern='[a-z]+'), 'str', 'abc')
    add('enum', Enum('red', 'green', type_name='Colour10'), 'enum', 'red')
    add('date', P.Date, 'date', '2020-01-02')
    add('time', P.Time, 'time', '12:34:56')
    add('dt', P.DateTime, 'dt', '2020-01-02T03:04:05')
    add('dt_astz', P.DateTime(as_timezone=pytz.FixedOffset(330)), 'dt', '2020-01-02T03:04:05+00:00')
    add('dt_astzutc', P.DateTime(as_timezone=pytz.utc), 'dt', '2020-01-02T03:04:05+00:00')
    add('dt_notz', P.DateTime(timezone=False), 'dt', '2020-01-02T03:04:05')
    add('dt_ge', P.DateTime(ge=pydt.datetime(2000, 1, 1, tzinfo=pytz.utc)), 'dt', '2020-01-02T03:04:05+00:00')
    add('dur', P.Duration, 'dur', 'P1DT2S')
    add('hex', ByteArray(encoding='hex'), 'hex', '6162')
    add('base64', ByteArray(encoding='base64'), 'base64', 'YWJj')
    add('urlsafe', ByteArray(encoding='urlsafe_base64'), 'urlsafe', 'YWJj')
    add('dec', P.Decimal, 'dec', '1.5')
    add('dec_gt0', P.Decimal(gt=0), 'dec', '1.5')
    add('dec_digits', P.Decimal(total_digits=5, fraction_digits=2), 'dec', '1.5')
    add('dbl', P.Double, 'dbl', '1.5', 1.5)
    add('dbl_ge0', P.Double(ge=0), 'dbl', '1.5', 1.5)
    add('uuid', P.Uuid, 'uuid', '12345678-1234-5678-1234-567812345678')
    # round 4: customisations that select other branches of the leaf parsers
    add('date_fmt', P.Date(format='%d.%m.%Y'), 'datefmt', '02.01.2020', only=('xml', 'http') + DICT_PROTOS, skip=('lxml',))
    # (Soap11 / Soap12 insist on ISO 8601 and ignore dt_format)
    add('dt_fmt', P.DateTime(dt_format='%Y%m%d %H%M%S'), 'dtfmt', '20200102 030405', only=('xml', 'http') + DICT_PROTOS, skip=('lxml',))
    # (the schema advertises the dashed pattern of the default flavour)
    add('uuid_hex', P.Uuid(serialize_as='hex'), 'uuid', '12345678123456781234567812345678', skip=('lxml',))
    # (the number flavour: only documents that carry numbers; its string validator never accepts text)
    add('uuid_int', P.Uuid(serialize_as='int'), 'uuidint', '24197857161011715162171839636988778104', 24197857161011715162171839636988778104,
        only=DICT_PROTOS, nosanity=('soft',))
    add('str_enc', P.Unicode(encoding='latin-1'), 'str', 'abc')
    # (a ByteArray without an encoding of its own: base64 text except where the protocol carries bytes natively)
    add('base64_default', ByteArray, 'base64', 'YWJj', only=XML_PROTOS + ('json', 'yaml', 'http'))
    for sa in ('sec', 'sec_float', 'msec', 'msec_float', 'usec'):
        # numbers on the wire: only the dict-document protocols carry them; their soft validation wants DateTime as text
        add('dt_' + sa, P.DateTime(serialize_as=sa), 'dtnum', '1600000000', 1600000000, only=DICT_PROTOS, skip=('soft',))
    return K


POSITIONS = ('top', 'nested', 'array', 'repeated')
XML_POSITIONS = POSITIONS + ('attr', 'data')
XML_PROTOS = ('xml', 'soap11', 'soap12')
DICT_PROTOS = ('json', 'yaml', 'msgpack', 'msgpackrpc')


def all_configs():
    cfgs = [(p, v) for p in XML_PROTOS for v in (None, 'soft', 'lxml')]
    cfgs += [(p, v) for p in DICT_PROTOS for v in (None, 'soft')]
    cfgs += [('http', v) for v in (None, 'soft')]
    return cfgs


def family(proto):
    return {'xml': 'xml', 'soap11': 'soap', 'soap12': 'soap', 'json': 'json', 'yaml': 'yaml', 'msgpack': 'msgpack',
            'msgpackrpc': 'msgpack', 'http': 'http'}[proto]


class World(object):
    """the leaf service under every input protocol x validator, through ServerBase and WsgiApplication"""

    def __init__(self, kinds):
        from spyne import rpc, ServiceBase
        from spyne.model.complex import ComplexModel, Array, XmlAttribute, XmlData
        from spyne.model import primitive as P
        self.K = kinds
        self.calls = []
        self.servers = {}
        self.member = {}
        self.member_ready = False
        env = {'_w': self}
        methods = {}
        for kid, k in kinds.items():
            cls = k['cls']
            obj = type(ComplexModel)('O_' + kid, (ComplexModel,), {'__namespace__': TNS, '_type_info': [('x', cls)]})
            arr = Array(cls)
            rep = cls.customize(max_occurs='unbounded')
            # the leaf as an XML attribute and as the character data of an element
            oa = type(ComplexModel)('OA_' + kid, (ComplexModel,), {'__namespace__': TNS, '_type_info': [('v', XmlAttribute(cls)), ('w', P.Unicode)]})
            od = type(ComplexModel)('OD_' + kid, (ComplexModel,), {'__namespace__': TNS, '_type_info': [('v', XmlData(cls)), ('u', XmlAttribute(P.Unicode))]})
            name = 'f_' + kid
            exec('def %s(ctx, a, o, arr, rep, oa, od):\n    _w.calls.append((%r, a, o, arr, rep, oa, od))\n    return "ok"\n' % (name, name), env)
            methods[name] = rpc(cls, obj, arr, rep, oa, od, _returns=P.Unicode)(env[name])
        # the plain method of the transport / byte-level parts
        self.boom = None
        exec('def echo(ctx, s, n):\n    _w.calls.append(("echo", s, n))\n    if _w.boom is not None:\n        raise _w.boom\n'
             '    return s\n', env)
        methods['echo'] = rpc(P.Unicode, P.Integer, _returns=P.Unicode)(env['echo'])
        # the same with two declared SOAP header classes (the envelope part)
        hdr_a = type(ComplexModel)('HdrA', (ComplexModel,), {'__namespace__': TNS, '_type_info': [('token', P.Unicode)]})
        hdr_b = type(ComplexModel)('HdrB', (ComplexModel,), {'__namespace__': TNS, '_type_info': [('n', P.Integer)]})
        exec('def echoh(ctx, s, n):\n    _w.calls.append(("echoh", s, n))\n    return s\n', env)
        methods['echoh'] = rpc(P.Unicode, P.Integer, _returns=P.Unicode, _in_header=(hdr_a, hdr_b))(env['echoh'])
        exec('def echoh1(ctx, s, n):\n    _w.calls.append(("echoh1", s, n))\n    return s\n', env)
        methods['echoh1'] = rpc(P.Unicode, P.Integer, _returns=P.Unicode, _in_header=(hdr_a,))(env['echoh1'])
        # objects in arrays / repeated objects (the flat notations of HttpRpc), a class with a subclass (polymorphic documents)
        item = type(ComplexModel)('Item10', (ComplexModel,), {'__namespace__': TNS, '_type_info': [
            ('x', P.Integer), ('tags', P.Unicode(max_occurs='unbounded'))]})
        sub = type(ComplexModel)('SubItem10', (item,), {'__namespace__': TNS, '_type_info': [('y', P.Integer)]})
        self.item, self.subitem = item, sub
        exec('def hq(ctx, items, one, many):\n    _w.calls.append(("hq", items, one, many))\n    return "ok"\n', env)
        methods['hq'] = rpc(Array(item), item, item.customize(max_occurs='unbounded'), _returns=P.Unicode)(env['hq'])
        self.service = type('LeafSvc', (ServiceBase,), methods)

    # ------------------------------------------------------------------ servers
    def server(self, proto, validator, **opts):
        """`opts`: keyword arguments of the input protocol (strict_arrays, polymorphic, ...)"""
        key = (proto, validator) + tuple(sorted(opts.items()))
        s = self.servers.get(key)
        if s is None:
            from spyne import Application
            from spyne.server import ServerBase
            from spyne.server.wsgi import WsgiApplication
            opts = dict(opts)
            out = opts.pop('out', None)
            inp, outp = self._protocols(proto, validator, opts)
            if out is not None:
                outp = self._protocols(out, None, {})[1]
            app = Application([self.service], TNS, name='C10App', in_protocol=inp, out_protocol=outp)
            s = {'app': app, 'base': ServerBase(app) if proto != 'http' else None, 'wsgi': WsgiApplication(app),
                 'proto': proto, 'validator': validator, 'opts': dict(opts, **({'out': out} if out else {})), 'outproto': out or proto}
            self.servers[key] = s
            if not self.member_ready:
                # the element name / namespace of array items is settled when the interface is built
                for kid in self.K:
                    d = app.interface.service_method_map['{%s}f_%s' % (TNS, kid)][0]
                    arr = d.in_message._type_info['arr']
                    self.member[kid] = '{%s}%s' % (arr.get_namespace(), list(arr._type_info.keys())[0])
                self.member_ready = True
        return s

    def _protocols(self, proto, validator, opts=None):
        opts = opts or {}
        if proto in XML_PROTOS:
            from .xmlblock import make_protocol
            return make_protocol(proto, validator, **opts), make_protocol(proto, None)
        if proto == 'http':
            from spyne.protocol.http import HttpRpc
            from spyne.protocol.json import JsonDocument
            return HttpRpc(validator=validator, **opts), JsonDocument()
        from .hierblock import proto_class
        pc = proto_class(proto)
        return pc(validator=validator, **opts), pc()

    # ------------------------------------------------------------------ request documents
    def values(self, kid, pos, lit, native=False):
        """the four argument values of f_<kid>: `lit` at `pos`, the valid literal elsewhere"""
        v = self.K[kid]['native' if native else 'valid']
        vals = {'top': v, 'nested': v, 'array': [v], 'repeated': [v, v], 'attr': None, 'data': None}
        if pos in ('attr', 'data'):
            vals[pos] = lit
        elif pos == 'top':
            vals['top'] = lit
        elif pos == 'nested':
            vals['nested'] = lit
        elif pos == 'array':
            vals['array'] = [v, lit]
        elif pos == 'repeated':
            vals['repeated'] = [lit, v]
        return vals

    def xml_request(self, proto, kid, pos, lit, deco=None):
        """bytes of the request document, or None when XML cannot carry the literal"""
        from lxml import etree
        self.server(proto, None)
        vals = self.values(kid, pos, lit)
        q = lambda n: '{%s}%s' % (TNS, n)
        try:
            root = etree.Element(q('f_' + kid), nsmap={None: TNS})
            etree.SubElement(root, q('a')).text = vals['top']
            etree.SubElement(etree.SubElement(root, q('o')), q('x')).text = vals['nested']
            arr = etree.SubElement(root, q('arr'))
            for v in vals['array']:
                etree.SubElement(arr, self.member[kid]).text = v
            for v in vals['repeated']:
                etree.SubElement(root, q('rep')).text = v
            if vals['attr'] is not None:
                oa = etree.SubElement(root, q('oa'))
                oa.set('v', vals['attr'])
                etree.SubElement(oa, q('w')).text = 'w'
            if vals['data'] is not None:
                od = etree.SubElement(root, q('od'))
                od.text = vals['data']
                od.set('u', 'u')
            if deco is not None:
                deco(etree, root, q)
        except ValueError:
            return None
        return etree.tostring(soap_wrap(proto, root), encoding='utf-8', xml_declaration=True)

    def dict_request(self, proto, kid, pos, lit):
        from .hierblock import dump
        vals = self.values(kid, pos, lit, native=True)
        body = {'a': vals['top'], 'o': {'x': vals['nested']}, 'arr': vals['array'], 'rep': vals['repeated']}
        name = 'f_' + kid
        doc = [0, 1, name, body] if proto == 'msgpackrpc' else {name: body}
        try:
            return dump('msgpack' if proto == 'msgpackrpc' else proto, doc)
        except Exception:
            return None

    def echo_request(self, proto, s='hi', n=5):
        """a valid request of the plain method `echo(s, n)`"""
        if proto in XML_PROTOS:
            from lxml import etree
            q = lambda x: '{%s}%s' % (TNS, x)
            root = etree.Element(q('echo'), nsmap={None: TNS})
            etree.SubElement(root, q('s')).text = s
            etree.SubElement(root, q('n')).text = str(n)
            return etree.tostring(soap_wrap(proto, root), encoding='utf-8', xml_declaration=True)
        from .hierblock import dump
        body = {'s': s, 'n': n}
        doc = [0, 1, 'echo', body] if proto == 'msgpackrpc' else {'echo': body}
        return dump('msgpack' if proto == 'msgpackrpc' else proto, doc)

    def http_query(self, kid, pos, lit):
        vals = self.values(kid, pos, lit)
        try:
            pairs = [('a', vals['top']), ('o.x', vals['nested'])] + [('arr', v) for v in vals['array']] + \
                    [('rep', v) for v in vals['repeated']]
            return '&'.join('%s=%s' % (k, quote(v, safe='')) for k, v in pairs)
        except (UnicodeEncodeError, TypeError):
            return None


def soap_wrap(proto, root):
    from lxml import etree
    if proto == 'xml':
        return root
    ns = NS_SOAP11 if proto == 'soap11' else NS_SOAP12
    env = etree.Element('{%s}Envelope' % ns, nsmap={'senv': ns})
    etree.SubElement(env, '{%s}Body' % ns).append(root)
    return env


CONTENT_TYPES = {'xml': 'text/xml; charset=utf-8', 'soap11': 'text/xml; charset=utf-8',
                 'soap12': 'application/soap+xml; charset=utf-8', 'json': 'application/json', 'yaml': 'text/yaml',
                 'msgpack': 'application/x-msgpack', 'msgpackrpc': 'application/x-msgpack', 'http': None}


# ====================================================================================== running the real code
def spyne_frame(e):
    """innermost spyne frame of an exception as `file:function` (line numbers move under harmless edits)"""
    tb = traceback.extract_tb(e.__traceback__)
    for fr in reversed(tb):
        if '/spyne/' in fr.filename:
            return '%s:%s' % (fr.filename.split('/spyne/')[-1], fr.name)
    return '?'


def is_client(code):
    code = str(code or '')
    return code == 'Client' or code.startswith('Client.')


class Res(object):
    """canonical outcome of one request through one transport"""
    __slots__ = ('kind', 'code', 'exc', 'frame', 'stage', 'calls', 'status', 'wire', 'out', 'in_stage')

    def __init__(self):
        self.kind = self.code = self.exc = self.frame = self.stage = self.status = self.wire = self.out = self.in_stage = None
        self.calls = 0

    def cls(self):
        """outcome class compared with the model"""
        if self.kind == 'escape':
            return {'escape': True}
        fam = 'ok' if self.kind == 'ok' else ('client' if is_client(self.code) else 'server')
        st = None if self.status is None else self.status // 100
        return {'resp': fam, 'called': self.calls, 'status': st}


def wire_code(proto, out):
    """fault code of a response document in the output protocol's own spelling (None: not a fault document)"""
    if proto in XML_PROTOS:
        from .xmlblock import response_fault_code
        return response_fault_code(proto, out)
    from .hierblock import fault_code_of
    p = 'json' if proto == 'http' else proto
    return fault_code_of({'proto': p}, out)


def run_base(W, s, data):
    """generate_contexts -> get_in_object -> get_out_object -> get_out_string on ServerBase"""
    from spyne import MethodContext
    server = s['base']
    r = Res()
    del W.calls[:]
    stage = 'generate_contexts'
    try:
        ictx = MethodContext(server, MethodContext.SERVER)
        ictx.in_string = [data]
        ctx = server.generate_contexts(ictx)[0]
        if ctx.in_error is None:
            stage = 'get_in_object'
            server.get_in_object(ctx)
        else:
            r.in_stage = 'generate_contexts'
        if ctx.in_error is None:
            stage = 'get_out_object'
            server.get_out_object(ctx)
        elif r.in_stage is None:
            r.in_stage = 'get_in_object'
        if ctx.in_error is not None and ctx.out_error is None:
            ctx.out_error = ctx.in_error
        stage = 'get_out_string'
        server.get_out_string(ctx)
        r.out = b''.join(ctx.out_string)
    except Exception as e:
        r.kind, r.exc, r.frame, r.stage, r.calls = 'escape', type(e).__name__, spyne_frame(e), stage, len(W.calls)
        return r
    r.calls = len(W.calls)
    err = ctx.out_error if ctx.out_error is not None else ctx.in_error
    if err is None:
        r.kind = 'ok'
    else:
        r.kind, r.code = 'fault', str(getattr(err, 'faultcode', ''))
        r.wire = wire_code(s.get('outproto') or s['proto'], r.out)
    return r


class Input(object):
    """wsgi.input with a behaviour: 'file' | 'short' (1 byte per read) | 'raise' | 'raise-late' | 'none'"""

    def __init__(self, data, mode='file'):
        self.b, self.mode, self.n = io.BytesIO(data), mode, 0

    def read(self, n=-1):
        self.n += 1
        if self.mode == 'raise' or (self.mode == 'raise-late' and self.n > 1):
            raise IOError('connection reset by peer')
        if self.mode == 'short':
            return self.b.read(min(n, 1) if n and n > 0 else 1)
        if self.mode == 'none':
            return None
        return self.b.read(n)


def base_environ(proto, data, path='/', qs='', method='POST'):
    env = {'REQUEST_METHOD': method, 'PATH_INFO': path, 'SCRIPT_NAME': '', 'QUERY_STRING': qs, 'SERVER_NAME': 'localhost',
           'SERVER_PORT': '80', 'SERVER_PROTOCOL': 'HTTP/1.1', 'wsgi.input': Input(data), 'wsgi.url_scheme': 'http',
           'wsgi.errors': io.StringIO(), 'wsgi.version': (1, 0), 'wsgi.multithread': False, 'wsgi.multiprocess': False,
           'wsgi.run_once': False, 'CONTENT_LENGTH': str(len(data))}
    if CONTENT_TYPES[proto] is not None:
        env['CONTENT_TYPE'] = CONTENT_TYPES[proto]
    return env


def run_wsgi(W, s, env):
    r = Res()
    del W.calls[:]
    seen = {}

    def start_response(status, headers, exc_info=None):
        seen['status'], seen['headers'] = status, headers
        return lambda b: None
    try:
        it = s['wsgi'](env, start_response)
        try:
            r.out = b''.join(it)
        finally:
            close = getattr(it, 'close', None)
            if close is not None:
                close()
    except Exception as e:
        r.kind, r.exc, r.frame, r.stage, r.calls = 'escape', type(e).__name__, spyne_frame(e), 'wsgi', len(W.calls)
        return r
    r.calls = len(W.calls)
    try:
        r.status = int(str(seen.get('status', '')).split(' ')[0])
    except ValueError:
        r.status = 0
    if r.status == 200:
        r.kind = 'ok'
    else:
        r.kind = 'fault'
        r.wire = wire_code(s.get('outproto') or s['proto'], r.out)
        r.code = r.wire if isinstance(r.wire, str) and r.wire not in ('unparseable', '#unparsable') else None
    return r


def diagnose(W, s, data=None, env=None):
    """drive the input protocol's stages directly (outside the server's handlers): the first exception other
    than Fault, as (class name, innermost spyne frame, stage)"""
    from spyne import MethodContext
    from spyne.model.fault import Fault
    app = s['app']
    p = app.in_protocol
    calls = list(W.calls)
    stage = 'create_in_document'
    try:
        if env is not None:
            from spyne.server.wsgi import WsgiMethodContext
            w = s['wsgi']
            ctx = WsgiMethodContext(w, env, app.out_protocol.mime_type)
            stage = 'reconstruct_wsgi_request'
            ctx.in_string, charset = w._WsgiApplication__reconstruct_wsgi_request(env)
            stage = 'create_in_document'
            p.create_in_document(ctx, charset)
        else:
            ctx = MethodContext(s['base'], MethodContext.SERVER)
            ctx.in_string = [data]
            p.create_in_document(ctx, None)
        stage = 'decompose_incoming_envelope'
        p.decompose_incoming_envelope(ctx, p.REQUEST)
        stage = 'generate_method_contexts'
        ctx = p.generate_method_contexts(ctx)[0]
        stage = 'deserialize'
        p.deserialize(ctx, message=p.REQUEST)
    except Fault as e:
        return None
    except Exception as e:
        return type(e).__name__, spyne_frame(e), stage
    finally:
        W.calls[:] = calls
    return None


# ====================================================================================== the oracle
class Judge(object):
    """evaluates the property on one run; findings are de-duplicated by
    (what, protocol family, exception class or 'server-fault', innermost spyne frame / leaf kind)"""

    def __init__(self, ctx, W):
        self.ctx, self.W = ctx, W
        self.sites = {}

    def _finding(self, fid, what, replay):
        self.sites[fid] = self.sites.get(fid, 0) + 1
        self.ctx.hit('t3-fail:' + fid)
        self.ctx.finding(fid, what, replay)

    def check(self, s, r, transport, replay, leaf=None, data=None, env=None, io_error=False):
        """`r`: Res of a request that is malformed / hostile (or valid: then every clause holds trivially).
        Returns True when the property holds."""
        proto = s['proto']
        fam = family(proto)
        site = leaf or 'request'
        rp = dict(replay, transport=transport, proto=proto, validator=s['validator'])
        if r.kind == 'escape':
            self._finding('c10:escape:%s:%s:%s:%s' % (transport, fam, r.exc, r.frame),
                          '%s escapes %s (innermost spyne frame %s) on a hostile %s request%s' % (
                              r.exc, r.stage if transport == 'base' else 'the WSGI callable', r.frame, proto,
                              ' [%s]' % leaf if leaf else ''), dict(rp, observed={'escape': r.exc, 'frame': r.frame, 'stage': r.stage}))
            return False
        ok = True
        if r.kind == 'fault':
            code = r.code
            client = is_client(code)
            if not client and not io_error:
                d = diagnose(self.W, s, data=data, env=env)
                exc, frame = (d[0], d[1]) if d else ('server-fault', site)
                self._finding('c10:server-fault:%s:%s:%s' % (fam, exc, frame if d else site),
                              'a malformed %s request%s is answered with fault code %r%s instead of a Client fault%s' % (
                                  proto, ' [%s]' % leaf if leaf else '', code,
                                  ' / HTTP %s' % r.status if r.status else '',
                                  ': %s raised in %s during %s' % (d[0], d[1], d[2]) if d else ''),
                              dict(rp, observed={'fault': code, 'status': r.status, 'underlying': d}))
                ok = False
            if r.calls:
                self._finding('c10:called-and-fault:%s:%s' % (transport, fam),
                              'the user function ran although the request is answered with a fault', dict(rp, observed={'fault': code, 'calls': r.calls}))
                ok = False
            if client or io_error:
                wire = r.wire
                if not (isinstance(wire, str) and (is_client(wire) or (io_error and wire.startswith('Server')))):
                    self._finding('c10:fault-document:%s:%s' % (fam, str(wire)[:24]),
                                  'the response to a malformed %s request is not a well-formed Client fault document of the output protocol '
                                  '(code read back: %r)' % (proto, wire), dict(rp, response=(r.out or b'')[:600].decode('utf-8', 'replace')))
                    ok = False
            if transport == 'wsgi' and client and family(s.get('outproto') or proto) != 'soap' and not (400 <= (r.status or 0) < 500):
                self._finding('c10:status:%s:%s' % (fam, r.status), 'a Client fault over HTTP (%s) is sent with status %s' % (proto, r.status),
                              dict(rp, observed={'fault': code, 'status': r.status}))
                ok = False
        elif r.calls != 1:
            self._finding('c10:ok-without-call:%s:%s:%d' % (transport, fam, r.calls),
                          'a request answered normally ran the user function %d times' % r.calls, dict(rp, observed={'calls': r.calls}))
            ok = False
        return ok

    def sanity(self, s, r, transport, replay):
        """a valid request is answered normally"""
        if r.kind != 'ok' or r.calls != 1:
            fam = family(s['proto'])
            self._finding('c10:valid-rejected:%s:%s:%s' % (transport, fam, replay.get('kid', '')),
                          'a valid %s request is not answered normally: %s %s %s calls=%d' % (s['proto'], r.kind, r.code or r.exc, r.status or '', r.calls),
                          dict(replay, transport=transport, proto=s['proto'], validator=s['validator']))
            return False
        return True


# ====================================================================================== T1: facts
PARSER_CALLS = {'fromstring', 'XMLID', 'loads', 'load', 'unpackb'}


def _spyne_ast(rel):
    path = os.path.join(core.REPO, 'spyne', rel)
    return ast.parse(open(path).read(), filename=path)


def _find_func(tree, qualname):
    parts = qualname.split('.')
    node = tree
    for p in parts:
        nxt = None
        for n in ast.iter_child_nodes(node):
            if isinstance(n, (ast.FunctionDef, ast.ClassDef)) and n.name == p:
                nxt = n
        if nxt is None:
            raise core.Infra('T1: %s not found in the source' % qualname)
        node = nxt
    return node


def _call_name(call):
    f = call.func
    return f.attr if isinstance(f, ast.Attribute) else f.id if isinstance(f, ast.Name) else None


def try_chain(func, pred):
    """chain of `try` statements (innermost first) whose *body* contains the first call satisfying `pred`;
    None when there is no such call outside exception handlers"""
    found = []

    def walk(node, stack):
        if found:
            return
        if isinstance(node, ast.Try):
            for n in node.body:
                walk(n, [node] + stack)
            for n in node.orelse + node.finalbody:
                walk(n, stack)
            return          # handlers are not searched: a call made there is the handler's business
        if isinstance(node, ast.Call) and pred(node):
            found.append(list(stack))
            return
        for n in ast.iter_child_nodes(node):
            walk(n, stack)
    for n in func.body:
        walk(n, [])
    return found[0] if found else None


def _resolve(expr, module):
    """class objects named by the type expression of an except clause, in the namespace of its module"""
    if expr is None:
        return [BaseException]
    v = eval(compile(ast.Expression(expr), '<except>', 'eval'), vars(module))
    return list(v) if isinstance(v, tuple) else [v]


def classify_handler(h, module):
    """(set of caught class names, what the clause ends in) of one except clause.  Only the resolved classes of the clause
    (tuples flattened, bare `except` = BaseException) and three facts about its body count, wherever and in whatever order
    they are written: it builds a Fault (sub)class with a literal code / a CODE attribute (`wrap`), it hands the caught
    exception on as the error (`keep`), it calls the parser again (`retry`)."""
    from spyne.model.fault import Fault
    classes = sorted({c.__name__ for c in _resolve(h.type, module)})
    body = ast.Module(body=h.body, type_ignores=[])
    codes, keeps, retries = [], False, False
    for node in ast.walk(body):
        if isinstance(node, ast.Call):
            if _call_name(node) in PARSER_CALLS:
                retries = True
            try:
                cls = _resolve(node.func, module)[0]
            except Exception:
                cls = None
            if isinstance(cls, type) and issubclass(cls, Fault):
                code = getattr(cls, 'CODE', None)
                if code is None and node.args and isinstance(node.args[0], ast.Constant):
                    code = node.args[0].value
                if isinstance(code, str):
                    codes.append(code)
        elif isinstance(node, ast.Assign) and h.name and isinstance(node.value, ast.Name) and node.value.id == h.name:
            keeps = True
    if codes:
        action = ('wrap', codes[0])
    elif keeps:
        action = ('keep',)
    elif retries:
        action = ('retry',)
    else:
        action = ('other',)
    return classes, action


def _flat_targets(assign):
    out = []
    for t in assign.targets:
        out += list(t.elts) if isinstance(t, (ast.Tuple, ast.List)) else [t]
    return out


def _candidate_funcs(tree, qualname):
    """the named function first, then the other methods of its class, then the module-level functions: the `try` that
    guards a call is found wherever a refactoring has moved it within the class / module"""
    parts = qualname.split('.')
    out = []
    try:
        out.append(_find_func(tree, qualname))
    except core.Infra:
        pass
    if len(parts) == 2:
        for n in ast.iter_child_nodes(tree):
            if isinstance(n, ast.ClassDef) and n.name == parts[0]:
                out += [m for m in ast.iter_child_nodes(n) if isinstance(m, ast.FunctionDef) and m not in out]
    out += [n for n in ast.iter_child_nodes(tree) if isinstance(n, ast.FunctionDef) and n not in out]
    return out


def chain_facts(rel, qualname, pred, modname, also=None):
    """handler lists of the `try` chain around the first call satisfying `pred`; with `also`, a second predicate looked for
    in the SAME function (-> pair of chains)"""
    import importlib
    module = importlib.import_module(modname)
    read = lambda ch: None if ch is None else [[classify_handler(h, module) for h in t.handlers] for t in ch]
    for func in _candidate_funcs(_spyne_ast(rel), qualname):
        ch = try_chain(func, pred)
        if ch is not None:
            return read(ch) if also is None else (read(ch), read(try_chain(func, also)))
    return None if also is None else (None, None)


def is_call(*names):
    return lambda c: _call_name(c) in names


def is_decode_call(c):
    """`<something>.decode(<charset variable>)`: the decoding of the request body"""
    return _call_name(c) == 'decode' and len(c.args) == 1 and not isinstance(c.args[0], ast.Constant)


PROTO_SITES = OrderedDict([
    # proto -> (file, function holding the parser call, module, parser call names)
    ('xml', ('protocol/xml.py', 'XmlDocument.create_in_document', 'spyne.protocol.xml', ('fromstring',))),
    ('soap11', ('protocol/soap/soap11.py', '_parse_xml_string', 'spyne.protocol.soap.soap11', ('XMLID',))),
    ('soap12', ('protocol/soap/soap11.py', '_parse_xml_string', 'spyne.protocol.soap.soap11', ('XMLID',))),
    ('json', ('protocol/json.py', 'JsonDocument.create_in_document', 'spyne.protocol.json', ('loads',))),
    ('yaml', ('protocol/yaml.py', 'YamlDocument.create_in_document', 'spyne.protocol.yaml', ('load',))),
    ('msgpack', ('protocol/msgpack.py', 'MessagePackDocument.create_in_document', 'spyne.protocol.msgpack', ('unpackb',))),
    ('msgpackrpc', ('protocol/msgpack.py', 'MessagePackRpc.create_in_document', 'spyne.protocol.msgpack', ('unpackb',))),
    ('http', None),
])


def _subs(c):
    out = [c]
    for s in c.__subclasses__():
        for x in _subs(s):
            if x not in out:
                out.append(x)
    return out


def exc_json(cls):
    return {'name': cls.__name__, 'mro': [c.__name__ for c in cls.__mro__]}


def raisable_text_classes(proto, text_input):
    """what the parser raises in addition when the protocol hands it text"""
    if proto in XML_PROTOS and text_input:
        return [ValueError]      # lxml: unicode text with an encoding declaration
    return []


def raisable_classes(proto, text_input):
    """the classes the parser library raises for input it rejects (introspected hierarchies)"""
    if proto in XML_PROTOS:
        from lxml import etree
        return _subs(etree.XMLSyntaxError)
    if proto == 'json':
        return _subs(json.JSONDecodeError) + [ValueError, RecursionError]      # ValueError: the integer digit limit
    if proto == 'yaml':
        import yaml
        from spyne.protocol.yaml import YamlDocument
        loader = YamlDocument().in_kwargs.get('Loader')
        pure = not (hasattr(yaml, 'cyaml') and issubclass(loader, yaml.cyaml.CParser))
        # the pure-Python composer recurses in Python; libyaml recurses on the C stack (see `deep_nesting_probe`)
        return _subs(yaml.YAMLError) + [ValueError, TypeError, AttributeError] + ([RecursionError] if pure else [])
    if proto in ('msgpack', 'msgpackrpc'):
        import msgpack.exceptions as me
        cl = [getattr(me, n) for n in sorted(dir(me)) if isinstance(getattr(me, n), type)
              and issubclass(getattr(me, n), ValueError) and 'Pack' not in n.replace('Unpack', '')]
        out = []
        for c in cl + [ValueError, UnicodeDecodeError]:
            if c not in out:
                out.append(c)
        return out
    return []


FAULT_CLASSES = ['tooLong', 'notFound', 'notAllowed', 'invalidCreds', 'client', 'server']


def status_tables():
    from spyne.error import (ResourceNotFoundError, InvalidCredentialsError, RequestNotAllowed, RequestTooLongError,
                             ValidationError)
    from spyne.model.fault import Fault
    from spyne.protocol import ProtocolBase
    from spyne.protocol.soap import Soap11
    mk = {'tooLong': lambda: RequestTooLongError(), 'notFound': lambda: ResourceNotFoundError('x'),
          'notAllowed': lambda: RequestNotAllowed('x'), 'invalidCreds': lambda: InvalidCredentialsError('x'),
          'client': lambda: ValidationError('x'), 'server': lambda: Fault('Server', 'x')}
    def st(p, k):
        try:
            return int(str(p.fault_to_http_response_code(mk[k]())).split(' ')[0])
        except Exception:
            return 0            # no status at all: the table is bad, the parts below find the request that shows it
    pb, s11 = ProtocolBase(), Soap11()
    return {k: st(pb, k) for k in FAULT_CLASSES}, {k: st(s11, k) for k in FAULT_CLASSES}


# ---- the transport decision table
P_FAMS = ['soap', 'plain', 'http']
P_METHODS = ['post', 'get', 'other']
P_CTYPES = ['absent', 'proper', 'garbage', 'multipartNoBoundary', 'otherType', 'multipartBoundary']
P_LENS = ['absent', 'empty', 'exact', 'short', 'long', 'overMax', 'negative', 'nonNumeric', 'float', 'huge', 'padded', 'plus']
FAM_PROTO = {'soap': 'soap11', 'plain': 'json', 'http': 'http'}
MAX_LEN = 2 * 1024 * 1024


def pre_keys():
    return [(f, m, c, l) for f in P_FAMS for m in P_METHODS for c in P_CTYPES for l in P_LENS]


def len_text(cls, n):
    return {'absent': None, 'empty': '', 'exact': str(n), 'short': str(max(n - 7, 0)), 'long': str(n + 100),
            'overMax': str(MAX_LEN + 1), 'negative': '-5', 'nonNumeric': 'abc', 'float': '1.5', 'huge': '9' * 30,
            'padded': ' %d ' % n, 'plus': '+%d' % n}[cls]


def ctype_text(cls, proto):
    return {'absent': None, 'proper': CONTENT_TYPES[proto] or 'application/x-www-form-urlencoded', 'garbage': '@@@;;;==;charset',
            'multipartNoBoundary': 'multipart/related', 'otherType': 'text/plain',
            'multipartBoundary': 'multipart/related; boundary="c10bnd"; type="text/xml"; start="<soap>"'}[cls]


def method_text(cls):
    return {'post': 'POST', 'get': 'GET', 'other': 'PUT'}[cls]


def key_environ(W, key, data=None):
    """the witness environ of a decision-table row: a valid `echo` request of the family's protocol under
    the row's request method, CONTENT_TYPE and CONTENT_LENGTH"""
    fam, m, c, l = key
    proto = FAM_PROTO[fam]
    if proto == 'http':
        body = b'' if data is None else data
        env = base_environ(proto, body, path='/echo', qs='s=hi&n=5', method=method_text(m))
    else:
        body = W.echo_request(proto) if data is None else data
        env = base_environ(proto, body, method=method_text(m))
    env.pop('CONTENT_TYPE', None)
    ct = ctype_text(c, proto)
    if ct is not None:
        env['CONTENT_TYPE'] = ct
    env.pop('CONTENT_LENGTH', None)
    cl = len_text(l, len(body))
    if cl is not None:
        env['CONTENT_LENGTH'] = cl
    return env, body


def effective_body(key, body):
    """the bytes the protocol gets to see under the row's CONTENT_LENGTH (what `__wsgi_input_to_iterable` delivers)"""
    l = key[3]
    if l in ('absent', 'exact', 'long', 'padded', 'plus'):
        return body
    if l == 'short':
        return body[:max(len(body) - 7, 0)]
    return b''


def measure_pre_table(W):
    """every row replayed on the real WsgiApplication: proceed / reject(code, status) / escape(class)"""
    rows, detail = [], {}
    have_wz = werkzeug_available()
    for key in pre_keys():
        proto = FAM_PROTO[key[0]]
        if proto == 'http' and key[1] != 'get' and not have_wz:
            rows.append(('unavailable',))        # HttpRpc reads POST / PUT bodies with werkzeug's form parser
            continue
        s = W.server(proto, None)
        env, body = key_environ(W, key)
        r = run_wsgi(W, s, env)
        if r.kind == 'escape':
            d = ('escape', r.exc)
            detail[key] = {'exc': r.exc, 'frame': r.frame}
        elif r.kind == 'ok':
            d = ('proceed',)
        else:
            # the same environ around bytes the parser rejects: if the answer does not change the transport decided
            eff = effective_body(key, body)
            if proto != 'http' and r.calls == 0 and eff != body and r.code and is_client(r.code) and \
                    r.code.split('.')[-1] in ('XMLSyntaxError', 'JsonDecodeError', 'SoapError', 'ValidationError', 'ResourceNotFound') \
                    and key[3] in ('empty', 'short', 'negative') and not pre_rejects(W, s, key):
                d = ('proceed',)
            else:
                d = ('reject', r.code or 'None', r.status or 0)
        rows.append(d)
    return rows, detail


def pre_rejects(W, s, key):
    """is a row with a cut / empty body answered before the document is looked at?  Compared with the row that
    differs only in delivering the complete body."""
    full = (key[0], key[1], key[2], 'exact')
    env, body = key_environ(W, full)
    r = run_wsgi(W, s, env)
    return r.kind != 'ok'


def measure_facts(W):
    f = OrderedDict()
    witness = {}
    # (a) except clauses
    # (a) the `try` statements of the server around the stages: MEASURED by injecting exceptions at the stages; the `ast`
    #     reading of the same statements is a cross-check that is recorded, never used by the proof
    measured, detail = measure_stage_handlers(W)
    f['stageDetail'] = detail
    for name in STAGE_SITES:
        f[name] = [measured[name]]
    f['astCrossCheck'] = ast_cross_check(measured)
    f['parseChain'], f['decodeChain'], f['raisable'], f['textInput'], f['raisableText'] = {}, {}, {}, {}, {}
    for proto, site in PROTO_SITES.items():
        if site is None:
            f['parseChain'][proto], f['decodeChain'][proto], f['raisable'][proto], f['textInput'][proto] = [], [], [], False
            f['raisableText'][proto] = []
            continue
        rel, qn, modname, names = site
        pc, dc = chain_facts(rel, qn, is_call(*names), modname, also=is_decode_call)
        f['parseChain'][proto] = pc or []
        f['decodeChain'][proto] = dc or []
        f['textInput'][proto] = dc is not None
        f['raisable'][proto] = [exc_json(c) for c in raisable_classes(proto, dc is not None)]
        f['raisableText'][proto] = [exc_json(c) for c in raisable_text_classes(proto, dc is not None)]
    # bytes.decode(charset): unknown codec, undecodable bytes, codecs that are not text encodings, idna ...
    f['raisableDecode'] = [exc_json(UnicodeDecodeError), exc_json(UnicodeError), exc_json(ValueError), exc_json(LookupError)]
    # (c) status tables
    f['statusPlain'], f['statusSoap'] = status_tables()
    s = W.server('json', None)
    r = run_wsgi(W, s, base_environ('json', W.echo_request('json')))
    f['okStatus'] = r.status or 0
    # (d) transport decision table
    f['preTable'], f['preDetail'] = measure_pre_table(W)
    # (e) the decompose stage of Soap11 / Soap12 over envelope shapes
    f['envTable'] = measure_env_table(W)
    f['hrefTable'] = measure_href_table(W)
    f['urlTable'], f['urlDetail'] = measure_url_table(W)
    f['faultDocTable'], f['faultDocDetail'] = measure_fault_doc_table(W)
    return f


def _lean_str(s):
    return '"' + s.replace('\\', '\\\\').replace('"', '\\"') + '"'


def _lean_list(items):
    return '[' + ', '.join(items) + ']'


def _lean_handler(h):
    classes, action = h
    a = {'keep': '.keep', 'retry': '.retry', 'other': '.other'}.get(action[0]) or '.wrap %s' % _lean_str(action[1])
    return '⟨%s, %s⟩' % (_lean_list(_lean_str(c) for c in classes), a)


def _lean_try(hs):
    return _lean_list(_lean_handler(h) for h in hs)


def _lean_chain(ch):
    return _lean_list(_lean_try(t) for t in ch)


def _lean_exc(e):
    return '⟨%s, %s⟩' % (_lean_str(e['name']), _lean_list(_lean_str(c) for c in e['mro']))


LEAN_PROTO = {'xml': 'xml', 'soap11': 'soap11', 'soap12': 'soap12', 'json': 'json', 'yaml': 'yaml', 'msgpack': 'msgpack',
              'msgpackrpc': 'msgpackRpc', 'http': 'httpRpc'}


def pre_rows_lean(table):
    rows = []
    for d in table:
        if d[0] == 'proceed':
            rows.append('.proceed')
        elif d[0] == 'reject':
            rows.append('.reject %s %d' % (_lean_str(d[1]), d[2]))
        elif d[0] == 'unavailable':
            rows.append('.unavailable')
        else:
            rows.append('.escape %s' % _lean_str(d[1]))
    return ',\n    '.join(', '.join(rows[i:i + 6]) for i in range(0, len(rows), 6))


def facts_lean(f):
    def per_proto(d, fmt):
        return '\n'.join('    | .%s => %s' % (LEAN_PROTO[p], fmt(d[p])) for p in PROTO_SITES)

    def single(ch):
        # the server functions have one `try` around the stage
        return _lean_try(ch[0]) if ch else '[]'
    table = pre_rows_lean(f['preTable'])
    tab = lambda t: ' | '.join('.%s => %d' % (k, t[k]) for k in FAULT_CLASSES)
    return '''-- GENERATED by harness/c10.py (T1) from /repo on every run. Do not edit.
import SpyneModel.Hostile
namespace SpyneModel.Generated
open SpyneModel.Hostile

def facts10 : Facts10 where
  parseChain := fun p => match p with
%s
  decodeChain := fun p => match p with
%s
  genContexts := %s
  getInObject := %s
  processRequest := %s
  wsgiOutString := %s
  raisable := fun p => match p with
%s
  raisableText := fun p => match p with
%s
  raisableDecode := %s
  decodes := fun p => match p with
%s
  statusPlain := fun fc => match fc with
    | %s
  statusSoap := fun fc => match fc with
    | %s
  okStatus := %d
  preTable := [
    %s]
  envTable := [
    %s]
  hrefTable := [
    %s]
  urlTable := [
    %s]
  faultDocTable := [
    %s]

end SpyneModel.Generated
''' % (per_proto(f['parseChain'], _lean_chain), per_proto(f['decodeChain'], _lean_chain), single(f['genContexts']),
       single(f['getInObject']), single(f['processRequest']), single(f['wsgiOutString']),
       per_proto(f['raisable'], lambda l: _lean_list(_lean_exc(e) for e in l)),
       per_proto(f['raisableText'], lambda l: _lean_list(_lean_exc(e) for e in l)),
       _lean_list(_lean_exc(e) for e in f['raisableDecode']),
       per_proto(f['textInput'], lambda b: 'true' if b else 'false'), tab(f['statusPlain']), tab(f['statusSoap']), f['okStatus'], table, env_rows_lean(f['envTable']), env_rows_lean(f['hrefTable']),
       pre_rows_lean(f['urlTable']), pre_rows_lean(f['faultDocTable']))


# ====================================================================================== stage-level observations (T2)
def third_party(s, data, charset):
    """the bytes -> document step as the protocol performs it, outside every handler:
    {'first': 'doc' | ['decodeExc', cls] | ['parseExc', cls], 'second': the same for the retry}"""
    proto = s['proto']
    p = s['app'].in_protocol

    def attempt(f):
        try:
            f()
            return 'doc'
        except Exception as e:
            return type(e)
    res = {'first': 'doc', 'second': 'doc'}
    if proto in XML_PROTOS:
        from lxml import etree
        kw = dict(p.parser_kwargs)
        if proto == 'xml':
            r = attempt(lambda: etree.fromstring(data, parser=etree.XMLParser(**kw)))
            res['first'] = 'doc' if r == 'doc' else ['parseExc', r]
            return res
        text = data
        if charset:
            try:
                text = data.decode(charset)
            except Exception as e:
                res['first'] = ['decodeExc', type(e)]
                return res
        r = attempt(lambda: etree.XMLID(text, etree.XMLParser(**kw)))
        if r != 'doc':
            res['first'] = ['parseExc', r]
            if issubclass(r, ValueError) and not issubclass(r, etree.LxmlError) and charset:
                # the retry parses the bytes as they came in
                r2 = attempt(lambda: etree.XMLID(data, etree.XMLParser(**kw)))
                res['second'] = 'doc' if r2 == 'doc' else ['parseExc', r2]
        return res
    if proto == 'http':
        return res
    if proto in ('json', 'yaml'):
        enc = charset if charset is not None else ('UTF-8' if proto == 'yaml' else p.default_string_encoding)
        text = data
        if enc is not None:
            try:
                text = data.decode(enc)
            except Exception as e:
                res['first'] = ['decodeExc', type(e)]
                return res
        if proto == 'json':
            r = attempt(lambda: json.loads(text, **{k: v for k, v in p.kwargs.items() if k != 'cls'}))
        else:
            import yaml
            r = attempt(lambda: yaml.load(text, **p.in_kwargs))
        res['first'] = 'doc' if r == 'doc' else ['parseExc', r]
        return res
    import msgpack
    if proto == 'msgpack':
        r = attempt(lambda: msgpack.unpackb(data))
    else:
        r = attempt(lambda: msgpack.unpackb(data, **p.kwargs_unpacker))
    res['first'] = 'doc' if r == 'doc' else ['parseExc', r]
    return res


def stage_outcomes(W, s, data=None, env=None):
    """the stages after the parser, each driven directly on the input protocol (outside the server's handlers):
    (dispatch, deser) with values 'ok' | ['fault', code] | ['crash', class] | None (not reached)"""
    from spyne import MethodContext
    from spyne.model.fault import Fault
    app = s['app']
    p = app.in_protocol
    calls = list(W.calls)

    def out(e):
        if isinstance(e, Fault):
            return ['fault', str(e.faultcode)]
        return ['crash', type(e)]
    try:
        try:
            if env is not None:
                from spyne.server.wsgi import WsgiMethodContext
                w = s['wsgi']
                ctx = WsgiMethodContext(w, env, app.out_protocol.mime_type)
                ctx.in_string, charset = w._WsgiApplication__reconstruct_wsgi_request(env)
                p.create_in_document(ctx, charset)
            else:
                ctx = MethodContext(s['base'], MethodContext.SERVER)
                ctx.in_string = [data]
                p.create_in_document(ctx, None)
            p.decompose_incoming_envelope(ctx, p.REQUEST)
            ctx = p.generate_method_contexts(ctx)[0]
        except Exception as e:
            return out(e), None
        try:
            p.deserialize(ctx, message=p.REQUEST)
        except Exception as e:
            return 'ok', out(e)
        return 'ok', 'ok'
    finally:
        W.calls[:] = calls


def _exc_q(cls):
    return exc_json(cls)


def funnel_query(W, s, transport, data=None, env=None, key=None):
    """T2 query: the stage-level observations of one request"""
    proto = s['proto']
    charset = None
    body = data
    if transport == 'wsgi':
        import cgi
        ct = env.get('CONTENT_TYPE')
        if ct is not None:
            charset = cgi.parse_header(ct)[1].get('charset')
        body = env['c10.body']
    tp = third_party(s, body, charset)

    def pr(x):
        return 'doc' if x == 'doc' else {x[0]: _exc_q(x[1])}
    q = {'op': 'funnel', 'transport': transport, 'proto': LEAN_PROTO[proto], 'parse': pr(tp['first']), 'reparse': pr(tp['second'])}
    parsed = tp['first'] == 'doc' or (tp['first'][0] == 'parseExc' and tp['second'] == 'doc' and tp['first'][1] is ValueError
                                        and proto in ('soap11', 'soap12'))
    disp, deser = ('ok', 'ok')
    if parsed:
        if transport == 'wsgi':
            env2 = dict(env)
            env2['wsgi.input'] = Input(env['c10.raw'], env.get('c10.mode', 'file'))
            disp, deser = stage_outcomes(W, s, env=env2)
        else:
            disp, deser = stage_outcomes(W, s, data=data)

    def cq(x):
        if x in ('ok', None):
            return 'ok'
        return {'fault': x[1]} if x[0] == 'fault' else {'crash': _exc_q(x[1])}
    q['dispatch'], q['deser'] = cq(disp), cq(deser)
    if key is not None:
        q['key'] = list(key)
    return q


# ====================================================================================== part (a): leaves
def leaf_cases(ctx, W, N):
    """(kid, literal index, literal) for every kind: the valid literal first, then the dictionary of its family"""
    for kid, k in W.K.items():
        yield kid, 0, None
        lits = N[k['fam']] + GENERIC
        seen = set()
        i = 0
        for lit in lits:
            if lit in seen:
                continue
            seen.add(lit)
            i += 1
            yield kid, i, lit


def std_key(proto):
    fam = {'soap11': 'soap', 'soap12': 'soap', 'http': 'http'}.get(proto, 'plain')
    return (fam, 'get', 'absent', 'absent') if proto == 'http' else (fam, 'post', 'proper', 'exact')


def wsgi_env(proto, data, kid=None):
    if proto == 'http':
        env = base_environ(proto, b'', path='/f_' + kid if kid else '/echo', qs=data, method='GET')
        del env['CONTENT_LENGTH']
        env['c10.body'] = env['c10.raw'] = b''
    else:
        env = base_environ(proto, data)
        env['c10.body'] = env['c10.raw'] = data
    return env


class T2(object):
    """collects funnel queries with the outcome class observed end to end"""

    def __init__(self, ctx):
        self.ctx, self.q, self.impl, self.meta = ctx, [], [], []

    def add(self, q, r, meta):
        self.q.append(q)
        self.impl.append(r.cls())
        self.meta.append(meta)

    def run(self):
        ans = self.ctx.model(self.q, driver='C10')
        n = 0
        for q, impl, mod, meta in zip(self.q, self.impl, ans, self.meta):
            if 'driver_error' in mod:
                raise core.Infra('driver error: %r on %r' % (mod, q))
            if q['transport'] == 'base' and 'resp' in mod:
                mod = dict(mod, status=None)
            if mod != impl:
                n += 1
                self.ctx.disagree('funnel', dict(meta, query=q), impl, mod)
        self.ctx.cov['t2_funnel_cases'] = len(self.q)
        return n


def part_leaves(ctx, W, J, t2):
    """(a) every nasty literal of every leaf kind at the leaf positions of valid requests, every input protocol x
    validator, through ServerBase and WsgiApplication"""
    N = nasty_literals()
    native_cache = {}
    seed = ctx.seed
    stride = 2 if ctx.thorough else 4
    n_req = 0
    t_last = [__import__('time').time()]
    for ci, (proto, validator) in enumerate(all_configs()):
        s = W.server(proto, validator)
        fam = family(proto)
        if ctx.thorough and __import__('time').time() - t_last[0] > 60:
            t_last[0] = __import__('time').time()
            ctx.log('  leaves: %d requests so far, at %s / %s' % (n_req, proto, validator))
        for kid, i, lit in leaf_cases(ctx, W, N):
            k = W.K[kid]
            if (k['only'] is not None and proto not in k['only']) or validator in k['skip']:
                continue
            valid = lit is None
            if valid:
                lit = k['valid'] if (proto in XML_PROTOS or proto == 'http') else k['native']
            pool = XML_POSITIONS if proto in XML_PROTOS else POSITIONS
            positions = [pool[(i + ci + seed) % len(pool)]]
            if ctx.thorough:
                positions.append(pool[(i + ci + seed + 2) % len(pool)])
            if valid:
                positions = ['top']
            elif proto == 'yaml' and (i + ci + seed) % (2 if ctx.thorough else 3):
                continue        # PyYAML is slow: every third (thorough: second) literal, rotating with the seed
            for pos in positions:
                if proto in XML_PROTOS:
                    data = W.xml_request(proto, kid, pos, lit)
                elif proto == 'http':
                    data = W.http_query(kid, pos, lit)
                else:
                    data = W.dict_request(proto, kid, pos, lit)
                if data is None:
                    ctx.hit('leaf:uncarriable:' + fam)
                    continue
                rp = {'kind': 'leaf', 'kid': kid, 'pos': pos, 'lit': lit}
                do_wsgi = proto == 'http' or valid or ((i + ci + seed) % stride == 0)
                if proto != 'http':
                    r = run_base(W, s, data)
                    n_req += 1
                    ctx.case({'leaf': [proto, validator, kid, pos, 'base'], 'lit': hashlib.sha1(repr(lit).encode()).hexdigest()[:12]})
                    ctx.hit('leaf:%s:%s:%s' % (fam, k['fam'], r.kind if r.kind != 'fault' else ('client' if is_client(r.code) else 'server')))
                    ctx.hit('leaf-pos:' + pos)
                    if valid:
                        if validator not in k['nosanity']:
                            J.sanity(s, r, 'base', rp)
                    else:
                        J.check(s, r, 'base', rp, leaf=k['fam'], data=data)
                    if valid or do_wsgi or (r.kind != 'ok' and (i + ci + seed) % 2 == 0):
                        t2.add(funnel_query(W, s, 'base', data=data), r, dict(rp, proto=proto, validator=validator, transport='base'))
                if do_wsgi:
                    env = wsgi_env(proto, data, kid)
                    r = run_wsgi(W, s, env)
                    n_req += 1
                    ctx.case({'leaf': [proto, validator, kid, pos, 'wsgi'], 'lit': hashlib.sha1(repr(lit).encode()).hexdigest()[:12]})
                    ctx.hit('leaf-wsgi:%s:%s' % (fam, r.status))
                    env['wsgi.input'] = Input(env['c10.raw'])
                    if valid:
                        if validator not in k['nosanity']:
                            J.sanity(s, r, 'wsgi', rp)
                    else:
                        J.check(s, r, 'wsgi', rp, leaf=k['fam'], env=env)
                    t2.add(funnel_query(W, s, 'wsgi', env=env, key=std_key(proto)), r,
                           dict(rp, proto=proto, validator=validator, transport='wsgi'))
        if proto in XML_PROTOS:
            n_req += xml_decorations(ctx, W, J, t2, s, ci)
            if validator != 'lxml':
                # the same with a parser that keeps processing instructions (constructor option remove_pis=False; comments are always removed)
                n_req += xml_decorations(ctx, W, J, t2, W.server(proto, validator, remove_pis=False), ci, only_clutter=True)
        # values of the wrong kind where the transport can carry them
        if proto in DICT_PROTOS:
            pool = native_nasty(proto)
            for kid, k in W.K.items():
                if (k['only'] is not None and proto not in k['only']) or validator in k['skip']:
                    continue
                for j, v in enumerate(pool):
                    pos = POSITIONS[(j + ci + seed) % 4]
                    if not ctx.thorough and (j + ci + seed + len(kid)) % 2:
                        continue
                    data = W.dict_request(proto, kid, pos, v)
                    if data is None:
                        ctx.hit('leaf:uncarriable:' + fam)
                        continue
                    rp = {'kind': 'leaf-native', 'kid': kid, 'pos': pos, 'value': repr(v)[:80], 'request_hex': data.hex()[:4000]}
                    r = run_base(W, s, data)
                    n_req += 1
                    ctx.case({'leaf-native': [proto, validator, kid, pos], 'v': repr(v)[:40]})
                    ctx.hit('leaf-native:%s:%s:%s' % (fam, k['fam'], r.kind if r.kind != 'fault' else ('client' if is_client(r.code) else 'server')))
                    J.check(s, r, 'base', rp, leaf=k['fam'] + ':kind', data=data)
                    if r.kind != 'ok':
                        t2.add(funnel_query(W, s, 'base', data=data), r, dict(rp, proto=proto, validator=validator, transport='base'))
    ctx.cov['leaf_requests'] = n_req
    return n_req


# ====================================================================================== part (b): transport
CHARSETS = ['utf-8', 'bogus', 'ascii', 'utf-16', '', '"utf-8', 'utf-8; charset=x', 'latin-1', 'idna', 'unicode_escape', 'hex', 'undefined',
            'utf-8\x00', 'UTF-8 ', 'utf_8_sig', 'cp65001']
QUERY_STRINGS = ['s=%zz&n=5', 's=%', 's=%e9&n=5', 's=%ff%fe', 'n=%35', 's=a&s=b', 'n=5&n=6', '&&&', '=', '=x', 's', 's=&n=', 'n=abc', 'n=1e3',
                 's=%00', 'n=%00', 's=hi&n=5&zz=1', 's.x=1', 's[0]=a', 's[=a', 's]=a', 'n[0]=5', 'n.0=5', ';', 's=hi;n=5', 's=' + 'a' * 70000,
                 'n=' + '9' * 5000, 's=%u1234', 's=+&n=+5', 'n= 5', 's=\udcff', 'wsdl', 'WSDL', 'wsdl=1', 'xsd', 's=hi&n=5&' * 300]
PATHS = ['/echo', '/', '', '/nosuch', '/echo/', '//echo', '/echo/echo', '/ECHO', '/echo%00', '/\x00', '/../echo', '/' + 'a' * 5000, '/é',
         '/echo.wsdl', '/{urn:c10}echo', '/echo?x', '/f_int_i8']


def werkzeug_available():
    import importlib.util
    return importlib.util.find_spec('werkzeug') is not None


def part_transport(ctx, W, J, t2, facts):
    """(b) transport-level hostility through WsgiApplication: the whole decision table for every protocol and several
    bodies, charsets, query strings, paths, misbehaving wsgi.input"""
    n = 0
    have_wz = werkzeug_available()
    table = dict(zip(pre_keys(), facts['preTable']))
    fam_of = lambda proto: {'soap11': 'soap', 'soap12': 'soap', 'http': 'http'}.get(proto, 'plain')
    protos = ['xml', 'soap11', 'soap12', 'json', 'yaml', 'msgpack', 'msgpackrpc', 'http']
    for proto in protos:
        fam = fam_of(proto)
        for validator in ((None, 'soft') if ctx.thorough else (None,)):
            s = W.server(proto, validator)
            valid = W.echo_request(proto) if proto != 'http' else b''
            bodies = [('valid', valid)]
            if proto != 'http':
                bodies += [('cut', valid[:len(valid) // 2]), ('junk', b'\x00\xff<{[garbage')]
            for key in pre_keys():
                if key[0] != fam:
                    continue
                if fam == 'http' and key[1] != 'get' and not have_wz:
                    ctx.hit('transport:skipped:no-werkzeug')
                    continue
                for bname, body in bodies:
                    if bname != 'valid' and not ctx.thorough and (key[2] not in ('proper', 'absent') or key[1] != 'post'):
                        continue
                    env, _ = key_environ(W, (key[0], key[1], key[2], key[3]), data=body if proto != 'http' else None)
                    if proto != FAM_PROTO[fam]:
                        # same transport class, this protocol's own content type and document
                        if key[2] == 'proper':
                            env['CONTENT_TYPE'] = CONTENT_TYPES[proto]
                    env['c10.raw'] = body
                    env['c10.body'] = effective_body(key, body)
                    r = run_wsgi(W, s, env)
                    n += 1
                    ctx.case({'transport': [proto, validator, list(key), bname]})
                    ctx.hit('transport:%s:%s' % (fam, r.kind if r.kind != 'fault' else r.status))
                    rp = {'kind': 'transport', 'key': list(key), 'body': bname, 'body_hex': body.hex()}
                    env['wsgi.input'] = Input(body)
                    J.check(s, r, 'wsgi', rp, leaf='transport', env=env)
                    t2.add(funnel_query(W, s, 'wsgi', env=env, key=key), r, dict(rp, proto=proto, validator=validator, transport='wsgi'))
            # charsets
            if proto != 'http':
                for cs in CHARSETS:
                    for bname, body in (('valid', valid), ('non-ascii', W.echo_request(proto, s='h\xe9\u20ac')), ('bytes', b'\xff\xfe\x00<')):
                        env = base_environ(proto, body)
                        env['CONTENT_TYPE'] = (CONTENT_TYPES[proto] or 'text/plain').split(';')[0] + '; charset=' + cs
                        env['c10.raw'] = env['c10.body'] = body
                        r = run_wsgi(W, s, env)
                        n += 1
                        ctx.case({'charset': [proto, validator, cs, bname]})
                        ctx.hit('charset:%s:%s' % (fam, r.kind if r.kind != 'fault' else r.status))
                        rp = {'kind': 'charset', 'charset': cs, 'body': bname, 'body_hex': body.hex()}
                        env['wsgi.input'] = Input(body)
                        J.check(s, r, 'wsgi', rp, leaf='charset', env=env)
                        t2.add(funnel_query(W, s, 'wsgi', env=env, key=std_key(proto)), r,
                               dict(rp, proto=proto, validator=validator, transport='wsgi'))
            # misbehaving input streams
            if proto != 'http':
                for mode in ('short', 'raise', 'raise-late', 'none'):
                    for bname, body in (('valid', valid), ('long', W.echo_request(proto, s='x' * 20000))):
                        env = base_environ(proto, body)
                        env['wsgi.input'] = Input(body, mode)
                        env['c10.raw'], env['c10.mode'] = body, mode
                        r = run_wsgi(W, s, env)
                        n += 1
                        ctx.case({'input': [proto, validator, mode, bname]})
                        ctx.hit('input:%s:%s:%s' % (mode, fam, r.kind if r.kind != 'fault' else r.status))
                        rp = {'kind': 'input', 'mode': mode, 'body': bname, 'body_hex': body.hex()[:2000], 'body_len': len(body)}
                        env['wsgi.input'] = Input(body, mode)
                        J.check(s, r, 'wsgi', rp, leaf='input-' + mode, env=env, io_error=mode.startswith('raise'))
            # query strings and paths (HttpRpc reads them; the others must not care)
            for qs in QUERY_STRINGS:
                if proto == 'http':
                    env = base_environ(proto, b'', path='/echo', qs=qs, method='GET')
                    del env['CONTENT_LENGTH']
                else:
                    env = base_environ(proto, valid, qs=qs)
                try:
                    qs.encode('latin-1')
                except UnicodeEncodeError:
                    env['QUERY_STRING'] = qs.encode('utf-8', 'surrogateescape').decode('latin-1')
                if env['QUERY_STRING'].split('=')[0].lower() == 'wsdl' and env['REQUEST_METHOD'] == 'GET':
                    continue        # the interface document, not an rpc request
                r = run_wsgi(W, s, env)
                n += 1
                ctx.case({'qs': [proto, validator, qs[:40], len(qs)]})
                ctx.hit('qs:%s:%s' % (fam, r.kind if r.kind != 'fault' else r.status))
                rp = {'kind': 'qs', 'qs': qs[:300], 'qs_len': len(qs)}
                env['wsgi.input'] = Input(valid)
                J.check(s, r, 'wsgi', rp, leaf='query-string', env=env)
            for path in PATHS:
                if proto == 'http':
                    env = base_environ(proto, b'', path=path, qs='s=hi&n=5', method='GET')
                    del env['CONTENT_LENGTH']
                else:
                    env = base_environ(proto, valid, path=path)
                try:
                    path.encode('latin-1')
                except UnicodeEncodeError:
                    env['PATH_INFO'] = path.encode('utf-8').decode('latin-1')
                if env['PATH_INFO'].endswith('.wsdl') and env['REQUEST_METHOD'] == 'GET':
                    continue
                r = run_wsgi(W, s, env)
                n += 1
                ctx.case({'path': [proto, validator, path[:40], len(path)]})
                ctx.hit('path:%s:%s' % (fam, r.kind if r.kind != 'fault' else r.status))
                rp = {'kind': 'path', 'path': path[:300], 'path_len': len(path)}
                env['wsgi.input'] = Input(valid)
                J.check(s, r, 'wsgi', rp, leaf='path-info', env=env)
    ctx.cov['transport_requests'] = n
    return n


# ====================================================================================== part (c): bytes
def deep_docs(proto):
    n = 3000
    if proto in XML_PROTOS:
        return [b'<a>' * n, b'<a>' * n + b'</a>' * n, b'<a ' + b'x="1" ' * 3 + b'>' + b'<b/>' * 10, b'<?xml version="1.0"?>' + b'<!--' * 50,
                b'<a xmlns:p="u"><p:b/></q:a>', b'<a>&#0;</a>', b'<a>&#xFFFE;</a>', b'<a>\x00</a>', b'<a b="1" b="2"/>', b'<a>' + b'&amp;' * 10000 + b'</a>',
                b'\xff\xfe<\x00a\x00/\x00>\x00', b'<?xml version="1.0" encoding="bogus"?><a/>', b'<?xml version="1.0" encoding="utf-16"?><a/>',
                b'<?xml version="9.9"?><a/>', b'<a xmlns="">' + b'x' * 100000 + b'</a>']
    if proto == 'json':
        return [b'[' * n, b'{"a":' * n, b'[' * n + b']' * n, b'"' + b'\\u0000' * 10 + b'"', b'1' * 5000, b'-' * 5000, b'1e' + b'9' * 5000,
                b'{"echo": {"s": "hi", "n": ' + b'9' * 5000 + b'}}', b'\xef\xbb\xbf{"echo": {}}', b'{"echo": {"s": "\\ud800"}}', b'[]', b'""', b'0', b'null',
                b'true', b'{"echo": null}', b'{"echo": []}', b'{"echo": 5}', b'{"echo": "x"}', b'{"": {}}', b'{"echo": {}, "f": {}}']
    if proto == 'yaml':
        return [b'[' * n, b'{a: ' * n, b'- ' * n + b'x', b'a:\n' + b''.join(b' ' * i + b'a:\n' for i in range(1, 400)), b'&a [*a, *a]', b'a: &x [*x]',
                b'!!python/object/apply:os.system ["true"]', b'!!python/name:os.system', b'? ' * 200, b'%TAG ! tag:x,2000:\n--- !foo x',
                b'echo: {s: !!binary "###", n: 5}', b'echo: {s: hi, n: !!float .inf}', b'echo: {s: hi, n: .nan}', b'echo: {s: hi, n: 0o17}',
                b'echo: {s: hi, n: 1_000}', b'echo: {s: hi, n: 0x1F}', b'echo: {s: hi, n: 190:20:30}', b'echo: {s: 2001-12-14t21:59:43.10-05:00, n: 5}',
                b'echo: {s: !!timestamp "2001-99-99", n: 5}', b'echo: {s: !!set {a, b}, n: 5}', b'echo: {? [a, b] : c}', b'echo: {s: hi, n: !!int "0b1_0"}',
                b'--- a\n--- b', b'...', b'---', b'\xef\xbb\xbfecho: {}', b'echo:\n\ts: hi', b'echo: {s: "\\ud800", n: 5}', b'echo: ' + b'9' * 5000,
                b'echo: {s: hi, n: ' + b'9' * 5000 + b'}', b'echo: {<<: {s: hi}, n: 5}', b'echo: {<<: 5}', b'echo: {<<: [1, 2]}']
    return [b'\x91' * n, b'\x81\xa1a' * n, b'\xdd\xff\xff\xff\xff', b'\xdb\xff\xff\xff\xff', b'\xc6\xff\xff\xff\xff', b'\xdf\xff\xff\xff\xff',
            b'\xc9\xff\xff\xff\xff\x01', b'\xd4\x00\x00', b'\xd5\x01\x00\x00', b'\xc7\x00\x01', b'\xd7\xff' + b'\xff' * 8, b'\xc7\x0c\xff' + b'\xff' * 12,
            b'\x81\xa4echo\x82\xa1s\xd9\x02\xff\xfe\xa1n\x05', b'\x81\xc4\x04echo\x82\xc4\x01s\xc4\x02\xff\xfe\xc4\x01n\x05', b'\x81\xa4echo\xc0', b'\x81\xa4echo\x90',
            b'\x81\xa4echo\x05', b'\x81\xa4echo\xa1x', b'\x82\xa4echo\x80\xa1f\x80', b'\x80', b'\x90', b'\xc0', b'\xc2', b'\xcb' + b'\x7f\xf8' + b'\x00' * 6,
            b'\x94\x00\x01\xa4echo\x92\xa2hi\x05', b'\x94\x00\x01\xa4echo\x82\xa1s\xa2hi\xa1n\x05\x00', b'\x94\x00\x01\xa4echo\xc0', b'\x94\x00\x01\xa4echo\x05',
            b'\x94\x00\x01\x05\x80', b'\x94\x00\x01\xc0\x80', b'\x94\x00\x01\x90\x80', b'\x94\xc0\x01\xa4echo\x80', b'\x94\xa1x\x01\xa4echo\x80',
            b'\x94\xcb\x00\x00\x00\x00\x00\x00\x00\x00\x01\xa4echo\x80', b'\x94\x01\x01\xc0\x05', b'\x94\x03\x01\x81\xa1a\x01\xc0', b'\x93\x00\x01\x81\xa1a\x01',
            b'\x81\x94\x00\x01\xa4echo\x80\x05', b'\x94\x00\x01\x81\xa1a\x01\x80']


def part_bytes(ctx, W, J, t2, facts):
    """(c) every prefix truncation of valid requests, random bytes, byte flips, parser-level garbage (incl. the
    codec blocks' corpora) for every input protocol x validator through ServerBase and WsgiApplication"""
    from . import hierblock
    rng = ctx.rng
    raisable = {p: {e['name'] for e in facts['raisable'][p] + facts['raisableText'][p] + facts['raisableDecode']} for p in facts['raisable']}
    n = 0
    observed = {}
    for proto, validator in all_configs():
        if proto == 'http':
            continue
        s = W.server(proto, validator)
        fam = family(proto)
        kid = rng.choice([k_ for k_, v_ in W.K.items() if v_['only'] is None and not v_['skip']])
        valid_docs = [W.echo_request(proto), W.echo_request(proto, s='h\xe9 <&> \u20ac "q"', n=-12)]
        lit = W.K[kid]['valid'] if proto in XML_PROTOS else W.K[kid]['native']
        valid_docs.append(W.xml_request(proto, kid, 'top', lit) if proto in XML_PROTOS else W.dict_request(proto, kid, 'top', lit))
        cases = []
        for vd in valid_docs:
            cuts = range(len(vd)) if (len(vd) <= (400 if ctx.thorough else 90)) else sorted(set(rng.randrange(len(vd)) for _ in range(60)) | {0, 1, len(vd) - 1})
            cases += [('truncate', vd[:c]) for c in cuts]
            for _ in range(40 if ctx.thorough else 10):
                b = bytearray(vd)
                for _ in range(rng.choice([1, 1, 2, 4])):
                    b[rng.randrange(len(b))] = rng.randrange(256)
                cases.append(('flip', bytes(b)))
                i = rng.randrange(len(vd))
                cases.append(('insert', vd[:i] + bytes(rng.randrange(256) for _ in range(rng.choice([1, 2, 8]))) + vd[i:]))
        for _ in range(60 if ctx.thorough else 20):
            cases.append(('random', bytes(rng.randrange(256) for _ in range(rng.choice([0, 1, 2, 3, 5, 17, 64, 200])))))
        cases += [('garbage', g) for g in deep_docs(proto)]
        cases += [('garbage', g) for g in {'json': hierblock.JSON_BAD, 'yaml': hierblock.YAML_BAD, 'msgpack': hierblock.MSGPACK_BAD,
                                           'msgpackrpc': hierblock.MSGPACK_BAD}.get(proto, [b'', b' ', b'<', b'<a', b'<a/>', b'<a></b>', b'\xef\xbb\xbf<a/>',
                                                                                   b'<!DOCTYPE a [<!ENTITY e "x">]><a>&e;</a>'])]
        for j, (tag, data) in enumerate(cases):
            rp = {'kind': 'bytes', 'mutation': tag, 'request_hex': data[:6000].hex(), 'request_len': len(data)}
            r = run_base(W, s, data)
            n += 1
            ctx.case({'bytes': [proto, validator, tag], 'd': hashlib.sha1(data).hexdigest()[:12]}, nontrivial=tag != 'random' or len(data) > 2)
            ctx.hit('bytes:%s:%s:%s' % (tag, fam, r.kind if r.kind != 'fault' else ('client' if is_client(r.code) else 'server')))
            J.check(s, r, 'base', rp, leaf=tag, data=data)
            q = funnel_query(W, s, 'base', data=data)
            t2.add(q, r, dict(rp, proto=proto, validator=validator, transport='base'))
            for part in ('parse', 'reparse'):
                pr = q[part]
                if isinstance(pr, dict):
                    e = list(pr.values())[0]
                    observed.setdefault(proto, set()).add(e['name'])
                    if e['name'] not in raisable[proto]:
                        ctx.hit('parser-class-not-declared:%s:%s' % (proto, e['name']))
                        # not by itself a failure of the property: the oracle above has judged the answer
                        ctx.cov.setdefault('parser_classes_outside_raisable', {})['%s:%s' % (proto, e['name'])] = rp['request_hex'][:200]
            if tag == 'garbage' or j % (1 if ctx.thorough else 3) == 0:
                env = wsgi_env(proto, data)
                r = run_wsgi(W, s, env)
                n += 1
                ctx.case({'bytes-wsgi': [proto, validator, tag], 'd': hashlib.sha1(data).hexdigest()[:12]})
                ctx.hit('bytes-wsgi:%s:%s' % (fam, r.kind if r.kind != 'fault' else r.status))
                env['wsgi.input'] = Input(data)
                J.check(s, r, 'wsgi', rp, leaf=tag, env=env)
                t2.add(funnel_query(W, s, 'wsgi', env=env, key=std_key(proto)), r, dict(rp, proto=proto, validator=validator, transport='wsgi'))
    ctx.cov['parser_exception_classes_observed'] = {k: sorted(v) for k, v in observed.items()}
    ctx.cov['bytes_requests'] = n
    return n


# ====================================================================================== sandboxed probes
DEEP_PROBES = [('yaml', 'flow-sequence', "b'[' * n"), ('yaml', 'block-sequence', "b'- ' * n + b'x'"), ('json', 'array', "b'[' * n"),
               ('xml', 'elements', "b'<a>' * n + b'</a>' * n"), ('soap11', 'elements', "b'<a>' * n + b'</a>' * n"),
               ('msgpack', 'array', "b'\\x91' * n"), ('msgpackrpc', 'array', "b'\\x91' * n")]


def deep_nesting_probe(ctx, n=200000):
    """documents nested `n` deep (a few hundred kB, inside max_content_length) are sent from a child process, because a
    parser that recurses on the C stack takes the interpreter down with it"""
    import subprocess
    src = ('import sys, logging\nlogging.disable(logging.CRITICAL)\nsys.path.insert(0, %r)\nfrom harness import c10\n'
           'W = c10.World(c10.leaf_universe())\nn = %d\nfor proto, shape, expr in %r:\n'
           '    if proto != sys.argv[1]: continue\n    data = eval(expr)\n    s = W.server(proto, None)\n'
           '    r = c10.run_wsgi(W, s, c10.base_environ(proto, data))\n'
           '    print("RESULT", proto, shape, r.kind, r.code or r.exc, r.status, flush=True)\n') % (core.VERIF, n, DEEP_PROBES)
    env = dict(os.environ)
    env['PYTHONPATH'] = core.REPO + os.pathsep + env.get('PYTHONPATH', '')
    res = {}
    protos = sorted({p for p, _, _ in DEEP_PROBES})
    procs = [(p, subprocess.Popen([sys.executable, '-W', 'ignore', '-c', src, p], stdout=subprocess.PIPE, stderr=subprocess.DEVNULL,
                                  text=True, env=env, cwd=core.VERIF)) for p in protos]
    for proto, pr in procs:
        try:
            out, _ = pr.communicate(timeout=300)
        except subprocess.TimeoutExpired:
            pr.kill()
            out = ''
        done = {l.split()[2]: l.split()[3:] for l in out.split('\n') if l.startswith('RESULT')}
        for p, shape, expr in DEEP_PROBES:
            if p != proto:
                continue
            ctx.case({'deep': [proto, shape, n]})
            if shape in done:
                kind, code, status = done[shape]
                res['%s:%s' % (proto, shape)] = '%s %s %s' % (kind, code, status)
                ctx.hit('deep:%s:%s' % (proto, kind))
                if kind != 'fault' or not is_client(code):
                    ctx.finding('c10:deep-nesting:%s:%s' % (family(proto), kind), 'a %s request nested %d deep is answered with %s %s'
                                % (proto, n, kind, code), {'kind': 'deep', 'proto': proto, 'shape': shape, 'expr': expr, 'n': n})
            else:
                res['%s:%s' % (proto, shape)] = 'process died (exit status %s)' % pr.returncode
                ctx.hit('deep:%s:process-died' % proto)
                ctx.finding('c10:process-crash:%s:deep-nesting' % family(proto),
                            'a %s request of %d nested %s (%d kB, inside max_content_length) kills the server process (exit status %s): '
                            'the parser recurses on the C stack' % (proto, n, shape, len(eval(expr)) // 1024, pr.returncode),
                            {'kind': 'deep', 'proto': proto, 'shape': shape, 'expr': expr, 'n': n})
                break
    ctx.cov['deep_nesting'] = res


# ====================================================================================== run
def load_known(ctx):
    """known findings proposed by this check (fixes/C10-known.json) count until they are merged centrally"""
    p = os.path.join(core.VERIF, 'fixes', 'C10-known.json')
    if os.path.exists(p):
        have = {k.get('id') for k in ctx.known_findings}
        for k in json.load(open(p)):
            if k.get('property') == ctx.prop and k.get('id') not in have:
                ctx.known_findings.append(k)


def report_fact_findings(ctx, W, f):
    """T1 facts with a bad value, each with the witness that measured it (replayed on the real code)"""
    for key, d in zip(pre_keys(), f['preTable']):
        env, body = key_environ(W, key)
        rp = {'kind': 'transport', 'key': list(key), 'body': 'valid', 'body_hex': body.hex(), 'proto': FAM_PROTO[key[0]], 'validator': None,
              'environ': {k: v for k, v in env.items() if isinstance(v, str)}}
        if d[0] == 'escape':
            det = f['preDetail'].get(key, {})
            ctx.hit('fact-bad:pre-escape')
            ctx.finding('c10:escape:wsgi:%s:%s:%s' % ({'soap': 'soap', 'plain': 'json', 'http': 'http'}[key[0]], d[1], det.get('frame')),
                        'transport class %s: %s escapes the WSGI callable (innermost spyne frame %s) before generate_contexts is reached'
                        % ('/'.join(key), d[1], det.get('frame')), rp)
        elif d[0] == 'reject' and (not is_client(d[1]) or (key[0] != 'soap' and not 400 <= d[2] < 500)):
            ctx.hit('fact-bad:pre-reject')
            ctx.finding('c10:transport-answer:%s:%s:%s' % (key[0], d[1], d[2]),
                        'transport class %s is answered with fault %s / HTTP %s' % ('/'.join(key), d[1], d[2]), rp)
    for name in STAGE_SITES:
        hs = f[name][0]
        if not any('Exception' in c and a[0] in ('keep', 'wrap') for c, a in hs):
            ctx.hit('fact-bad:' + name)     # a concrete failing input, if there is one, comes from the parts below
    for name, cc in f['astCrossCheck'].items():
        if not cc.get('agree', True):
            ctx.hit('ast-cross-check-differs:' + name)


def run(ctx):
    from . import c08
    c08.refresh_facts(ctx)      # leaf switches -> Generated/Facts08.lean (Props import Facts08Good)
    try:
        from . import c08x
        protos, kinds, P = c08.impl_env()
        c08x.write_facts(ctx, protos, P)            # Facts08x.lean (Decimal.max_str_len, as_timezone overflow)
    except ImportError:
        pass
    mods = _blocks()
    for m in mods:
        if hasattr(m, 't1'):
            m.t1(ctx)
    load_known(ctx)
    W = World(leaf_universe())
    f = measure_facts(W)
    ctx.facts10 = f
    ctx.write_generated('Facts10.lean', facts_lean(f))
    ctx.cov['facts10'] = {k: f[k] for k in ('genContexts', 'getInObject', 'processRequest', 'wsgiOutString', 'parseChain', 'decodeChain',
                                            'statusPlain', 'statusSoap', 'okStatus', 'stageDetail', 'astCrossCheck')}
    ctx.cov['facts10']['raisable'] = {p: [e['name'] for e in l] for p, l in f['raisable'].items()}
    ctx.cov['facts10']['preTable'] = {'/'.join(k): list(d) for k, d in zip(pre_keys(), f['preTable']) if d[0] != 'proceed'}
    report_fact_findings(ctx, W, f)
    report_env_findings(ctx, W, f)
    report_table_findings(ctx, W, f)
    ctx.cov['facts10']['envTable'] = {'/'.join(k): list(d) for k, d in zip(env_keys(), f['envTable']) if d[0] != 'clientFault'}
    ctx.prove()
    # ---- T3 (+ the cases of T2)
    J = Judge(ctx, W)
    t2 = T2(ctx)
    t = ctx.t0
    import time
    n1 = part_leaves(ctx, W, J, t2)
    ctx.log('part (a) leaves: %d requests (%.1fs)' % (n1, time.time() - t))
    n2 = part_transport(ctx, W, J, t2, f)
    n3 = part_bytes(ctx, W, J, t2, f)
    n4 = part_envelope(ctx, W, J, t2)
    n5 = part_multiref(ctx, W, J, t2) + part_http_flat(ctx, W, J, t2) + part_environ(ctx, W, J, t2, f) + part_configs(ctx, W, J, t2) + \
        part_cross_out(ctx, W, J, t2)
    ctx.log('parts (b) transport, (c) bytes, (d) envelopes, (e) multiref / flat / environ / configs: %d + %d + %d + %d requests' % (n2, n3, n4, n5))
    deep_nesting_probe(ctx)
    nd = t2.run()
    ctx.log('T2 funnel: %d cases, %d disagreements' % (len(t2.q), nd))
    ctx.cov['traces_validated_against_impl'] += len(t2.q)
    ctx.cov['c10_finding_sites'] = dict(J.sites)
    # ---- the codec blocks.  Their generators scale with ctx.thorough by factors that were chosen for their own properties (the
    # thorough dict-document part alone runs for more than an hour here); inside C10 they always run at their quick scale, which is
    # what the quick tier of C10 does, and the thorough budget of C10 goes to the parts above.
    was_thorough = ctx.thorough
    for m in mods:
        g = getattr(m, 'part_c10', None)
        if g is not None:
            t_block = time.time()
            ctx.thorough = False
            try:
                g(ctx)
            finally:
                ctx.thorough = was_thorough
            ctx.log('%s.part_c10: %.1fs' % (m.__name__.split('.')[-1], time.time() - t_block))
    ctx.cov['rule'] = (
        '(a) leaves: for each of %d leaf kinds (9 integer kinds + customised, Boolean, Unicode + max_len / pattern, Enum, Date, Time, DateTime '
        '+ as_timezone fixed / utc, timezone=False, ge; Duration, hex / base64 / urlsafe ByteArray, Decimal + gt / digits, Double + ge, Uuid) the '
        'dictionary of nasty literals of its family (c08 / c08x lists extended: offsets 00:00..99:99 both signs, 24:00:00, month 13, odd / '
        'non-alphabet hex and base64, digit strings around max_str_len and the int digit limit, exponent forms, NaN / INF, empty, blanks, non-ASCII '
        'digits, NUL, lone surrogates) at a rotating leaf position (top-level argument, member of a nested object, Array item, repeated member; '
        'thorough: two of them) of a valid request, for xml / soap11 / soap12 x {None, soft, lxml}, json / yaml / msgpack / msgpackrpc x {None, '
        'soft}, HttpRpc GET x {None, soft}; through ServerBase and (every 4th literal, thorough: every 2nd, rotating with the seed) WsgiApplication; dict '
        'documents also carry values of the wrong kind (null, bool, numbers, lists, maps, bytes, dates). (b) transport: the complete table '
        'request method x CONTENT_TYPE class x CONTENT_LENGTH class for every protocol and valid / cut / junk bodies, 16 charsets x 3 bodies, '
        'short-reading / raising wsgi.input, %d query strings, %d PATH_INFO values. (c) prefix truncations, byte flips, insertions, random bytes, '
        'garbage corpora per parser (incl. the codec blocks\'), 200 000-deep documents in child processes. (d) SOAP envelopes: Header {absent, empty, '
        '1 entry, 2 entries, unknown entry, text} x Body {absent, empty, text, comment, two children, wrong-namespace child, Fault element, valid} x '
        'envelope namespace {own, the other SOAP version, wrong} x {soap11, soap12} x 3 validators x both transports (each row also a measured fact). Oracle per case: no escaping '
        'exception; fault code in the Client family; well-formed fault document of the output protocol; 4xx for non-SOAP; user function '
        'not run on a fault; valid requests answered normally. distinct = distinct canonical case; then the XML and dict-document blocks\' own '
        'part_c10 (generated universes: truncations, random bytes, structural mutations).' % (len(W.K), len(QUERY_STRINGS), len(PATHS)))


# ====================================================================================== replay
def replay(ctx, obj):
    kind = obj.get('kind', '')
    if kind == 'faultdoc':
        W = World(leaf_universe())
        key = tuple(obj['key'])
        o = _fault_doc_row(W, key)
        print('fault text %r, output protocol %s, %s: %s' % (FAULT_TEXTS[key[2]], key[0], 'WsgiApplication' if key[1] else 'ServerBase', o))
        return 1 if o[0][0] != 'proceed' else 0
    if kind in ('leaf', 'leaf-native', 'transport', 'charset', 'input', 'qs', 'path', 'bytes', 'deep', 'envelope', 'flat', 'url', 'headers', 'mime', 'user'):
        return replay_own(ctx, obj)
    for m in _blocks():
        if hasattr(m, 'replay'):
            try:
                return m.replay(ctx, obj)
            except core.Infra:
                raise
            except KeyError:
                continue
    raise core.Infra('no block can replay %r' % obj.get('kind'))


def replay_own(ctx, obj):
    """re-execute one recorded case of this check on the implementation (both transports where they apply)"""
    print('replay of', obj.get('finding_id'), '-', obj.get('what'))
    kind = obj['kind']
    if kind == 'deep':
        class C(object):
            cov = {}
            def case(self, *a, **k): pass
            def hit(self, *a, **k): pass
            def finding(self, fid, what, rp): print('T3   : FAIL', fid, '-', what)
        deep_nesting_probe(C(), obj.get('n', 200000))
        print(C.cov.get('deep_nesting'))
        return 1
    W = World(leaf_universe())
    proto, validator = obj['proto'], obj.get('validator')
    opts = dict(obj.get('opts') or {})
    if kind == 'flat':
        opts['strict_arrays'] = bool(obj.get('strict'))
    if kind == 'headers' and proto == 'http':
        opts['parse_cookie'] = True
    s = W.server(proto, validator, **opts)
    runs = []
    if kind == 'user':
        from spyne.model.fault import Fault
        W.boom = Fault(PROBE_FAULT, 'probe') if obj.get('want') == 'client' else ProbeError('probe')
        env = base_environ(proto, b'', path='/echo', qs='s=hi&n=5', method='GET') if proto == 'http' else base_environ(proto, W.echo_request(proto))
        r = run_wsgi(W, s, env)
        W.boom = None
        print('wsgi : %s code=%s status=%s exception=%s calls=%d' % (r.kind, r.code, r.status, r.exc, r.calls))
        return 1
    if kind in ('leaf', 'leaf-native'):
        lit = obj.get('lit')
        if kind == 'leaf-native':
            data = bytes.fromhex(obj['request_hex'])
        elif proto in XML_PROTOS:
            data = W.xml_request(proto, obj['kid'], obj['pos'], lit)
        elif proto == 'http':
            data = W.http_query(obj['kid'], obj['pos'], lit)
        else:
            data = W.dict_request(proto, obj['kid'], obj['pos'], lit)
        print('request :', data[:400])
        if proto != 'http':
            runs.append(('base', run_base(W, s, data), dict(data=data)))
        env = wsgi_env(proto, data, obj['kid'])
        runs.append(('wsgi', run_wsgi(W, s, env), dict(env=env)))
    elif kind == 'envelope':
        data = envelope_request(tuple(obj['key']))
        print('request :', data.decode('utf-8'))
        runs.append(('base', run_base(W, s, data), dict(data=data)))
        env = wsgi_env(proto, data)
        runs.append(('wsgi', run_wsgi(W, s, env), dict(env=env)))
    elif kind == 'bytes':
        data = bytes.fromhex(obj['request_hex'])
        print('request :', data[:400])
        runs.append(('base', run_base(W, s, data), dict(data=data)))
        env = wsgi_env(proto, data)
        runs.append(('wsgi', run_wsgi(W, s, env), dict(env=env)))
    else:
        body = bytes.fromhex(obj.get('body_hex', ''))
        if kind == 'flat':
            qs = flat_queries()[obj['qs_index']]
            env = base_environ('http', b'', path='/hq', qs=qs, method='GET')
            try:
                qs.encode('latin-1')
            except UnicodeEncodeError:
                env['QUERY_STRING'] = quote(qs, safe='=&[].')
        elif kind == 'url':
            env, body = url_environ(W, tuple(obj['key']))
            if proto != FAM_PROTO[obj['key'][0]]:
                body = W.echo_request(proto)
                env2 = base_environ(proto, body, path=env['PATH_INFO'])
                for k_ in ('SCRIPT_NAME', 'HTTP_HOST', 'wsgi.url_scheme', 'SERVER_PORT'):
                    if k_ in env:
                        env2[k_] = env[k_]
                env = env2
        elif kind == 'headers':
            if proto == 'http':
                env = base_environ(proto, b'', path='/echo', qs='s=hi&n=5', method='GET')
            else:
                env = base_environ(proto, W.echo_request(proto))
            env.update(HEADER_SETS[obj['index']])
        elif kind == 'mime':
            env = base_environ(proto, body)
            env['CONTENT_TYPE'] = obj['content_type']
        elif kind == 'transport':
            env, _ = key_environ(W, tuple(obj['key']), data=body if proto != 'http' else None)
            if proto != FAM_PROTO[obj['key'][0]] and obj['key'][2] == 'proper':
                env['CONTENT_TYPE'] = CONTENT_TYPES[proto]
        elif kind == 'charset':
            env = base_environ(proto, body)
            env['CONTENT_TYPE'] = (CONTENT_TYPES[proto] or 'text/plain').split(';')[0] + '; charset=' + obj['charset']
        elif kind == 'input':
            body = W.echo_request(proto, s='x' * 20000) if obj.get('body') == 'long' else W.echo_request(proto)
            env = base_environ(proto, body)
            env['wsgi.input'] = Input(body, obj['mode'])
        elif kind == 'qs':
            qs = next((q for q in QUERY_STRINGS if q[:300] == obj['qs'] and len(q) == obj['qs_len']), obj['qs'])
            env = base_environ(proto, b'', path='/echo', qs=qs, method='GET') if proto == 'http' else base_environ(proto, W.echo_request(proto), qs=qs)
        else:
            path = next((q for q in PATHS if q[:300] == obj['path'] and len(q) == obj['path_len']), obj['path'])
            env = base_environ(proto, b'', path=path, qs='s=hi&n=5', method='GET') if proto == 'http' else base_environ(proto, W.echo_request(proto), path=path)
        print('environ :', {k: v for k, v in env.items() if isinstance(v, str) and not k.startswith('wsgi.')})
        runs.append(('wsgi', run_wsgi(W, s, env), dict(env=env)))
    bad = 0

    class C(object):
        def hit(self, *a, **k): pass
        def finding(self, fid, what, rp):
            print('T3   : FAIL', fid, '-', what)
    for transport, r, kw in runs:
        print('%-5s: %s code=%s status=%s exception=%s frame=%s calls=%d' % (transport, r.kind, r.code, r.status, r.exc, r.frame, r.calls))
        if 'env' in kw and 'wsgi.input' in kw['env'] and isinstance(kw['env']['wsgi.input'], Input):
            inp = kw['env']['wsgi.input']
            kw['env']['wsgi.input'] = Input(inp.b.getvalue(), inp.mode)
        J = Judge(C(), W)
        if not J.check(s, r, transport, {}, leaf=obj.get('kid') or kind, io_error=str(obj.get('mode', '')).startswith('raise'), **kw):
            bad += 1
    if not bad:
        print('T3   : the property holds on this case')
    return 1 if bad else 0


# ====================================================================================== measured try-sites of the server
class ProbeError(Exception):
    """a class the code under test has never heard of: caught only by `except Exception` / `except BaseException` / bare"""


PROBE_FAULT = 'Client.Probe10'
PROBE_CLASSES = [ValueError, TypeError, KeyError, AttributeError, LookupError, RecursionError, AssertionError, ArithmeticError,
                 RuntimeError, OSError]
STAGE_SITES = OrderedDict([
    # fact -> (ast site: file, function, guarded call, module), injection points
    ('genContexts', (('server/_base.py', 'ServerBase.generate_contexts', 'create_in_document', 'spyne.server._base'),
                     [('in', 'create_in_document'), ('in', 'decompose_incoming_envelope'), ('in', 'generate_method_contexts')])),
    ('getInObject', (('server/_base.py', 'ServerBase.get_in_object', 'deserialize', 'spyne.server._base'), [('in', 'deserialize')])),
    ('processRequest', (('application.py', 'Application.process_request', 'call_wrapper', 'spyne.application'), [('user', None)])),
    ('wsgiOutString', (('server/wsgi.py', 'WsgiApplication.handle_rpc', 'get_out_string', 'spyne.server.wsgi'),
                       [('out', 'serialize'), ('out', 'create_out_string')])),
])


def _inject(W, s, where, method, exc, transport):
    """one valid `echo` request with `exc` raised at the injection point (an attribute on the protocol INSTANCE / the user
    function); -> ('escape', class) | ('code', faultcode) | ('ok',)"""
    app = s['app']
    target = {'in': app.in_protocol, 'out': app.out_protocol}.get(where)
    data = W.echo_request(s['proto'])
    if where == 'user':
        W.boom = exc
    else:
        real = getattr(target, method)

        def raiser(*a, **k):
            delattr(target, method)         # once: the fault document that follows is written by the real method
            raise exc
        setattr(target, method, raiser)
    try:
        if transport == 'wsgi':
            r = run_wsgi(W, s, base_environ(s['proto'], data))
        else:
            r = run_base(W, s, data)
    finally:
        W.boom = None
        if where != 'user' and method in vars(target):
            delattr(target, method)
    if r.kind == 'escape':
        return ('escape', r.exc)
    if r.kind == 'fault':
        return ('code', r.code)
    return ('ok',)


def measure_stage_handlers(W):
    """per try-site of the server: the handler list that its observed behaviour amounts to.  A spyne Fault with a code of its
    own, an exception of a class the code has never seen (`ProbeError`) and ten builtin classes are raised at every stage the
    statement guards; what comes out (the same fault / another code / the exception itself) is the fact."""
    from spyne.model.fault import Fault
    s = W.server('json', None)
    res, detail = {}, {}
    for name, (site, points) in STAGE_SITES.items():
        transport = 'wsgi' if name == 'wsgiOutString' else 'base'

        def outcome(mk):
            outs = {_inject(W, s, where, method, mk(), transport) for where, method in points}
            return outs.pop() if len(outs) == 1 else ('mixed', sorted(map(str, outs)))
        hs = []
        o = outcome(lambda: Fault(PROBE_FAULT, 'probe'))
        detail[name + ':Fault'] = o
        if o[0] == 'code':
            hs.append((['Fault'], ('keep',) if o[1] == PROBE_FAULT else ('wrap', o[1] or 'None')))
        elif o[0] != 'escape':
            hs.append((['Fault'], ('other',)))
        generic = outcome(lambda: ProbeError('probe'))
        detail[name + ':ProbeError'] = generic
        for cls in PROBE_CLASSES:
            o = outcome(lambda: cls('probe'))
            if o != generic:
                detail['%s:%s' % (name, cls.__name__)] = o
                if o[0] == 'code':
                    hs.append(([cls.__name__], ('wrap', o[1] or 'None')))
                elif o[0] != 'escape':
                    hs.append(([cls.__name__], ('other',)))
                else:
                    # this class gets through although the unknown class does not: a clause that re-raises it
                    hs.append(([cls.__name__], ('other',)))
        if generic[0] == 'code':
            hs.append((['Exception'], ('wrap', generic[1] or 'None')))
        elif generic[0] != 'escape':
            hs.append((['Exception'], ('other',)))
        res[name] = hs
    return res, {k: list(v) for k, v in detail.items()}


def ast_cross_check(measured):
    """the same statements read with `ast`: only the SET of classes each one catches (clauses flattened); compared with
    the measurement on `Fault` and on the catch-all.  A difference is recorded in the evidence; it breaks nothing."""
    out = {}
    for name, (site, _) in STAGE_SITES.items():
        rel, qn, call, modname = site
        try:
            ch = chain_facts(rel, qn, is_call(call), modname)
        except Exception as e:
            ch = None
            out[name] = {'ast': 'unreadable: %s' % type(e).__name__}
            continue
        classes = sorted({c for t in (ch or []) for cl, _ in t for c in cl})
        m = sorted({c for cl, _ in measured[name] for c in cl})
        all_ast = bool({'Exception', 'BaseException'} & set(classes))
        all_measured = 'Exception' in m
        out[name] = {'ast_classes': classes, 'measured': m, 'agree': all_ast == all_measured}
    return out


# ====================================================================================== SOAP envelope shapes
E_PROTOS = ['soap11', 'soap12']
E_NS = ['own', 'other', 'wrong']
E_HEADERS = ['absent', 'empty', 'one', 'two', 'unknown', 'text']
E_BODIES = ['absent', 'empty', 'text', 'comment', 'two', 'wrongNs', 'faultElem', 'valid']


def env_keys():
    return [(p, n, h, b) for p in E_PROTOS for n in E_NS for h in E_HEADERS for b in E_BODIES]


def envelope_request(key):
    """the envelope of one (protocol, envelope namespace, Header shape, Body shape): a request of `echoh`"""
    from lxml import etree
    proto, nsk, hk, bk = key
    own = NS_SOAP11 if proto == 'soap11' else NS_SOAP12
    other = NS_SOAP12 if proto == 'soap11' else NS_SOAP11
    ns = {'own': own, 'other': other, 'wrong': 'urn:not-a-soap-envelope'}[nsk]
    q = lambda x: '{%s}%s' % (TNS, x)
    env = etree.Element('{%s}Envelope' % ns, nsmap={'senv': ns, 'tns': TNS})

    def call(name='echoh'):
        root = etree.Element(q(name))
        etree.SubElement(root, q('s')).text = 'hi'
        etree.SubElement(root, q('n')).text = '5'
        return root
    if hk != 'absent':
        hdr = etree.SubElement(env, '{%s}Header' % ns)
        if hk in ('one', 'two'):
            etree.SubElement(etree.SubElement(hdr, q('HdrA')), q('token')).text = 't'
        if hk == 'two':
            etree.SubElement(etree.SubElement(hdr, q('HdrB')), q('n')).text = '7'
        if hk == 'unknown':
            etree.SubElement(hdr, '{urn:elsewhere}Other').text = 'x'
        if hk == 'text':
            hdr.text = 'just text'
    if bk != 'absent':
        body = etree.SubElement(env, '{%s}Body' % ns)
        if bk == 'text':
            body.text = 'just text'
        elif bk == 'comment':
            body.append(etree.Comment(' nothing here '))
        elif bk == 'two':
            body.append(call())
            body.append(call('zzSecondEntry'))
        elif bk == 'wrongNs':
            c = etree.SubElement(body, '{urn:elsewhere}echoh')
            etree.SubElement(c, '{urn:elsewhere}s').text = 'hi'
        elif bk == 'faultElem':
            fe = etree.SubElement(body, '{%s}Fault' % ns)
            etree.SubElement(fe, 'faultcode').text = 'senv:Client.Echoed'
            etree.SubElement(fe, 'faultstring').text = 'a fault sent as a request'
        elif bk == 'valid':
            body.append(call())
    return etree.tostring(env, encoding='utf-8', xml_declaration=True)


def measure_env_table(W):
    """every envelope shape replayed on the real ServerBase (validator None): called / clientFault code / serverFault code /
    escape class"""
    rows = []
    for key in env_keys():
        s = W.server(key[0], None)
        r = run_base(W, s, envelope_request(key))
        if r.kind == 'escape':
            rows.append(('escape', r.exc))
        elif r.kind == 'ok':
            rows.append(('called',) if r.calls == 1 else ('serverFault', 'calls=%d' % r.calls))
        elif is_client(r.code):
            rows.append(('clientFault', r.code))
        else:
            rows.append(('serverFault', r.code or 'None'))
    return rows


def env_rows_lean(rows):
    out = []
    for d in rows:
        out.append('.called' if d[0] == 'called' else '.%s %s' % (d[0], _lean_str(d[1])))
    return ',\n    '.join(', '.join(out[i:i + 8]) for i in range(0, len(out), 8))


def report_env_findings(ctx, W, f):
    for key, d in zip(env_keys(), f['envTable']):
        if d[0] in ('called', 'clientFault'):
            continue
        s = W.server(key[0], None)
        data = envelope_request(key)
        diag = diagnose(W, s, data=data) if d[0] == 'serverFault' else None
        ctx.hit('fact-bad:envelope')
        exc = d[1] if d[0] == 'escape' else (diag[0] if diag else 'server-fault')
        frame = diag[1] if diag else 'envelope'
        ctx.finding('c10:%s:soap:%s:%s' % ('escape:base' if d[0] == 'escape' else 'server-fault', exc, frame),
                    'a %s envelope (namespace %s) with Header %s and Body %s is answered with %s %s%s instead of a Client fault' % (
                        key[0], key[1], key[2], key[3], d[0], d[1], ': %s raised in %s during %s' % diag if diag else ''),
                    {'kind': 'envelope', 'key': list(key), 'proto': key[0], 'validator': None, 'request': data.decode('utf-8')})


def part_envelope(ctx, W, J, t2):
    """the envelope cross product Header x Body x envelope namespace for Soap11 and Soap12, every validator, through ServerBase and
    WsgiApplication"""
    n = 0
    for key in env_keys():
        proto = key[0]
        data = envelope_request(key)
        for validator in (None, 'soft', 'lxml'):
            s = W.server(proto, validator)
            rp = {'kind': 'envelope', 'key': list(key), 'request': data.decode('utf-8')}
            r = run_base(W, s, data)
            n += 1
            ctx.case({'envelope': list(key), 'v': validator, 't': 'base'})
            ctx.hit('envelope:%s:%s:%s' % (key[2], key[3], r.kind if r.kind != 'fault' else ('client' if is_client(r.code) else 'server')))
            J.check(s, r, 'base', rp, leaf='envelope', data=data)
            t2.add(funnel_query(W, s, 'base', data=data), r, dict(rp, proto=proto, validator=validator, transport='base'))
            env = wsgi_env(proto, data)
            r = run_wsgi(W, s, env)
            n += 1
            ctx.case({'envelope': list(key), 'v': validator, 't': 'wsgi'})
            env['wsgi.input'] = Input(data)
            J.check(s, r, 'wsgi', rp, leaf='envelope', env=env)
            t2.add(funnel_query(W, s, 'wsgi', env=env, key=std_key(proto)), r, dict(rp, proto=proto, validator=validator, transport='wsgi'))
    ctx.cov['envelope_requests'] = n
    return n


# ====================================================================================== round 4: XML decorations of the leaf requests
XSI = 'http://www.w3.org/2001/XMLSchema-instance'
NIL_VALUES = ['true', '1', 'false', '0', 'TRUE', '', 'nil', ' true ', 'yes']


def xml_decorations(ctx, W, J, t2, s, ci, only_clutter=False):
    """xsi:nil in every spelling on every leaf position (with and without content), comments / processing instructions / stray
    text between the members, an attribute named like a sibling member, an undeclared attribute on the attribute-carrying
    element: per leaf kind, for this XML protocol x validator"""
    proto = s['proto']
    n = 0
    seed = ctx.seed
    for ki, (kid, k) in enumerate(W.K.items()):
        if (k['only'] is not None and proto not in k['only']) or s['validator'] in k['skip']:
            continue
        cases = []
        for pi, pos in enumerate(XML_POSITIONS):
            if pos == 'attr':
                continue
            for vi, nv in enumerate(NIL_VALUES):
                if not ctx.thorough and (vi + pi + ki + ci + seed) % 4:
                    continue
                for keep_text in (True, False):
                    cases.append(('nil:%s:%r:%s' % (pos, nv, 'text' if keep_text else 'empty'), pos, nv, keep_text))

        def nil_deco(pos, nv, keep_text):
            def deco(etree, root, q):
                path = {'top': 'a', 'nested': 'o/x', 'array': 'arr/*[last()]', 'repeated': 'rep[1]', 'data': 'od'}[pos]
                ns = {'t': TNS}
                el = root.xpath('/'.join('t:' + p if p[0] != '*' else p for p in path.split('/')), namespaces=ns)[0]
                el.set('{%s}nil' % XSI, nv)
                if not keep_text:
                    el.text = None
            return deco
        todo = [] if only_clutter else [(tag, pos, nil_deco(pos, nv, kt)) for tag, pos, nv, kt in cases]

        def clutter(etree, root, q):
            root.insert(0, etree.Comment(' c10 '))
            root.insert(2, etree.ProcessingInstruction('c10', 'x="1"'))
            root[1].tail = 'stray text'
            o = root.find(q('o'))
            o.insert(0, etree.Comment(' in o '))
            o.set('x', '1')                 # an attribute named like the member
            o.set('zz', '1')                # an undeclared attribute
            arr = root.find(q('arr'))
            arr.append(etree.Comment(' in arr '))
            arr.text = 'text in arr'
            arr.insert(0, etree.ProcessingInstruction('c10', 'in-arr'))
            o.append(etree.ProcessingInstruction('c10', 'in-o'))
            hdr_like = root.find(q('a'))
            if hdr_like is not None:
                hdr_like.append(etree.ProcessingInstruction('c10', 'in-leaf'))
        todo.append(('clutter', 'attr', clutter))
        todo.append(('clutter', 'data', clutter))
        for tag, pos, deco in todo:
            lit = k['valid']
            data = W.xml_request(proto, kid, pos, lit, deco=deco)
            if data is None:
                continue
            rp = {'kind': 'bytes', 'mutation': 'xml-' + tag, 'kid': kid, 'request_hex': data.hex(), 'request_len': len(data), 'opts': s.get('opts') or {}}
            r = run_base(W, s, data)
            n += 1
            ctx.case({'xml-deco': [proto, s['validator'], kid, tag]})
            ctx.hit('xml-deco:%s:%s' % (tag.split(':')[0], r.kind if r.kind != 'fault' else ('client' if is_client(r.code) else 'server')))
            J.check(s, r, 'base', rp, leaf=k['fam'] + ':' + tag.split(':')[0], data=data)
            t2.add(funnel_query(W, s, 'base', data=data), r, dict(rp, proto=proto, validator=s['validator'], transport='base'))
        if only_clutter or (not ctx.thorough and (ki + ci + seed) % 3):
            continue
        # references to entities of the internal subset (never resolved: they stay in the tree as nodes of their own)
        base = W.xml_request(proto, kid, ['top', 'attr', 'data'][(ki + seed) % 3], k['valid'])
        for tag, data in ([] if base is None else entity_variants(proto, base)):
            rp = {'kind': 'bytes', 'mutation': 'xml-' + tag, 'kid': kid, 'request_hex': data.hex(), 'request_len': len(data), 'opts': s.get('opts') or {}}
            r = run_base(W, s, data)
            n += 1
            ctx.case({'xml-deco': [proto, s['validator'], kid, tag], 'd': hashlib.sha1(data).hexdigest()[:10]})
            ctx.hit('xml-deco:%s:%s' % (tag, r.kind if r.kind != 'fault' else ('client' if is_client(r.code) else 'server')))
            J.check(s, r, 'base', rp, leaf='node-kind:' + tag.split(':')[1], data=data)
            t2.add(funnel_query(W, s, 'base', data=data), r, dict(rp, proto=proto, validator=s['validator'], transport='base'))
    return n


# ====================================================================================== round 4: the flat notations of HttpRpc
def flat_queries():
    big = '9' * 5000
    return ['items[0].x=1&items[1].x=2', 'items[5].x=1', 'items[99999999].x=1', 'items[%s].x=1' % big, 'items=empty', 'one=empty', 'one.x=1&one=empty',
            'items[0]=1', 'items[0].tags[1]=a', 'items[0].tags[%s]=a' % big, 'items[-1].x=1', 'items[0][1].x=1', 'many[0].x=1&many[2].x=3', 'many[1].x=1',
            'many=empty', 'many=empty&many[0].x=1', 'items[0].x=a', 'items[].x=1', 'items[0].x[0]=1', 'one.tags=a&one.tags=b', 'one.x=1&one.x=2',
            'items.x=1', 'items[0].x=1&items[0].x=2', 'many[%s].x=1' % big, 'items[1].x=1&items[0].x=2', 'one.x.y=1', 'one[0].x=1', 'one.x=', 'one.x',
            'items[0].x=1&items[00].x=2', 'items[0].x=1&items[0x1].x=2', 'items[１].x=1', 'items[1e3].x=1', 'items[0].x=%s' % big, 'one.tags=' + 'a' * 70000,
            '&'.join('items[%d].x=%d' % (i, i) for i in range(300)), '&'.join('many[%d].tags[%d]=t' % (i, j) for i in range(20) for j in range(3)),
            'items[2].x=1&items[0].x=2&items[1].x=3', 'one=&one.x=1', 'items=&items[0].x=1', 'items[0]=empty', 'one.tags=empty', 'hq=1', '=', 'one..x=1',
            'one.=1', '.x=1', 'items[0]..x=1', 'items[0.x=1', 'items]0[.x=1', 'items[[0]].x=1']


def part_http_flat(ctx, W, J, t2):
    """HttpRpc GET: objects, arrays of objects and repeated objects in the flat `a.b[i].c` notation; `key=empty`; indexes that are
    huge, sparse, repeated, malformed; strict and lenient arrays x validator"""
    n = 0
    for strict in (False, True):
        for validator in (None, 'soft'):
            s = W.server('http', validator, strict_arrays=strict)
            for qi, qs in enumerate(flat_queries()):
                env = base_environ('http', b'', path='/hq', qs=qs, method='GET')
                del env['CONTENT_LENGTH']
                try:
                    qs.encode('latin-1')
                except UnicodeEncodeError:
                    env['QUERY_STRING'] = quote(qs, safe='=&[].')
                env['c10.body'] = env['c10.raw'] = b''
                r = run_wsgi(W, s, env)
                n += 1
                ctx.case({'flat': [strict, validator, qi]})
                ctx.hit('flat:%s:%s' % ('strict' if strict else 'lenient', r.kind if r.kind != 'fault' else r.status))
                rp = {'kind': 'flat', 'qs_index': qi, 'qs': qs[:300], 'strict': strict}
                env['wsgi.input'] = Input(b'')
                J.check(s, r, 'wsgi', rp, leaf='flat-notation', env=env)
                t2.add(funnel_query(W, s, 'wsgi', env=env, key=std_key('http')), r, dict(rp, proto='http', validator=validator, transport='wsgi'))
    ctx.cov['flat_requests'] = n
    return n


# ====================================================================================== round 4: SOAP multi-references
H_SHAPES = ['resolves', 'missing', 'empty', 'cycle', 'selfCycle', 'root', 'dupId', 'deep', 'dangling']


def href_keys():
    return [(p, sh) for p in E_PROTOS for sh in H_SHAPES]


def href_request(key):
    proto, shape = key
    ns = NS_SOAP11 if proto == 'soap11' else NS_SOAP12
    t = lambda body, extra='': ('<e:Envelope xmlns:e="%s" xmlns:t="%s"><e:Body>%s%s</e:Body></e:Envelope>' % (ns, TNS, body, extra)).encode()
    call = lambda s_: '<t:echo>%s<t:n>5</t:n></t:echo>' % s_
    if shape == 'resolves':
        return t(call('<t:s href="#a"/>'), '<x id="a">hi</x>')
    if shape == 'missing':
        return t(call('<t:s href="#nope"/>'))
    if shape == 'dangling':         # other ids are there, this one is not
        return t(call('<t:s href="#zz"/>'), '<x id="a">hi</x><y id="zzz">no</y>')
    if shape == 'empty':
        return t(call('<t:s href=""/>'))
    if shape == 'cycle':
        return t(call('<t:s href="#a"/>'), '<x id="a"><y href="#b"/></x><z id="b"><w href="#a"/></z>')
    if shape == 'selfCycle':
        return t(call('<t:s><q href="#a"/></t:s>'), '<x id="a"><y><q2 href="#a"/></y></x>')
    if shape == 'root':
        return t('<t:echo href="#a"><t:n>5</t:n></t:echo>', '<t:echo id="a"><t:s>x</t:s></t:echo>')
    if shape == 'dupId':
        return t(call('<t:s id="a">x</t:s>').replace('<t:n>', '<t:n id="a">'))
    chain_ = ''.join('<x id="c%d"><y href="#c%d"/></x>' % (i, i + 1) for i in range(60)) + '<x id="c60">end</x>'
    return t(call('<t:s href="#c0"/>'), chain_)


def _decision(r):
    if r.kind == 'escape':
        return ('escape', r.exc)
    if r.kind == 'ok':
        return ('called',) if r.calls == 1 else ('serverFault', 'calls=%d' % r.calls)
    return ('clientFault', r.code) if is_client(r.code) else ('serverFault', r.code or 'None')


def measure_href_table(W):
    return [_decision(run_base(W, W.server(k[0], None), href_request(k))) for k in href_keys()]


def part_multiref(ctx, W, J, t2):
    n = 0
    for key in href_keys():
        data = href_request(key)
        for validator in (None, 'soft', 'lxml'):
            s = W.server(key[0], validator)
            rp = {'kind': 'bytes', 'mutation': 'multiref:' + key[1], 'request_hex': data.hex(), 'request_len': len(data)}
            r = run_base(W, s, data)
            n += 1
            ctx.case({'multiref': list(key), 'v': validator})
            ctx.hit('multiref:%s:%s' % (key[1], r.kind if r.kind != 'fault' else ('client' if is_client(r.code) else 'server')))
            J.check(s, r, 'base', rp, leaf='multiref', data=data)
            t2.add(funnel_query(W, s, 'base', data=data), r, dict(rp, proto=key[0], validator=validator, transport='base'))
            env = wsgi_env(key[0], data)
            r = run_wsgi(W, s, env)
            n += 1
            env['wsgi.input'] = Input(data)
            J.check(s, r, 'wsgi', rp, leaf='multiref', env=env)
    return n


# ====================================================================================== round 4: what the callable reads from the environ first
U_SCRIPTS = ['empty', 'slash', 'doubleSlash', 'name']
U_PATHS = ['empty', 'slash', 'name']
U_HOSTS = ['absent', 'plain', 'withPort', 'junk']


def url_keys():
    return [(f, sc, pa, ho, hs) for f in P_FAMS for sc in U_SCRIPTS for pa in U_PATHS for ho in U_HOSTS for hs in (False, True)]


def url_environ(W, key):
    fam, sc, pa, ho, hs = key
    proto = FAM_PROTO[fam]
    script = {'empty': '', 'slash': '/', 'doubleSlash': '//mount', 'name': '/mount'}[sc]
    path = {'empty': '', 'slash': '/', 'name': '/echo'}[pa]
    if proto == 'http':
        env = base_environ(proto, b'', path=path, qs='s=hi&n=5', method='GET')
        del env['CONTENT_LENGTH']
        body = b''
    else:
        body = W.echo_request(proto)
        env = base_environ(proto, body, path=path)
    env['SCRIPT_NAME'] = script
    host = {'absent': None, 'plain': 'example.org', 'withPort': 'example.org:8443', 'junk': '\x00:::/?#[\xe9'}[ho]
    if host is not None:
        env['HTTP_HOST'] = host
    if hs:
        env['wsgi.url_scheme'] = 'https'
        env['SERVER_PORT'] = '8443'
    env['c10.body'] = env['c10.raw'] = body
    return env, body


def measure_url_table(W):
    """every row against the same request with a plain environ: `proceed` when the answer is the same"""
    rows, detail = [], {}
    ref = {}
    for key in url_keys():
        fam, pa = key[0], key[2]
        s = W.server(FAM_PROTO[fam], None)
        env, body = url_environ(W, key)
        r = run_wsgi(W, s, env)
        if r.kind == 'escape':
            rows.append(('escape', r.exc))
            detail[key] = {'exc': r.exc, 'frame': r.frame}
            continue
        if (fam, pa) not in ref:
            env0, _ = url_environ(W, (fam, 'empty', pa, 'absent', False))
            env0['SCRIPT_NAME'] = ''
            ref[(fam, pa)] = run_wsgi(W, s, env0).cls()
        if r.cls() == ref[(fam, pa)] or r.kind == 'ok':
            rows.append(('proceed',))
        else:
            rows.append(('reject', r.code or 'None', r.status or 0))
    return rows, detail


HEADER_SETS = [{'HTTP_COOKIE': 'a="\\777"; b; =c; d="\\'}, {'HTTP_COOKIE': 's=hi; n=5'}, {'HTTP_COOKIE': '\x00\xff;;;==='}, {'HTTP_COOKIE': 'n=' + '9' * 5000},
               {'HTTP_CONTENT_TYPE': 'x', 'HTTP_CONTENT_LENGTH': 'abc'}, {'HTTP_X_' + 'A' * 5000: 'x'}, {'HTTP_': ''}, {'HTTP_S': 'x', 'HTTP_N': 'abc'},
               {'HTTP_ACCEPT': '*/*' * 5000}, {'HTTP_SOAPACTION': '"\x00"'}, {'HTTP_TRANSFER_ENCODING': 'chunked'}, {'HTTP_EXPECT': '100-continue'},
               {'HTTP_COOKIE': 'a=b'.join(';' for _ in range(2000))}, {'HTTP_X_FORWARDED_HOST': 'evil\r\nSet-Cookie: x=1'}]


def part_environ(ctx, W, J, t2, facts):
    n = 0
    for key in url_keys():
        fam = key[0]
        protos = {'soap': ['soap11', 'soap12'], 'plain': ['xml', 'json', 'yaml', 'msgpack'], 'http': ['http']}[fam]
        for proto in (protos if ctx.thorough else protos[:1] + protos[1:][(hash(key[1:4]) + ctx.seed) % max(len(protos) - 1, 1):][:1]):
            s = W.server(proto, None)
            env, body = url_environ(W, key)
            if proto != FAM_PROTO[fam]:
                body = W.echo_request(proto)
                env2 = base_environ(proto, body, path=env['PATH_INFO'])
                for k_ in ('SCRIPT_NAME', 'HTTP_HOST', 'wsgi.url_scheme', 'SERVER_PORT'):
                    if k_ in env:
                        env2[k_] = env[k_]
                env = env2
            r = run_wsgi(W, s, env)
            n += 1
            ctx.case({'url': list(key), 'proto': proto})
            ctx.hit('url:%s:%s' % (fam, r.kind if r.kind != 'fault' else r.status))
            rp = {'kind': 'url', 'key': list(key)}
            env['wsgi.input'] = Input(body)
            J.check(s, r, 'wsgi', rp, leaf='url', env=env)
    for proto in ('xml', 'soap11', 'json', 'http'):
        for validator in (None, 'soft'):
            s = W.server(proto, validator, **({'parse_cookie': True} if proto == 'http' else {}))
            for hi, hs in enumerate(HEADER_SETS):
                if proto == 'http':
                    env = base_environ(proto, b'', path='/echo', qs='s=hi&n=5', method='GET')
                    body = b''
                else:
                    body = W.echo_request(proto)
                    env = base_environ(proto, body)
                env.update(hs)
                r = run_wsgi(W, s, env)
                n += 1
                ctx.case({'headers': [proto, validator, hi]})
                ctx.hit('headers:%s:%s' % (family(proto), r.kind if r.kind != 'fault' else r.status))
                rp = {'kind': 'headers', 'index': hi}
                env['wsgi.input'] = Input(body)
                J.check(s, r, 'wsgi', rp, leaf='http-headers', env=env)
    ctx.cov['environ_requests'] = n
    return n


def report_table_findings(ctx, W, f):
    for key, d in zip(fault_doc_keys(), f['faultDocTable']):
        if d[0] == 'proceed':
            continue
        det = f['faultDocDetail'].get(key, {})
        ctx.hit('fact-bad:fault-document')
        ctx.finding('c10:escape:%s:%s:%s:%s' % ('wsgi' if key[1] else 'base', family(key[0]), d[1], det.get('frame')),
                    'a fault whose text holds %s characters cannot be written by the output protocol %s: %s escapes %s (innermost spyne frame %s)' % (
                        key[2], key[0], d[1], 'the WSGI callable' if key[1] else 'get_out_string', det.get('frame')),
                    {'kind': 'faultdoc', 'key': [key[0], key[1], key[2]], 'proto': key[0], 'validator': None})
    for key, d in zip(href_keys(), f['hrefTable']):
        if d[0] in ('called', 'clientFault'):
            continue
        s = W.server(key[0], None)
        data = href_request(key)
        diag = diagnose(W, s, data=data) if d[0] == 'serverFault' else None
        ctx.hit('fact-bad:href')
        ctx.finding('c10:%s:soap:%s:%s' % ('escape:base' if d[0] == 'escape' else 'server-fault', d[1] if d[0] == 'escape' else (diag[0] if diag else 'server-fault'),
                                        diag[1] if diag else 'multiref'),
                    'a %s request with id/href references of shape %s is answered with %s %s%s instead of a Client fault' % (
                        key[0], key[1], d[0], d[1], ': %s raised in %s during %s' % diag if diag else ''),
                    {'kind': 'bytes', 'mutation': 'multiref:' + key[1], 'proto': key[0], 'validator': None, 'request_hex': data.hex(), 'request_len': len(data)})
    for key, d in zip(url_keys(), f['urlTable']):
        bad = d[0] == 'escape' or (d[0] == 'reject' and not is_client(d[1]))
        if not bad:
            continue
        det = f['urlDetail'].get(key, {})
        ctx.hit('fact-bad:url')
        ctx.finding('c10:escape:wsgi:%s:%s:%s' % ({'soap': 'soap', 'plain': 'json', 'http': 'http'}[key[0]], d[1], det.get('frame')) if d[0] == 'escape'
                    else 'c10:transport-answer:%s:%s:%s' % (key[0], d[1], d[2]),
                    'environ class SCRIPT_NAME=%s PATH_INFO=%s HTTP_HOST=%s https=%s (%s): %s' % (key[1], key[2], key[3], key[4], key[0],
                        '%s escapes the WSGI callable (innermost spyne frame %s)' % (d[1], det.get('frame')) if d[0] == 'escape' else 'answered with %s / %s' % (d[1], d[2])),
                    {'kind': 'url', 'key': list(key), 'proto': FAM_PROTO[key[0]], 'validator': None})


# ====================================================================================== round 4: further configurations
def mime_body(parts, boundary='c10bnd', close=True):
    out = b''
    for headers, payload in parts:
        out += b'--' + boundary.encode() + b'\r\n' + headers + b'\r\n\r\n' + payload + b'\r\n'
    if close:
        out += b'--' + boundary.encode() + b'--\r\n'
    return out


def part_configs(ctx, W, J, t2):
    """(i) SOAP with attachments: multipart/related bodies; (ii) a method with a single declared SOAP header; (iii) polymorphic dict
    documents with class-name wrappers; (iv) the user function raising, through WsgiApplication"""
    from .hierblock import dump
    n = 0
    # (i)
    ct = ctype_text('multipartBoundary', 'soap11')
    for proto in ('soap11', 'soap12'):
        soap = W.echo_request(proto)
        h = b'Content-Type: text/xml; charset=utf-8\r\nContent-ID: <soap>'
        bodies = [('mime-ok', mime_body([(h, soap)])), ('mime-two', mime_body([(h, soap), (b'Content-Type: application/octet-stream\r\nContent-ID: <att>', b'\x00\x01')])),
                  ('mime-bad-xml', mime_body([(h, b'<a')])), ('mime-no-part', mime_body([])), ('mime-open', mime_body([(h, soap)], close=False)),
                  ('mime-junk', b'\x00\xff--c10bnd\r\n\r\n'), ('mime-other-start', mime_body([(b'Content-Type: text/xml\r\nContent-ID: <zz>', soap)])),
                  ('mime-empty', b''), ('mime-plain', soap), ('mime-base64', mime_body([(h + b'\r\nContent-Transfer-Encoding: base64', b'!!!!')])),
                  ('mime-xop', mime_body([(h, soap.replace(b'hi', b'<xop:Include xmlns:xop="http://www.w3.org/2004/08/xop/include" href="cid:nope"/>'))]))]
        for validator in (None, 'soft'):
            s = W.server(proto, validator)
            for tag, body in bodies:
                for ctv in (ct, ct + '; charset=bogus', 'multipart/related; boundary=""', 'multipart/related; boundary=c10bnd; start="<nope>"'):
                    env = base_environ(proto, body)
                    env['CONTENT_TYPE'] = ctv
                    r = run_wsgi(W, s, env)
                    n += 1
                    ctx.case({'mime': [proto, validator, tag, ctv]})
                    ctx.hit('mime:%s:%s' % (tag, r.kind if r.kind != 'fault' else ('client' if is_client(r.code) else 'server')))
                    rp = {'kind': 'mime', 'tag': tag, 'content_type': ctv, 'body_hex': body.hex()}
                    env['wsgi.input'] = Input(body)
                    J.check(s, r, 'wsgi', rp, leaf='multipart', env=env)
    # (ii)
    for proto in ('soap11', 'soap12'):
        ns = NS_SOAP11 if proto == 'soap11' else NS_SOAP12
        for hdr in ('', '<e:Header><t:HdrA><t:token>t</t:token></t:HdrA></e:Header>', '<e:Header><t:HdrA><t:token>t</t:token></t:HdrA><t:HdrA/></e:Header>',
                    '<e:Header><t:HdrA>text<zz/></t:HdrA></e:Header>', '<e:Header><t:HdrB><t:n>abc</t:n></t:HdrB></e:Header>', '<e:Header><t:HdrA xmlns:i="%s" i:nil="true"/></e:Header>' % XSI):
            data = ('<e:Envelope xmlns:e="%s" xmlns:t="%s">%s<e:Body><t:echoh1><t:s>hi</t:s><t:n>5</t:n></t:echoh1></e:Body></e:Envelope>' % (ns, TNS, hdr)).encode()
            for validator in (None, 'soft', 'lxml'):
                s = W.server(proto, validator)
                r = run_base(W, s, data)
                n += 1
                ctx.case({'header1': [proto, validator, hdr[:40]]})
                rp = {'kind': 'bytes', 'mutation': 'single-header', 'request_hex': data.hex(), 'request_len': len(data)}
                J.check(s, r, 'base', rp, leaf='soap-header', data=data)
                t2.add(funnel_query(W, s, 'base', data=data), r, dict(rp, proto=proto, validator=validator, transport='base'))
    # (iii)
    docs = [{'items': [{'SubItem10': {'x': 1, 'y': 2}}, {'Item10': {'x': 3}}]}, {'items': [{'Nope': {'x': 1}}]}, {'items': [{'HdrA': {'token': 't'}}]},
            {'one': {'SubItem10': {'x': 'a'}}}, {'one': {'SubItem10': None}}, {'one': {'SubItem10': []}}, {'one': {'SubItem10': {}, 'Item10': {}}}, {'one': {'': {}}},
            {'one': {'x': 1}}, {'many': [{'SubItem10': {'y': [1]}}, 5]}, {'one': {'SubItem10': {'tags': 'abc'}}}, {'one': {'hq': {}}}, {'one': {5: {}}}]
    for proto in DICT_PROTOS:
        for validator in (None, 'soft'):
            s = W.server(proto, validator, polymorphic=True)
            for di, d in enumerate(docs):
                doc = [0, 1, 'hq', d] if proto == 'msgpackrpc' else {'hq': d}
                try:
                    data = dump('msgpack' if proto == 'msgpackrpc' else proto, doc)
                except Exception:
                    continue
                r = run_base(W, s, data)
                n += 1
                ctx.case({'poly': [proto, validator, di]})
                ctx.hit('poly:%s:%s' % (family(proto), r.kind if r.kind != 'fault' else ('client' if is_client(r.code) else 'server')))
                rp = {'kind': 'bytes', 'mutation': 'polymorphic', 'opts': {'polymorphic': True}, 'request_hex': data.hex(), 'request_len': len(data)}
                J.check(s, r, 'base', rp, leaf='polymorphic', data=data)
                t2.add(funnel_query(W, s, 'base', data=data), r, dict(rp, proto=proto, validator=validator, transport='base'))
    # (iv)
    from spyne.model.fault import Fault
    for proto in ('json', 'soap11', 'http'):
        s = W.server(proto, None)
        for mk, want in ((lambda: Fault(PROBE_FAULT, 'probe'), 'client'), (lambda: ProbeError('probe'), 'server')):
            W.boom = mk()
            try:
                env = base_environ(proto, b'', path='/echo', qs='s=hi&n=5', method='GET') if proto == 'http' else base_environ(proto, W.echo_request(proto))
                r = run_wsgi(W, s, env)
            finally:
                W.boom = None
            n += 1
            ctx.case({'user-raises': [proto, want]})
            got = 'escape' if r.kind == 'escape' else ('ok' if r.kind == 'ok' else ('client' if is_client(r.code) else 'server'))
            if got != want or r.calls != 1 or (want == 'client' and family(proto) != 'soap' and not 400 <= (r.status or 0) < 500):
                J._finding('c10:user-exception:%s:%s:%s' % (family(proto), want, got),
                           'the user function raises a %s: answered with %s, status %s, %d calls' % ('Client fault' if want == 'client' else 'non-Fault exception', got, r.status, r.calls),
                           {'kind': 'user', 'proto': proto, 'validator': None, 'want': want})
    ctx.cov['config_requests'] = n
    return n


# ====================================================================================== round 5: the fault document and what it quotes
F_CHARS = ['plain', 'control', 'nul', 'surrogate', 'nonBmp', 'nonchar']
FAULT_TEXTS = {'plain': 'bad value', 'control': 'bad \x01\x0b\x1f value', 'nul': 'bad \x00 value', 'surrogate': 'bad \ud800 \udfff value',
               'nonBmp': 'bad \U0001F600 value', 'nonchar': 'bad ￾￿ value'}
OUT_PROTOS = ['xml', 'soap11', 'soap12', 'json', 'yaml', 'msgpack', 'msgpackrpc', 'http']


def fault_doc_keys():
    return [(p, w, c) for p in OUT_PROTOS for w in (False, True) for c in F_CHARS]


def _fault_doc_row(W, key):
    """raise a Client fault with this text at the deserialisation stage of a valid request (once, on the protocol instance) and see
    whether the fault document gets written"""
    from spyne.error import ValidationError
    proto, wsgi, chars = key
    s = W.server(proto, None)
    p = s['app'].in_protocol

    def raiser(*a, **k):
        del p.deserialize
        raise ValidationError(FAULT_TEXTS[chars], '%r: ' + FAULT_TEXTS[chars].replace('%', '%%'))
    p.deserialize = raiser
    try:
        if wsgi or proto == 'http':
            env = base_environ(proto, b'', path='/echo', qs='s=hi&n=5', method='GET') if proto == 'http' else base_environ(proto, W.echo_request(proto))
            r = run_wsgi(W, s, env)
        else:
            r = run_base(W, s, W.echo_request(proto))
    finally:
        if 'deserialize' in vars(p):
            del p.deserialize
    if r.kind == 'escape':
        return ('escape', r.exc), {'exc': r.exc, 'frame': r.frame}
    return ('proceed',), {}


def measure_fault_doc_table(W):
    rows, detail = [], {}
    for key in fault_doc_keys():
        d, det = _fault_doc_row(W, key)
        rows.append(d)
        if det:
            detail[key] = det
    return rows, detail


def part_cross_out(ctx, W, J, t2):
    """request data that XML cannot carry (control characters, NUL, lone surrogates, noncharacters) in every leaf kind, sent with the input
    protocols that can carry it, answered by the XML-family output protocols (and MessagePack, which cannot pack lone surrogates): the
    fault document must still be produced"""
    N = nasty_literals()
    n = 0
    ins = ['http', 'json', 'yaml', 'msgpack']
    outs = ['xml', 'soap11', 'soap12', 'msgpack']
    seed = ctx.seed

    def uncarriable(lit):
        return isinstance(lit, str) and any(ord(c) < 32 and c not in '\t\n\r' or 0xd800 <= ord(c) < 0xe000 or ord(c) in (0xfffe, 0xffff) for c in lit)
    extra = ['\x01x', 'P\x01', '\x00', 'a\x0bb', '\ud800', '1\x1f', '￾', '\x7f\x80\x9f', '%s%r%d', '%01x', '%']
    for ii, inp in enumerate(ins):
        for oi, out in enumerate(outs):
            if inp == out:
                continue
            for validator in (None, 'soft'):
                s = W.server(inp, validator, out=out)
                for ki, (kid, k) in enumerate(W.K.items()):
                    if (k['only'] is not None and inp not in k['only']) or validator in k['skip']:
                        continue
                    lits = [l for l in N[k['fam']] + GENERIC if uncarriable(l)] + extra
                    for li, lit in enumerate(lits):
                        if not ctx.thorough and (li + ki + ii + oi + seed) % 3:
                            continue
                        pos = POSITIONS[(li + ki + seed) % 4]
                        data = W.http_query(kid, pos, lit) if inp == 'http' else W.dict_request(inp, kid, pos, lit)
                        if data is None:
                            continue
                        rp = {'kind': 'leaf', 'kid': kid, 'pos': pos, 'lit': lit, 'opts': {'out': out}}
                        if inp != 'http':
                            r = run_base(W, s, data)
                            n += 1
                            ctx.case({'cross': [inp, out, validator, kid, pos], 'lit': hashlib.sha1(repr(lit).encode()).hexdigest()[:12]})
                            ctx.hit('cross:%s>%s:%s' % (inp, out, r.kind if r.kind != 'fault' else ('client' if is_client(r.code) else 'server')))
                            J.check(s, r, 'base', rp, leaf=k['fam'] + ':out-' + family(out), data=data)
                        env = wsgi_env(inp, data, kid)
                        r = run_wsgi(W, s, env)
                        n += 1
                        ctx.case({'cross-wsgi': [inp, out, validator, kid, pos], 'lit': hashlib.sha1(repr(lit).encode()).hexdigest()[:12]})
                        env['wsgi.input'] = Input(env['c10.raw'])
                        J.check(s, r, 'wsgi', rp, leaf=k['fam'] + ':out-' + family(out), env=env)
    ctx.cov['cross_out_requests'] = n
    return n


# ====================================================================================== round 5: nodes that are not elements
def entity_variants(proto, data):
    """the request with an internal subset that declares an entity, and a reference to it at one child position after the other: in front of
    the members, between them, inside the nested object, the array, a leaf; for SOAP also in front of / behind the method element, in the
    Envelope, in a Header"""
    text = data.decode('utf-8')
    if text.startswith('<?xml'):
        text = text[text.index('?>') + 2:].lstrip()
    doctype = '<!DOCTYPE c10 [<!ENTITY e "v"><!ENTITY big "%s">]>' % ('x' * 50)
    out = []
    import re as _re
    spots = [('method', _re.compile(r'(<(?:\w+:)?f_\w+[^>]*>)')), ('o', _re.compile(r'(<(?:\w+:)?o>)')), ('arr', _re.compile(r'(<(?:\w+:)?arr>)')),
             ('leaf', _re.compile(r'(<(?:\w+:)?a>)')), ('after-o', _re.compile(r'(</(?:\w+:)?o>)')), ('oa', _re.compile(r'(<(?:\w+:)?oa[^>]*>)')),
             ('od', _re.compile(r'(<(?:\w+:)?od[^>]*>)'))]
    if proto != 'xml':
        spots += [('body', _re.compile(r'(<(?:\w+:)?Body>)')), ('after-method', _re.compile(r'(</(?:\w+:)?f_\w+>)')), ('envelope', _re.compile(r'(<(?:\w+:)?Envelope[^>]*>)'))]
    for tag, rx in spots:
        for ent in ('&e;', '&big;&e;'):
            m = rx.search(text)
            if m is None:
                continue
            out.append(('entity:%s' % tag, (doctype + text[:m.end()] + ent + text[m.end():]).encode('utf-8')))
    if proto != 'xml':
        m = _re.search(r'(<(?:\w+:)?Body>)', text)
        out.append(('entity:header', (doctype + text[:m.start()] + '<senv:Header>&e;<x>1</x>&e;</senv:Header>' + text[m.start():]).encode('utf-8')))
        out.append(('entity:body-only', (doctype + text[:m.end()] + '&e;' + text[text.index('</senv:Body>'):]).encode('utf-8')))
    out.append(('entity:undeclared', (doctype + text.replace('<o>', '<o>&nope;', 1) if '<o>' in text else doctype + text).encode('utf-8')))
    return out
