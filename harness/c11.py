"""C11 — a request runs exactly the method it names.

T1: behaviour switches / constants measured on the real code -> SpyneModel/Generated/Facts11.lean
Proof: Props/C11.lean (instantiated with the regenerated facts)
T2: model-vs-implementation: Application construction (exception class / routing table / public names) for
    generated service lists in several listing orders, and what runs for requests that name the method in every
    protocol's way (NullServer key, XML/SOAP root tag, JSON/YAML/MessagePack single key, msgpack-rpc name,
    HttpRpc path, HttpPattern)
T3: the property itself on the real code: per-function invocation counters, not-found fault for unknown names,
    independence of the listing order, rejection of two methods answering to one name.
"""
import gc
import itertools
import logging
import re
from io import BytesIO

from . import core

OTHER_NS = 'urn:other'


def cps(s):
    return [ord(c) for c in s]


def ocps(s):
    return None if s is None else cps(s)


def uncps(l):
    return ''.join(chr(c) for c in l)


# ------------------------------------------------------------------------------------ spec -> model query
def q_method(m):
    return {'fid': m['fid'], 'func': cps(m['func']), 'op': ocps(m.get('op')), 'in': ocps(m.get('in')),
            'out': ocps(m.get('out')), 'suffix': cps(m.get('suffix') or ''),
            'patterns': [[None if v is None else [cps(a) for a in v], ocps(addr)] for v, addr in m.get('patterns') or []],
            'auxown': bool(m.get('auxown')), 'bare': m.get('bare') in ('bare', 'soaprpc'), 'barearg': bool(m.get('barearg'))}


def q_req(r):
    k = r[0]
    if k == 'null':
        return {'k': 'null', 'n': cps(r[1])}
    if k == 'tag':
        return {'k': 'tag', 'ns': ocps(r[1]), 'n': cps(r[2])}
    if k == 'key':
        return {'k': 'key', 'n': cps(r[1])}
    if k == 'rpc':
        return {'k': 'rpc', 'n': cps(r[1])}
    if k == 'http':
        return {'k': 'http', 'verb': cps(r[1]), 'path': cps(r[2]), 'query': cps(r[3] if len(r) > 3 else '')}
    if k in ('rpcb', 'keyb'):                       # the name as msgpack `bin`
        return {'k': k, 'b': list(r[1])}
    if k in ('mnull', 'mtag', 'mkey', 'mrpc', 'mhttp', 'btag'):   # the same ways of naming, with the payload a member
        return q_req((k[1:],) + tuple(r[1:]))                     # method ('self') or a bare method (text) needs
    if k == 'soap':                                 # a whole SOAP envelope as an element tree
        enc = lambda t: [ocps(t[0]), cps(t[1]), [enc(c) for c in t[2]]]
        return {'k': 'soap', 'env': cps(r[1]), 'doc': enc(r[2])}
    if k == 'keys':                                 # a dict document with zero or several keys
        return {'k': 'keys', 'ns': [cps(n) for n in r[1]]}
    if k == 'pkey':                                 # a member method named without its instance (T3 only)
        return {'k': 'null', 'n': []}
    if k in ('rawkey', 'rawtag'):                   # bytes spliced into a text body: the parser is a third party (T3 only)
        return {'k': 'null', 'n': []}
    raise ValueError(r)


def q_app(spec, order, requests=()):
    return {'op': 'app', 'tns': cps(spec['tns']),
            'services': [{'mod': cps(s['mod']), 'name': cps(s['name']), 'aux': bool(s['aux']), 'keymod': ocps(s.get('keymod')),
                          'methods': [q_method(m) for m in s['methods']]}
                         for s in (spec['services'][i] for i in order)],
            'classes': [{'name': cps(c['name']), 'ns': ocps(c.get('ns')), 'methods': [q_method(m) for m in c['methods']]}
                        for c in spec.get('classes') or []],
            'requests': [q_req(r) for r in requests]}


# ------------------------------------------------------------------------------------ implementation side
def _mkfunc(fid, name, calls, m=None, member=False):
    """the user function: records its invocation; shape and failure mode as the spec says"""
    m = m or {}

    def body():
        calls.append(fid)
        if m.get('raises') == 'fault':
            from spyne.model.fault import Fault
            raise Fault('Client.Custom', 'declared failure')
        if m.get('raises') == 'error':
            raise ValueError('undeclared failure')
    if member and m.get('marg'):
        def f(self, ctx, s):
            body() if (getattr(self, 'i', None) == 1 and s == 'x') else calls.append(-fid)   # the instance / argument sent
    elif member:
        def f(self, ctx):
            body() if getattr(self, 'i', None) == 1 else calls.append(-fid)
    elif m.get('ctx') and m.get('barearg'):
        def f(ctx, s):
            body()
    elif m.get('ctx'):
        def f(ctx):
            body()
    elif m.get('barearg'):
        def f(s):
            body()
    else:
        def f():
            body()
    f.__name__ = name
    f._fid = fid
    return f


def _decorate(m, calls, env, member=False):
    from spyne import srpc, rpc, mrpc, Unicode
    from spyne.protocol.http import HttpPattern
    from spyne.auxproc.sync import SyncAuxProc
    kw = {}
    if m.get('op') is not None:
        kw['_operation_name'] = m['op']
    if m.get('in') is not None:
        kw['_in_message_name'] = m['in']
    if m.get('out') is not None:
        kw['_out_message_name'] = m['out']
    if m.get('suffix'):
        kw['_internal_key_suffix'] = m['suffix']
    if m.get('auxown'):
        kw['_aux'] = SyncAuxProc()
    if m.get('bare'):
        if m.get('bare') == 'soapdoc':
            kw['_soap_body_style'] = 'document'  # alias of 'wrapped', wins over the body style given
            kw['_body_style'] = 'bare'
        elif m.get('bare') == 'soaprpc':
            kw['_soap_body_style'] = 'rpc'
            kw['_body_style'] = 'wrapped'       # (the alias is only looked at when a body style is given)
        else:
            kw['_body_style'] = 'bare'
    if m.get('header'):
        kw['_in_header'] = (env['Hdr'],)
        kw['_out_header'] = (env['Hdr'],)
    if m.get('throws'):
        kw['_throws'] = [env['Flt']]
    if m.get('returns') is not None:
        kw['_returns'] = env['classes'][m['returns']]
        if m.get('returns_alt'):             # a customised copy: its member methods are met a second time
            kw['_returns'] = kw['_returns'].customize(type_name=kw['_returns'].get_type_name() + 'Alt')
    pats = [HttpPattern(addr, verb=None if v is None else '|'.join(v)) for v, addr in m.get('patterns') or []]
    if len(pats) == 1 and m.get('pattern1'):
        kw['_pattern'] = pats[0]
    elif pats:
        kw['_patterns'] = pats
    params = [Unicode] if (m.get('barearg') or m.get('marg')) else []
    dec = mrpc if member else (rpc if m.get('ctx') else srpc)
    return dec(*params, **kw)(_mkfunc(m['fid'], m['func'], calls, m, member))


def make_services(spec, order, calls):
    """fresh Service (and ComplexModel) subclasses for one Application (spyne mutates descriptors while building
    an interface)"""
    from spyne import Service, ComplexModel, Integer
    from spyne.model.fault import Fault
    from spyne.auxproc.sync import SyncAuxProc
    env = {'classes': []}
    env['Hdr'] = type('C11Hdr', (ComplexModel,), {'__module__': 'c11models', 'token': Integer})
    env['Flt'] = type('C11Flt', (Fault,), {'__module__': 'c11models'})
    for c in spec.get('classes') or []:
        d = {'__module__': 'c11models', 'i': Integer}
        if c.get('ns') is not None:
            d['__namespace__'] = c['ns']
        for m in c['methods']:
            d[m['func']] = _decorate(m, calls, env, member=True)
        env['classes'].append(type(c['name'], (ComplexModel,), d))
    out = []
    for i in order:
        s = spec['services'][i]
        d = {'__module__': s['mod']}
        if s['aux']:
            d['__aux__'] = SyncAuxProc()
        if s.get('keymod') is not None:
            d['__service_module__'] = s['keymod']
        if s.get('clsname') is not None:              # the class is called differently from the service
            d['__service_name__'] = s['name']
        for m in s['methods']:
            d[m['func']] = _decorate(m, calls, env)
        out.append(type(s.get('clsname') or s['name'], (Service,), d))
    return out, env


def proto_pair(proto):
    from spyne.protocol.http import HttpRpc
    from spyne.protocol.json import JsonDocument
    from spyne.protocol.yaml import YamlDocument
    from spyne.protocol.msgpack import MessagePackDocument, MessagePackRpc
    from spyne.protocol.xml import XmlDocument
    from spyne.protocol.soap import Soap11, Soap12
    cls = {'http': HttpRpc, 'json': JsonDocument, 'yaml': YamlDocument, 'msgpack': MessagePackDocument,
           'msgpackrpc': MessagePackRpc, 'xml': XmlDocument, 'soap11': Soap11, 'soap12': Soap12}.get(proto)
    if cls is None:
        return None, None
    return cls(), cls()


class Built:
    """one real Application (+ transport) for a spec in a given listing order and protocol"""

    def __init__(self, spec, order, proto):
        from spyne import Application
        self.spec, self.order, self.proto = spec, list(order), proto
        self.calls, self.faults, self.wsdl_hits = [], [], []
        self.error = None          # ('decl'|'build'|'transport', exception class name)
        self.app = self.server = None
        try:
            svcs, self.env = make_services(spec, order, self.calls)
        except Exception as e:
            self.error = ('decl', type(e).__name__)
            return
        inp, outp = proto_pair(proto)
        try:
            self.app = Application(svcs, spec['tns'], in_protocol=inp, out_protocol=outp, classes=list(self.env['classes']))
        except Exception as e:
            self.error = ('build', type(e).__name__)
            return
        self.app.event_manager.add_listener('method_exception_object', self._on_fault)
        try:
            if proto == 'null':
                from spyne.server.null import NullServer
                self.server = NullServer(self.app)
            else:
                from spyne.server.wsgi import WsgiApplication
                self.server = WsgiApplication(self.app)
                self.server.event_manager.add_listener('wsdl', self._on_wsdl)
                self.server.event_manager.add_listener('wsdl_exception', self._on_wsdl)
        except Exception as e:
            self.error = ('transport', type(e).__name__)

    def _on_wsdl(self, ctx):
        self.wsdl_hits.append(1)

    def _on_fault(self, ctx):
        self.faults.append(str(getattr(ctx.out_error, 'faultcode', type(ctx.out_error).__name__)))

    # -- observations on the built application
    def routes(self):
        return [[k, [getattr(d.function, '_fid', -1) for d in v]]
                for k, v in self.app.interface.service_method_map.items()]

    def names(self):
        res = []
        from spyne.model.complex import ComplexModelBase
        owners = list(self.app.services)
        for s in owners:
            for d in s.public_methods.values():
                keyed = isinstance(d.in_message, type) and issubclass(d.in_message, ComplexModelBase)
                res.append([getattr(d.function, '_fid', -1), d.name, d.in_message.get_namespace() if keyed else '',
                            d.out_message.get_type_name(), d.out_message.get_namespace()])
        for c in self.env['classes']:                 # member methods are routed after the service methods
            for d in (c.Attributes.methods or {}).values():
                res.append([getattr(d.function, '_fid', -1), d.name, d.in_message.get_namespace(),
                            d.out_message.get_type_name(), d.out_message.get_namespace()])
        return res

    def patterns(self):
        return [[p.address, getattr(p.endpoint.function, '_fid', -1)] for p in self.server._http_patterns]

    # -- one request
    def request(self, r):
        del self.calls[:]
        del self.faults[:]
        del self.wsdl_hits[:]
        status, exc = [], None
        try:
            if self.proto == 'null':
                from spyne.model.fault import Fault
                try:
                    if r[0] == 'mnull':       # a member method needs its instance (and its argument, if it has one)
                        self.server.service[r[1]](*([self.env['classes'][r[2]](i=1)] + (['x'] if r[3] else [])))
                    else:
                        self.server.service[r[1]]()
                except Fault as e:
                    self.faults.append(str(e.faultcode))
            else:
                env = self._environ(r)

                def sr(st, headers, exc_info=None):
                    status.append(st)
                for _ in self.server(env, sr):
                    pass
        except Exception as e:
            exc = type(e).__name__
        if self.wsdl_hits and not self.calls and not self.faults and not exc:
            return 'wsdl', (status[0] if status else None)      # the WSDL handler took the request
        return canon_resp(list(self.calls), list(self.faults), exc), (status[0] if status else None)

    def _environ(self, r):
        import json
        body, path, verb, ctype, query = b'', '/', 'POST', 'text/xml; charset=utf-8', ''
        p = self.proto
        if r[0] in ('http', 'mhttp'):
            verb, path = r[1], r[2]
            query = r[3] if len(r) > 3 else ''
        elif r[0] == 'soap':
            def ser(t):
                ns, loc, cs = t
                return '<p:%s xmlns:p="%s">%s</p:%s>' % (loc, ns, ''.join(ser(c) for c in cs), loc) if ns is not None else \
                    '<%s xmlns="">%s</%s>' % (loc, ''.join(ser(c) for c in cs), loc)
            body = ser(r[2]).encode('utf8')
            if p == 'soap12':
                ctype = 'application/soap+xml; charset=utf-8'
        elif r[0] == 'keys':
            doc = {n: {} for n in r[1]}
            if p == 'json':
                body, ctype = json.dumps(doc).encode('utf8'), 'application/json'
            elif p == 'yaml':
                import yaml
                body, ctype = yaml.safe_dump(doc, allow_unicode=True).encode('utf8'), 'text/yaml'
            else:
                import msgpack
                body, ctype = msgpack.packb(doc), 'application/x-msgpack'
        elif r[0] == 'pkey':
            body, ctype = json.dumps({r[1]: {}}).encode('utf8'), 'application/json'
        elif r[0] == 'mkey':
            doc = {r[1]: {'self': {'i': 1}, 's': 'x'}}
            if p == 'json':
                body, ctype = json.dumps(doc).encode('utf8'), 'application/json'
            elif p == 'yaml':
                import yaml
                body, ctype = yaml.safe_dump(doc, allow_unicode=True).encode('utf8'), 'text/yaml'
            else:
                import msgpack
                body, ctype = msgpack.packb(doc), 'application/x-msgpack'
        elif r[0] == 'mrpc':
            import msgpack
            body, ctype = msgpack.packb([0, 1, r[1], [{'i': 1}, 'x'] if r[2] else [{'i': 1}]]), 'application/x-msgpack'
        elif r[0] == 'key':
            if p == 'json':
                body, ctype = json.dumps({r[1]: {}}).encode('utf8'), 'application/json'
            elif p == 'yaml':
                import yaml
                body, ctype = yaml.safe_dump({r[1]: {}}, allow_unicode=True).encode('utf8'), 'text/yaml'
            elif p == 'msgpack':
                import msgpack
                body, ctype = msgpack.packb({r[1]: {}}), 'application/x-msgpack'
        elif r[0] == 'rpc':
            import msgpack
            body, ctype = msgpack.packb([0, 1, r[1], []]), 'application/x-msgpack'
        elif r[0] == 'rpcb':
            import msgpack
            body, ctype = msgpack.packb([0, 1, bytes(r[1]), []], use_bin_type=True), 'application/x-msgpack'
        elif r[0] == 'keyb':
            import msgpack
            body, ctype = msgpack.packb({bytes(r[1]): {}}, use_bin_type=True), 'application/x-msgpack'
        elif r[0] == 'rawkey':
            if p == 'json':
                body, ctype = b'{"' + bytes(r[1]) + b'": {}}', 'application/json'
            else:
                body, ctype = b'"' + bytes(r[1]) + b'": {}\n', 'text/yaml'
        elif r[0] == 'rawtag':
            el = b'<' + bytes(r[2]) + (b'' if r[1] is None else b' xmlns="' + r[1].encode('utf8') + b'"') + b'/>'
            if p == 'soap11':
                el = b'<e:Envelope xmlns:e="http://schemas.xmlsoap.org/soap/envelope/"><e:Body>' + el + b'</e:Body></e:Envelope>'
            elif p == 'soap12':
                el = b'<e:Envelope xmlns:e="http://www.w3.org/2003/05/soap-envelope"><e:Body>' + el + b'</e:Body></e:Envelope>'
                ctype = 'application/soap+xml; charset=utf-8'
            body = el
        elif r[0] in ('tag', 'mtag', 'btag'):
            ns, loc = r[1], r[2]
            inner = {'tag': '', 'mtag': '<self><i>1</i></self><s>x</s>', 'btag': 'text'}[r[0]]
            el = '<%s%s>%s</%s>' % (loc, '' if ns is None else ' xmlns="%s"' % ns, inner, loc) if inner else \
                '<%s%s/>' % (loc, '' if ns is None else ' xmlns="%s"' % ns)
            if p == 'soap11':
                el = '<e:Envelope xmlns:e="http://schemas.xmlsoap.org/soap/envelope/"><e:Body>%s</e:Body></e:Envelope>' % el
            elif p == 'soap12':
                el = '<e:Envelope xmlns:e="http://www.w3.org/2003/05/soap-envelope"><e:Body>%s</e:Body></e:Envelope>' % el
                ctype = 'application/soap+xml; charset=utf-8'
            body = el.encode('utf8')
        return {'PATH_INFO': path, 'SERVER_NAME': 'localhost', 'SERVER_PORT': '80', 'REQUEST_METHOD': verb,
                'QUERY_STRING': query, 'CONTENT_TYPE': ctype, 'CONTENT_LENGTH': str(len(body)),
                'wsgi.url_scheme': 'http', 'wsgi.input': BytesIO(body)}


def canon_resp(calls, faults, exc):
    if exc:
        return {'crash': exc, 'calls': calls}
    if calls and not faults:
        return {'ran': calls}
    if not calls and faults == ['Client.ResourceNotFound']:
        return 'Client.ResourceNotFound'
    if not calls and len(faults) == 1 and faults[0].startswith('Client.'):
        return 'Client.fault'          # some other client fault (e.g. a name that cannot be decoded), nothing ran
    return {'other': {'calls': calls, 'faults': faults}}


def build_outcome(spec, order):
    """canonical outcome of constructing the application in this listing order (default protocols)"""
    b = Built(spec, order, 'null')
    if b.error:
        return b, {b.error[0] + '_error': b.error[1]}
    return b, {'routes': [[cps(k), v] for k, v in b.routes()],
               'names': [[f, cps(n), cps(ins or ''), cps(on), cps(ons or '')] for f, n, ins, on, ons in b.names()]}


SOAP_ENV = {'soap11': 'http://schemas.xmlsoap.org/soap/envelope/', 'soap12': 'http://www.w3.org/2003/05/soap-envelope'}
SOAP_VARIANTS = ['H1', 'H2', 'H3', 'H4', 'H5', 'H6', 'H7', 'H8', 'H9', 'H10']


def soap_request(proto, ns, n, o, variant):
    """a SOAP envelope whose own Body names `n`, decorated with soap-env elements elsewhere that name `o`"""
    E = SOAP_ENV[proto]
    el = lambda name, *cs: (ns, name, tuple(cs))
    env = lambda *cs: (E, 'Envelope', tuple(cs))
    hdr = lambda *cs: (E, 'Header', tuple(cs))
    bdy = lambda *cs: (E, 'Body', tuple(cs))
    doc = {
        'H1': env(hdr(el('relay', bdy(el(o)))), bdy(el(n))),                    # a relayed message inside a header block
        'H2': env(hdr(bdy(el(o))), bdy(el(n))),                                 # a Body directly inside the Header
        'H3': env(hdr(el('quote', env(hdr(), bdy(el(o))))), bdy(el(n))),        # a whole quoted envelope
        'H4': env(el('ext', bdy(el(o))), bdy(el(n))),                           # a foreign first block with a Body inside
        'H5': env(bdy(el(n)), bdy(el(o))),                                      # two Body children: the first counts
        'H6': env(hdr(el('relay', bdy(el(o))))),                                # no Body of its own
        'H7': env(hdr(), bdy()),                                                # an empty Body
        'H8': env(bdy(el(n), el(o))),                                           # two elements in the Body: the first counts
        'H9': env(hdr(hdr(bdy(el(o)))), hdr(el('x', env(bdy(el(o))))), bdy(el(n))),
        'H10': env(hdr(el('relay', bdy(el(o), el(n)))), bdy(el(n, bdy(el(o))))),  # a Body nested below the method element
    }[variant]
    return ('soap', E, doc)


def soap_named(r, tns):
    """the element that names the method: first child of the Envelope's own Body child (None: there is none)"""
    E, doc = r[1], r[2]
    if (doc[0], doc[1]) != (E, 'Envelope'):
        return None
    for c in doc[2]:
        if (c[0], c[1]) == (E, 'Body'):
            return (c[2][0][0], c[2][0][1]) if c[2] else None
    return None


# ------------------------------------------------------------------------------------ T1 facts
def _svc(name, methods, aux=False, mod='m'):
    return {'mod': mod, 'name': name, 'aux': aux, 'methods': methods}


W_AUXFIRST = {'tns': 'tns', 'services': [_svc('X', [{'fid': 2, 'func': 'foo'}], aux=True), _svc('A', [{'fid': 1, 'func': 'foo'}])]}
W_IFACEDUP = {'tns': 'tns', 'services': [_svc('S', [{'fid': 1, 'func': 'foo'}]),
                                         _svc('S', [{'fid': 2, 'func': 'bar', 'in': '{%s}foo' % OTHER_NS}])]}
W_PLAIN = {'tns': 'tns', 'services': [_svc('A', [{'fid': 1, 'func': 'foo'}])]}
W_PATDUP = {'tns': 'tns', 'services': [_svc('A', [{'fid': 1, 'func': 'foo', 'patterns': [[['GET'], '/same']]},
                                                   {'fid': 2, 'func': 'bar', 'patterns': [[['GET'], '/same']]}])]}


def measure_facts():
    import spyne.const
    f = {'requestSuffix': spyne.const.REQUEST_SUFFIX, 'responseSuffix': spyne.const.RESPONSE_SUFFIX}
    b = Built(W_AUXFIRST, [0, 1], 'null')
    if b.error == ('build', 'TypeError'):
        f['auxFirst'] = 'typeError'
    elif b.error is None and b.routes() == [['{tns}foo', [1, 2]]]:
        f['auxFirst'] = 'insertFront'
    else:
        f['auxFirst'] = 'other'
    b = Built(W_IFACEDUP, [0, 1], 'null')
    if b.error == ('build', 'ValueError'):
        f['ifaceDup'] = 'reject'
    elif b.error is None and b.routes() == [['{tns}foo', [1]]]:
        f['ifaceDup'] = 'silentSkip'
    else:
        f['ifaceDup'] = 'other'
    b = Built(W_PLAIN, [0], 'null')
    r = [b.request(('null', n))[0] for n in ('foo', '{tns}foo', '{%s}foo' % OTHER_NS, 'fo')]
    ok, nf = {'ran': [1]}, 'Client.ResourceNotFound'
    f['qualify'] = {(0, 0): 'unlessBrace', (0, 1): 'always', (1, 0): 'never'}.get(
        (int(r[0] != ok), int(r[1] != ok)), 'other') if r[2] == nf else 'other'
    f['emptyIsNotFound'] = r[3] == nf
    b = Built(W_PLAIN, [0], 'json')
    r = [b.request(('key', n))[0] for n in ('foo', '{tns}foo')]
    b2 = Built(W_PLAIN, [0], 'msgpackrpc')
    r2 = [b2.request(('rpc', n))[0] for n in ('foo', '{tns}foo')]
    b3 = Built(W_PLAIN, [0], 'http')
    r3 = [b3.request(('http', 'GET', p))[0] for p in ('/a/foo', '/a/{tns}foo')]
    f['docPrefixesTns'] = all(x == [ok, nf] for x in (r, r2, r3))
    bn = []
    for proto, kind in (('msgpackrpc', 'rpcb'), ('msgpack', 'keyb')):
        bb = Built(W_PLAIN, [0], proto)
        bn.append([bb.request((kind, tuple(x)))[0] for x in (b'foo', b'foo\xff', b'\xfefoo', b'\xc1\xa6oo', b'fo')])
    if all(x[0] == ok and all(y in ('Client.fault', nf) for y in x[1:4]) and x[4] == nf for x in bn):
        f['binNames'] = 'strictUtf8'
    elif any(isinstance(y, dict) and y.get('ran') for x in bn for y in x[1:4]):
        f['binNames'] = 'lossy'
    else:
        f['binNames'] = 'other'
    # the transport's decision before dispatch: request for the interface document, or RPC
    bw = Built(W_PLAIN, [0], 'http')

    def isw(verb, path, qs):
        try:
            return bool(bw.server.is_wsdl_request({'REQUEST_METHOD': verb, 'PATH_INFO': path, 'QUERY_STRING': qs}))
        except Exception:
            return None
    obs = tuple(isw('GET', p_, '') for p_ in WSDL_PATH_PROBES)
    f['wsdlPath'] = ('dotWsdlSuffix' if obs == tuple(p_.endswith('.wsdl') for p_ in WSDL_PATH_PROBES) else
                     'wsdlSuffix' if obs == tuple(p_.endswith('wsdl') for p_ in WSDL_PATH_PROBES) else 'other')
    obs = tuple(isw('GET', '/', q_) for q_ in WSDL_QUERY_PROBES)
    f['wsdlQuery'] = 'firstName' if obs == tuple(q_.split('=')[0].lower() == 'wsdl' for q_ in WSDL_QUERY_PROBES) else 'other'
    f['wsdlGetOnly'] = all(isw(v_, p_, q_) == (v_.upper() == 'GET') for v_ in WSDL_VERB_PROBES
                           for p_, q_ in (('/x.wsdl', ''), ('/', 'wsdl')))
    # member methods, mixed service definitions, documents naming several methods
    b = Built(W_MEMBER, [0], 'json')
    f['memberKeyPrefixed'] = (b.error is None and [k for k, _ in b.routes()] == ['{tns}getDoc', '{tns}Doc.rename', '{tns}Doc.doit']
                              and b.request(('mkey', 'Doc.rename'))[0] == {'ran': [2]})
    b = Built(W_MIXED, [0], 'null')
    f['mixedAuxRefused'] = b.error is not None and b.error[0] == 'decl'
    b = Built(W_PLAIN2, [0], 'json')
    f['docSingleKey'] = (b.request(('keys', ['foo', 'bar']))[0] == 'Client.fault' and b.request(('keys', []))[0] == 'Client.fault'
                         and b.request(('keys', ['foo']))[0] == ok)
    f['protoSingleApp'] = all(protocol_reuse('json', t_, n_, sl_)[0] is not None
                              for t_, n_, sl_ in (('tns', None, 'in'), ('tns', None, 'out'), ('urn:other', None, 'in'), ('tns', 'Other', 'in')))
    b = Built(W_NOADDR, [0], 'http')
    adr = None if b.error else [p_.address for p_ in b.server._http_patterns]
    f['patternDefault'] = {('/fetch',): 'publicName', ('/get_thing',): 'functionName'}.get(tuple(adr or ()), 'other')
    sb = []
    for proto in ('soap11', 'soap12'):
        b = Built(W_PLAIN2, [0], proto)
        sb.append(b.request(soap_request(proto, 'tns', 'foo', 'bar', 'H1'))[0])
    f['soapBody'] = 'directChild' if sb == [{'ran': [1]}] * 2 else ('anyDescendant' if {'ran': [2]} in sb else 'other')
    b = Built(W_PATDUP, [0], 'http')
    f['patternDup'] = 'reject' if b.error == ('transport', 'ValueError') else ('arbitrary' if b.error is None else 'other')
    return f


WSDL_PATH_PROBES = ['/x.wsdl', '/xwsdl', '/wsdl', '/refresh_wsdl', '/x.WSDL', '/x.wsdl/', '/.wsdl', '/x.wsdlx', '/a.wsdl/b', '/',
                    '', '/a/b.wsdl', '/getWSDL', '/x_wsdl', '/xwsd']
WSDL_QUERY_PROBES = ['wsdl', 'WSDL', 'Wsdl=1&a=2', 'wsdl=', 'a=1&wsdl', 'a=x.wsdl', 'a=wsdl', 'wsdl&a=1', 'xwsdl', 'wsdlx=1', '',
                     'a=1', 'a=1&b=WSDL', 'wsdl=1&a=wsdl', 'a.wsdl=1', 'b=2&wsdl=1', '.wsdl']
WSDL_VERB_PROBES = ['GET', 'get', 'Get', 'HEAD', 'DELETE', 'POST', 'GETX', 'OPTIONS', '']
W_MEMBER = {'tns': 'tns', 'services': [_svc('A', [{'fid': 1, 'func': 'getDoc', 'returns': 0}])],
            'classes': [{'name': 'Doc', 'methods': [{'fid': 2, 'func': 'rename'}, {'fid': 3, 'func': 'other', 'in': 'doit'}]}]}
W_MIXED = {'tns': 'tns', 'services': [_svc('A', [{'fid': 1, 'func': 'foo', 'auxown': True}, {'fid': 2, 'func': 'bar'}])]}
W_PLAIN2 = {'tns': 'tns', 'services': [_svc('A', [{'fid': 1, 'func': 'foo'}, {'fid': 2, 'func': 'bar'}])]}
W_NOADDR = {'tns': 'tns', 'services': [_svc('Things', [{'fid': 1, 'func': 'get_thing', 'in': 'fetch', 'patterns': [[['GET'], None]]}])]}
W_WSDLNAME = {'tns': 'tns', 'services': [_svc('A', [{'fid': 1, 'func': 'refresh_wsdl'}, {'fid': 2, 'func': 'wsdl'}])]}

GOOD = {'auxFirst': 'insertFront', 'ifaceDup': 'reject', 'qualify': 'unlessBrace', 'docPrefixesTns': True,
        'emptyIsNotFound': True, 'patternDup': 'reject', 'binNames': 'strictUtf8',
        'wsdlPath': 'dotWsdlSuffix', 'wsdlQuery': 'firstName', 'wsdlGetOnly': True,
        'memberKeyPrefixed': True, 'mixedAuxRefused': True, 'docSingleKey': True,
        'patternDefault': 'publicName', 'soapBody': 'directChild', 'protoSingleApp': True}
FACT_WITNESS = {
    'auxFirst': ('an auxiliary service listed before the primary service of the same method name',
                 {'spec': W_AUXFIRST, 'order': [0, 1], 'other_order': [1, 0]}),
    'ifaceDup': ('two service classes with one name in one module whose methods have one public name',
                 {'spec': W_IFACEDUP, 'order': [0, 1], 'other_order': [1, 0]}),
    'qualify': ('NullServer call of foo / {tns}foo / {other}foo', {'spec': W_PLAIN, 'order': [0], 'proto': 'null',
                                                                  'request': ['null', '{tns}foo']}),
    'docPrefixesTns': ('JSON key {tns}foo', {'spec': W_PLAIN, 'order': [0], 'proto': 'json', 'request': ['key', '{tns}foo']}),
    'emptyIsNotFound': ('unknown name fo', {'spec': W_PLAIN, 'order': [0], 'proto': 'null', 'request': ['null', 'fo']}),
    'binNames': ("a method name sent as msgpack bin that is not valid UTF-8 (b'foo\\xff', b'\\xfefoo', overlong b'\\xc1\\xa6oo')",
                 {'spec': W_PLAIN, 'order': [0], 'proto': 'msgpackrpc', 'request': ['rpcb', [0x66, 0x6F, 0x6F, 0xFF]]}),
    'wsdlPath': ("GET /refresh_wsdl (no query string, no '.wsdl' extension) on HttpRpc/WsgiApplication: the method must run, not the WSDL handler",
                 {'spec': W_WSDLNAME, 'order': [0], 'proto': 'http', 'request': ['http', 'GET', '/refresh_wsdl', '']}),
    'wsdlQuery': ('GET /refresh_wsdl?a=1&wsdl', {'spec': W_WSDLNAME, 'order': [0], 'proto': 'http',
                                                 'request': ['http', 'GET', '/refresh_wsdl', 'a=1&wsdl']}),
    'wsdlGetOnly': ('HEAD /wsdl?wsdl', {'spec': W_WSDLNAME, 'order': [0], 'proto': 'http', 'request': ['http', 'HEAD', '/wsdl', 'wsdl']}),
    'memberKeyPrefixed': ("the @mrpc method Doc.rename must answer to '{tns}Doc.rename' (and Doc.other(_in_message_name='doit') to '{tns}Doc.doit')",
                          {'spec': W_MEMBER, 'order': [0], 'proto': 'json', 'request': ['mkey', 'Doc.rename']}),
    'mixedAuxRefused': ('a service definition with a primary and an auxiliary method must be refused', {'spec': W_MIXED, 'order': [0]}),
    'docSingleKey': ('a JSON document with two keys (naming two methods) must run nothing',
                     {'spec': W_PLAIN2, 'order': [0], 'proto': 'json', 'request': ['keys', ['foo', 'bar']]}),
    'protoSingleApp': ('the in_protocol instance of one Application handed to a second, different Application (same tns and name) must be refused; '
                       'otherwise requests to the first application are looked up in the second one',
                       {'op': 'protocol-reuse', 'proto': 'json', 'tns2': 'tns', 'name2': None, 'slot': 'in'}),
    'patternDefault': ("HttpPattern(verb='GET') without an address on get_thing(_in_message_name='fetch') must answer GET /fetch, and GET /get_thing must be not-found",
                       {'spec': W_NOADDR, 'order': [0], 'proto': 'http', 'request': ['http', 'GET', '/get_thing', '']}),
    'soapBody': ('a SOAP request for foo whose Header relays a message with a Body naming bar must run foo',
                 {'spec': W_PLAIN2, 'order': [0], 'proto': 'soap11', 'request': list(soap_request('soap11', 'tns', 'foo', 'bar', 'H1'))}),
    'patternDup': ('one HttpPattern (GET /same) bound to two methods is accepted; which one answers depends on the '
                   'iteration order of a set of id-hashed objects',
                   {'spec': W_PATDUP, 'order': [0], 'proto': 'http', 'request': ['http', 'GET', '/same']}),
}


def lean_text(s):
    return '[' + ', '.join('Char.ofNat %d' % ord(c) for c in s) + ']'


def facts_lean(f):
    b = lambda x: 'true' if x else 'false'
    return '''-- GENERATED by harness/c11.py (T1) from /repo on every run. Do not edit.
import SpyneModel.Dispatch
namespace SpyneModel.Generated
open SpyneModel SpyneModel.Dispatch

def facts11 : Facts11 where
  requestSuffix := %s
  responseSuffix := %s
  auxFirst := .%s
  ifaceDup := .%s
  qualify := .%s
  docPrefixesTns := %s
  emptyIsNotFound := %s
  patternDup := .%s
  binNames := .%s
  wsdlPath := .%s
  wsdlQuery := .%s
  wsdlGetOnly := %s
  memberKeyPrefixed := %s
  mixedAuxRefused := %s
  docSingleKey := %s
  patternDefault := .%s
  protoSingleApp := %s
  soapBody := .%s

end SpyneModel.Generated
''' % (lean_text(f['requestSuffix']), lean_text(f['responseSuffix']), f['auxFirst'], f['ifaceDup'], f['qualify'],
       b(f['docPrefixesTns']), b(f['emptyIsNotFound']), f['patternDup'], f['binNames'],
       f['wsdlPath'], f['wsdlQuery'], b(f['wsdlGetOnly']),
       b(f['memberKeyPrefixed']), b(f['mixedAuxRefused']), b(f['docSingleKey']),
       f['patternDefault'], b(f['protoSingleApp']), f['soapBody'])


# ------------------------------------------------------------------------------------ generators
WORDS = ['foo', 'bar', 'get', 'item', 'ping']
CONFUSABLE = {'o': 'о', 'a': 'а', 'e': 'е', 'i': 'і', 'p': 'р'}    # Cyrillic look-alikes


WSDLISH = ['wsdl', 'refresh_wsdl', 'getWSDL', 'x.wsdl', 'wsdlx', 'Wsdl', 'svc.wsdl', 'wsdl.']   # names an interface-document
# request could be confused with


def confuse(w):
    for i, c in enumerate(w):
        if c in CONFUSABLE:
            return w[:i] + CONFUSABLE[c] + w[i + 1:]
    return w + '​'


def near_misses(w):
    """names differing from w by case, by one character, by a prefix or a suffix"""
    res = [w.swapcase(), w.capitalize(), w.upper(), w.lower(), w + 'x', 'x' + w, w + '_', '_' + w, w[:-1], w[1:],
           w + w, w + '1', w + '.', w + ' ', ' ' + w, confuse(w), w + 'Response', w + '}', w + '.' + w]
    return [x for x in dict.fromkeys(res) if x and x != w]


def byte_near_misses(w):
    """byte strings that are NOT the UTF-8 encoding of w but decode to w under a lossy or lenient decoder, or are
    one byte away from it: invalid bytes inserted, overlong forms, NUL, surrogates, truncated sequences, BOM"""
    e = w.encode('utf8')
    c = e[0]
    res = [e + b'\xff', b'\xfe' + e, e[:len(e) // 2] + b'\xff' + e[len(e) // 2:], e + b'\x80', b'\xbf' + e,
           e + b'\x00', b'\x00' + e, e + b'\xc3', e + b'\xe2\x82', e + b'\xf0\x9f\x98',
           e + b'\xed\xa0\x80', e + b'\xed\xb0\x80', e + b'\xf4\x90\x80\x80', e + b'\xf8\x88\x80\x80\x80',
           b'\xef\xbb\xbf' + e, e + b'\xc2\xa0', e + b'\xe2\x80\x8b', e.upper() if e.upper() != e else e.lower()]
    if c < 0x80:    # overlong 2-, 3- and 4-byte forms of the first character
        res += [bytes([0xC0 | (c >> 6), 0x80 | (c & 0x3F)]) + e[1:],
                bytes([0xE0, 0x80 | (c >> 6), 0x80 | (c & 0x3F)]) + e[1:],
                bytes([0xF0, 0x80, 0x80 | (c >> 6), 0x80 | (c & 0x3F)]) + e[1:]]
    try:
        res.append(w.encode('latin-1') if w.encode('latin-1') != e else w.encode('utf-16-le'))
    except UnicodeEncodeError:
        res.append(w.encode('utf-16-le'))
    return [x for x in dict.fromkeys(res) if x != e]


def strict_text(bs):
    try:
        return bytes(bs).decode('utf-8')
    except UnicodeDecodeError:
        return None


def xml_safe(s):
    return re.fullmatch(r'[^\W\d][\w.\-]*', s) is not None and '​' not in s


def ns_safe(s):
    return all(c not in s for c in '"<>&\'{} ') and s != ''


def path_safe(s):
    return '/' not in s and '?' not in s


LIT = 'abcxyz019_-'


def gen_address(rng, used_names):
    segs, holes = [], 0
    for _ in range(rng.randrange(1, 4)):
        k = rng.random()
        if k < 0.55:
            segs.append(''.join(rng.choice(LIT) for _ in range(rng.randrange(1, 4))))
        elif k < 0.8:
            holes += 1
            segs.append('<h%d>' % holes)
        elif k < 0.9:
            holes += 1
            segs.append('{h%d}' % holes)
        else:
            holes += 1
            segs.append(rng.choice(['a', 'x-', '']) + '<h%d>' % holes + rng.choice(['', 'b', '_z']))
    a = '/'.join(segs)
    return a if rng.random() < 0.2 else '/' + a


# POST/PUT/PATCH make HttpRpc parse a form body with werkzeug, which is not installed here
VERBS = [None, ['GET'], ['HEAD'], ['GET', 'HEAD'], ['DELETE'], ['GET', 'GETX'], ['GETX', 'GET'], ['OPTIONS', 'DELETE']]


def gen_spec(rng, fid0, thorough, http=False):
    tns = rng.choice(['tns', 'urn:app', 'http://example.com/svc', 'T', 'tns.v2'])
    nsvc = rng.choice([1, 2, 2, 3, 3, 4, 4, 5, 6] + ([7, 8] if thorough else []))
    base = rng.sample(WORDS, rng.randrange(1, 4))
    if rng.random() < 0.3:
        base += rng.sample(WSDLISH, rng.randrange(1, 4))
    pool = list(base)
    for w in base:
        nm = near_misses(w)
        pool += rng.sample(nm, min(len(nm), rng.randrange(2, 3 + nsvc)))
    pool = list(dict.fromkeys(pool))
    collide = rng.choice([0.0, 0.05, 0.05, 0.15, 0.4])       # how often a name that is already taken is reused
    svcnames = rng.sample(['A', 'B', 'S', 'Svc', 'a', 'S.x', 'Auxs', 'C', 'D'], rng.choice([2, 4, 9]))
    services, fid, taken, noreuse, used = [], fid0, [], set(), set()
    for _ in range(nsvc):
        aux = rng.random() < 0.3
        methods, funcs = [], set()
        for _ in range(rng.choice([1, 1, 2, 2, 3, 4])):
            free = [n for n in pool if n not in taken]
            if aux and taken and rng.random() < 0.7:
                name = rng.choice(taken)                       # an auxiliary for a name that exists
            elif free and rng.random() >= collide:
                name = rng.choice(free)
            else:
                name = rng.choice(pool)
            if name in noreuse:
                continue
            fresh = name not in used
            m = {'fid': fid, 'func': name}
            k = rng.random()
            if k < 0.15:                      # custom operation name
                m['func'] = rng.choice(['impl', 'handler', 'do_' + name])
                m['op'] = name
            elif k < 0.35:                    # custom in-message name, possibly in a namespace of its own
                m['func'] = rng.choice(['impl', 'handler', 'do_' + name, name])
                m['in'] = rng.choice([name, '{%s}%s' % (OTHER_NS, name), '{%s}%s' % (tns, name)])
            elif k < 0.36:
                m['func'] = 'impl'
                m['op'], m['in'] = name, name + 'In'          # both: rejected by the decorator
            if rng.random() < 0.06 and xml_safe(name):
                # (an out-message name that is not an XML name makes the *response* of XML protocols fail, and
                # auxiliaries are not run after a failed primary - not what this property is about)
                m['out'] = rng.choice([name + 'Out', '{%s}%sResponse' % (OTHER_NS, name), name,
                                       rng.choice([x for x in pool if xml_safe(x)]) + 'Response'])
            if rng.random() < 0.06:
                m['suffix'] = rng.choice(['_v2', '1'])
            if m['func'] in funcs:
                continue
            funcs.add(m['func'])
            used.add(name)
            if not aux:
                taken.append(name)
            if http and not aux and rng.random() < 0.6:
                m['patterns'] = [[rng.choice(VERBS), gen_address(rng, pool)] for _ in range(rng.choice([1, 1, 2]))]
                # (the address is a regular expression and hello() does not escape the name: only names without
                #  regex metacharacters get an address-less pattern, like the explicit addresses - see NOTES)
                if re.fullmatch(r'[A-Za-z0-9_\-]+', declared_name(m) or '.') and rng.random() < (0.6 if (m.get('op') or m.get('in')) else 0.2):
                    m['patterns'][0][1] = None                # no address: HttpPattern.hello() fills in the public name
                if len(m['patterns']) == 1 and rng.random() < 0.4:
                    m['pattern1'] = True                      # `_pattern=` instead of `_patterns=[...]`
            # shapes of the declaration that must not matter for which function a name reaches
            if rng.random() < 0.2:
                m['ctx'] = True                               # @rpc (the function gets the context) instead of @srpc
            if rng.random() < 0.1:
                m['header'] = True                            # _in_header / _out_header
            if rng.random() < 0.1:
                m['throws'] = True                            # _throws
            if rng.random() < 0.08:
                m['bare'] = rng.choice(['bare', 'bare', 'soaprpc', 'soapdoc'])   # _body_style='bare' / _soap_body_style aliases
                if m['bare'] != 'soapdoc' and rng.random() < 0.5 and xml_safe(name) and not aux and fresh:
                    noreuse.add(name)                         # (no auxiliaries for it: only the XML protocols can carry the argument)
                    m['barearg'] = True                       # one primitive argument: the in-message is no generated class
                    m.pop('patterns', None)                   # (only the XML protocols can carry it)
                    m.pop('pattern1', None)
            if not aux and rng.random() < 0.05:
                m['raises'] = rng.choice(['fault', 'error'])  # the function fails after it was entered
            methods.append(m)
            fid += 1
        if methods:
            # service classes of one name in one module happen when services are produced by a factory
            svc = {'mod': rng.choice(['m1', 'm1', 'm2']),
                   'name': rng.choice(svcnames) if rng.random() < 0.5 else 'S%d' % len(services),
                   'aux': aux, 'methods': methods}
            if rng.random() < 0.2:
                svc['clsname'] = 'Cls%d' % len(services)       # __service_name__ differs from the class name
            if rng.random() < 0.1:
                svc['keymod'] = rng.choice(['m1', 'm2', 'km'])  # __service_module__
            k = rng.random()
            if not aux and k < 0.06:
                for m in methods:                             # an auxiliary service by way of `_aux=` on every method
                    m['auxown'] = True
                    m.pop('raises', None)
                    m.pop('patterns', None)                   # (HttpBase looks at the patterns of the primary only)
                    m.pop('pattern1', None)
            elif not aux and k < 0.09 and len(methods) > 1:
                methods[-1]['auxown'] = True                  # primary and auxiliary mixed: refused
                methods[-1].pop('patterns', None)
                methods[-1].pop('pattern1', None)
            services.append(svc)
    spec = {'tns': tns, 'services': services}
    if services and rng.random() < 0.25:
        # ComplexModel classes with @mrpc member methods, reachable through a service method that returns them
        classes = []
        for cname in rng.sample(['Doc', 'Item', 'doc', 'Doc_'], rng.choice([1, 1, 2])):
            ms, funcs = [], set()
            for _ in range(rng.choice([1, 2, 3])):
                f_ = rng.choice([w for w in WORDS + ['rename', 'wsdl']])
                if f_ in funcs:
                    continue
                funcs.add(f_)
                m = {'fid': fid, 'func': f_}
                fid += 1
                k = rng.random()
                if k < 0.2:
                    m['in'] = rng.choice(['doit', cname + '.' + f_ + 'X', 'x.' + f_])
                if rng.random() < 0.1:
                    m['out'] = f_ + 'Out'
                if rng.random() < 0.1:
                    m['raises'] = rng.choice(['fault', 'error'])
                if rng.random() < 0.4:
                    m['marg'] = True                          # one argument besides self
                ms.append(m)
            classes.append({'name': cname, 'methods': ms})
        host = [s_ for s_ in services if not s_['aux'] and not any(m.get('auxown') for m in s_['methods'])]
        if host:
            h = rng.choice(host)
            for ci, c in enumerate(classes):
                h['methods'].append({'fid': fid, 'func': 'get' + c['name'], 'returns': ci})
                fid += 1
                if rng.random() < 0.5:
                    h['methods'].append({'fid': fid, 'func': 'get' + c['name'] + 'Alt', 'returns': ci, 'returns_alt': True})
                    fid += 1
            spec['classes'] = classes
    return spec, fid


def directed_specs():
    S = _svc
    out = []
    f = lambda i, name, **kw: dict({'fid': i, 'func': name}, **kw)
    out.append(('aux-before-primary', W_AUXFIRST))
    out.append(('two-aux-and-primary', {'tns': 'tns', 'services': [S('X', [f(2, 'foo')], aux=True), S('Y', [f(3, 'foo')], aux=True), S('A', [f(1, 'foo'), f(4, 'Foo')])]}))
    out.append(('aux-only', {'tns': 'tns', 'services': [S('X', [f(2, 'foo')], aux=True), S('Y', [f(3, 'foo')], aux=True), S('A', [f(1, 'bar')])]}))
    out.append(('iface-collision', W_IFACEDUP))
    out.append(('iface-collision-aux', {'tns': 'tns', 'services': [S('A', [f(1, 'foo')]), S('X', [f(2, 'foo')], aux=True), S('X', [f(3, 'bar', **{'in': 'foo'})], aux=True)]}))
    out.append(('dup-primary', {'tns': 'tns', 'services': [S('A', [f(1, 'foo')]), S('B', [f(2, 'foo')])]}))
    out.append(('dup-primary-other-ns', {'tns': 'tns', 'services': [S('A', [f(1, 'foo')]), S('B', [f(2, 'bar', **{'in': '{%s}foo' % OTHER_NS})]), S('C', [f(3, 'baz')])]}))
    out.append(('dup-primary-via-op', {'tns': 'tns', 'services': [S('A', [f(1, 'foo')]), S('B', [f(2, 'impl', op='foo', out='implOut')])]}))
    out.append(('class-collision-response', {'tns': 'tns', 'services': [S('A', [f(1, 'foo')]), S('B', [f(2, 'fooResponse')])]}))
    out.append(('class-collision-out', {'tns': 'tns', 'services': [S('A', [f(1, 'foo')]), S('B', [f(2, 'bar', out='foo')])]}))
    out.append(('same-service-twice', {'tns': 'tns', 'services': [S('A', [f(1, 'foo')]), S('A', [f(2, 'foo')])]}))
    out.append(('suffix-separates', {'tns': 'tns', 'services': [S('A', [f(1, 'foo')]), S('A', [f(2, 'foo', suffix='_v2', **{'in': 'foo2'})])]}))
    out.append(('case-variants', {'tns': 'tns', 'services': [S('A', [f(1, 'foo'), f(2, 'Foo'), f(3, 'FOO')]), S('B', [f(4, 'fOo'), f(5, 'foo_'), f(6, '_foo')]), S('X', [f(7, 'Foo')], aux=True)]}))
    out.append(('custom-names', {'tns': 'urn:app', 'services': [S('A', [f(1, 'impl', op='getItem'), f(2, 'handler', **{'in': '{%s}getitem' % OTHER_NS}), f(3, 'x', **{'in': 'x'}), f(4, 'y', **{'in': '{urn:app}GetItem'})])]}))
    out.append(('both-op-and-in', {'tns': 'tns', 'services': [S('A', [f(1, 'impl', op='a', **{'in': 'b'})])]}))
    out.append(('dotted-names', {'tns': 'tns', 'services': [S('S', [f(1, 'x.y')]), S('S.x', [f(2, 'y')]), S('B', [f(3, 'foo}'), f(4, 'foo.')])]}))
    out.append(('dotted-iface-collision', {'tns': 'tns', 'services': [S('S', [f(1, 'x.y')]), S('S.x', [f(2, 'z', **{'in': '{%s}y' % OTHER_NS})])]}))
    out.append(('wsdl-names', {'tns': 'tns', 'services': [S('A', [f(1, 'wsdl'), f(2, 'refresh_wsdl'), f(3, 'status'), f(4, 'x.wsdl')]),
                                                          S('B', [f(5, 'getWSDL'), f(6, 'wsdlx'), f(7, 'impl', op='svc.wsdl')]),
                                                          S('X', [f(8, 'refresh_wsdl'), f(9, 'x.wsdl')], aux=True)]}))
    out.append(('member-methods', {'tns': 'tns', 'services': [S('A', [f(1, 'getDoc', returns=0), f(2, 'getItem', returns=1), f(3, 'rename'), f(10, 'getDocAlt', returns=0, returns_alt=True)]),
                                                              S('X', [f(4, 'rename')], aux=True)],
                                   'classes': [{'name': 'Doc', 'methods': [f(5, 'rename'), f(6, 'other', **{'in': 'doit'}), f(7, 'wsdl', marg=True)]},
                                               {'name': 'Item', 'methods': [f(8, 'rename', marg=True), f(9, 'q', **{'in': 'Item.quux'})]}]}))
    out.append(('member-vs-service-name', {'tns': 'tns', 'services': [S('A', [f(1, 'getDoc', returns=0)]), S('B', [f(2, 'impl', **{'in': '{%s}Doc.rename' % OTHER_NS})])],
                                           'classes': [{'name': 'Doc', 'methods': [f(3, 'rename')]}]}))
    out.append(('member-class-collision', {'tns': 'tns', 'services': [S('A', [f(1, 'getDoc', returns=0)]), S('B', [f(2, 'impl', **{'in': 'Doc.rename'})])],
                                           'classes': [{'name': 'Doc', 'methods': [f(3, 'rename')]}]}))
    out.append(('member-operation-name', {'tns': 'tns', 'services': [S('A', [f(1, 'getDoc', returns=0)])],
                                          'classes': [{'name': 'Doc', 'methods': [f(3, 'rename', op='ren')]}]}))
    out.append(('bare-methods', {'tns': 'tns', 'services': [S('A', [f(1, 'foo', bare='bare'), f(2, 'bar', bare='bare', barearg=True), f(3, 'impl', bare='soaprpc', barearg=True, **{'in': 'baz'}),
                                                                    f(4, 'withctx', ctx=True), f(5, 'h', header=True, throws=True, ctx=True)]),
                                                            S('B', [f(6, 'Bar', bare='bare', barearg=True, ctx=True), f(7, 'impl2', op='qux', bare='bare')]),
                                                            S('X', [f(8, 'foo'), f(9, 'bar')], aux=True)]}))
    out.append(('bare-duplicate', {'tns': 'tns', 'services': [S('A', [f(1, 'bar', bare='bare', barearg=True)]), S('B', [f(2, 'bar', bare='bare', barearg=True, out='barOut')])]}))
    out.append(('mixed-aux', W_MIXED))
    out.append(('aux-by-method', {'tns': 'tns', 'services': [S('A', [f(1, 'foo'), f(2, 'bar')]), S('B', [f(3, 'foo', auxown=True), f(4, 'bar', auxown=True)])]}))
    out.append(('service-name-override', {'tns': 'tns', 'services': [dict(S('S', [f(1, 'foo')]), clsname='K1'), dict(S('S', [f(2, 'bar')]), clsname='K2'),
                                                                     dict(S('T', [f(3, 'baz')]), keymod='km'), dict(S('T', [f(4, 'baz', **{'in': 'bazz'})]), keymod='km2')]}))
    out.append(('service-name-override-dup', {'tns': 'tns', 'services': [dict(S('S', [f(1, 'foo')]), clsname='K1'), dict(S('S', [f(2, 'foo', **{'in': 'foo2'})]), clsname='K2')]}))
    out.append(('service-module-override-dup', {'tns': 'tns', 'services': [dict(S('S', [f(1, 'foo')], mod='m1'), keymod='km'), dict(S('S', [f(2, 'foo', **{'in': 'foo2'})], mod='m2'), keymod='km')]}))
    out.append(('failing-primary', {'tns': 'tns', 'services': [S('A', [f(1, 'foo', raises='fault'), f(2, 'bar', raises='error'), f(3, 'ok')]), S('X', [f(4, 'foo'), f(5, 'bar'), f(6, 'ok')], aux=True)]}))
    out.append(('confusables', {'tns': 'tns', 'services': [S('A', [f(1, 'ping'), f(2, confuse('ping'))]), S('B', [f(3, 'ping​')])]}))
    P = lambda v, a: [v, a]
    out.append(('patterns-basic', {'tns': 'tns', 'services': [S('A', [f(1, 'foo', patterns=[P(['GET'], '/api/foo')]), f(2, 'bar', patterns=[P(None, '/api/<x>')]), f(3, 'baz', patterns=[P(['GET', 'HEAD'], 'rel/{y}/z')])]), S('X', [f(4, 'foo')], aux=True)]}))
    out.append(('patterns-brace-first', {'tns': 'tns', 'services': [S('A', [f(1, 'foo', patterns=[P(None, '/a/b')]), f(2, 'bar', patterns=[P(None, '/a/{x}')]), f(3, 'baz', patterns=[P(None, '/a/<x>c')])])]}))
    out.append(('patterns-verb-prefix', {'tns': 'tns', 'services': [S('A', [f(1, 'foo', patterns=[P(['GET', 'GETX'], '/v')]), f(2, 'bar', patterns=[P(['GETX', 'GET'], '/w')])])]}))
    out.append(('patterns-disjoint-verbs', {'tns': 'tns', 'services': [S('A', [f(1, 'foo', patterns=[P(['GET'], '/r')]), f(2, 'bar', patterns=[P(['DELETE'], '/r')])])]}))
    out.append(('patterns-identical', W_PATDUP))
    out.append(('patterns-overlap-verbs', {'tns': 'tns', 'services': [S('A', [f(1, 'foo', patterns=[P(None, '/r')])]), S('B', [f(2, 'bar', patterns=[P(['GET'], '/r')])])]}))
    out.append(('patterns-one-fragment', {'tns': 'tns', 'services': [S('Docs', [f(1, 'get_doc', patterns=[P(['GET'], '/docs/{name}')]), f(2, 'get_raw', patterns=[P(['GET'], '/docs/{name}/raw')]),
                                                                               f(3, 'get_img', patterns=[P(None, '/img/<name>')]), f(4, 'get_thumb', patterns=[P(None, '/img/<name>/thumb/{size}')]),
                                                                               f(5, 'tail', patterns=[P(['GET'], '/t/{a}-{b}')])])]}))
    out.append(('patterns-no-address', {'tns': 'tns', 'services': [S('Things', [f(1, 'get_thing', patterns=[P(['GET'], None)], **{'in': 'fetch'}), f(2, 'impl', op='list', patterns=[P(None, None)]),
                                                                                f(3, 'plain', patterns=[P(['GET', 'HEAD'], None), P(['DELETE'], '/del/<x>')])]),
                                                                   S('Other', [f(4, 'lookup', **{'in': 'get_thing'}), f(5, 'impl2', **{'in': '{%s}impl' % OTHER_NS})])]}))
    out.append(('patterns-aux-ignored', {'tns': 'tns', 'services': [S('A', [f(1, 'foo', patterns=[P(None, '/p/<x>')])]), S('X', [f(2, 'foo')], aux=True)]}))
    return out


def orders_for(ctx, n):
    """listing orders to try: all for n <= 4 (quick: at most 24), else identity, reverse, rotations and samples"""
    ident = list(range(n))
    if n <= (5 if ctx.thorough else 4):
        return [list(p) for p in itertools.permutations(ident)]
    res = [ident, ident[::-1]] + [ident[i:] + ident[:i] for i in range(1, n)]
    for _ in range(12 if ctx.thorough else 4):
        p = ident[:]
        ctx.rng.shuffle(p)
        res.append(p)
    out = []
    for p in res:
        if p not in out:
            out.append(p)
    return out


# ------------------------------------------------------------------------------------ T3 oracle (independent of the model)
def declared_name(m):
    """the public name the user asked for, in the simple cases (None: not one of them)"""
    if m.get('op') is not None and m.get('in') is not None:
        return None
    n = m.get('in') if m.get('in') is not None else (m.get('op') if m.get('op') is not None else m['func'])
    if n.startswith('{'):
        if '}' not in n:
            return None
        n = n.split('}', 1)[1]
    return n


def spec_info(spec):
    """fid -> what the declaration says about the function"""
    info = {}
    for s in spec['services']:
        for m in s['methods']:
            info[m['fid']] = {'aux': bool(s['aux'] or m.get('auxown')), 'member': None, 'm': m}
    for ci, c in enumerate(spec.get('classes') or []):
        for m in c['methods']:
            info[m['fid']] = {'aux': False, 'member': ci, 'm': m, 'type': c['name']}
    return info


def routing_names(spec, names):
    """(fid, the local name a request has to use) from the names the real descriptors carry; a member method of type T
    answers to 'T.' + message name unless the message name already starts with 'T.'"""
    info = spec_info(spec)
    res = []
    for fid, name in names:
        i = info[fid]
        if i['member'] is not None and name.split('.', 1)[0] != i['type']:
            name = i['type'] + '.' + name
        res.append((fid, name))
    return res


def expected_table(spec, names):
    """public name -> (primary fids, auxiliary fids)"""
    info = spec_info(spec)
    tab = {}
    for fid, name in names:
        p, a = tab.setdefault(name, ([], []))
        (a if info[fid]['aux'] else p).append(fid)
    return tab


def named_by(tab, tns, r):
    """like expected_for, also for names that travel as bytes"""
    if r[0] in ('rpcb', 'keyb'):
        t = strict_text(r[1])
        return t if t in tab else None
    if r[0] in ('rawkey', 'rawtag', 'keys', 'pkey'):
        return None
    if r[0] == 'soap':
        nm_ = soap_named(r, tns)
        return expected_for(tab, tns, ('tag', nm_[0], nm_[1])) if nm_ else None
    return expected_for(tab, tns, r)


def expected_for(tab, tns, r):
    """which public name (or None) a request names, by plain string equality in the target namespace"""
    k = r[0]
    if k in ('mnull', 'mtag', 'mkey', 'mrpc', 'mhttp', 'btag'):
        k = k[1:]
    if k in ('key', 'rpc'):
        n = r[1]
    elif k == 'tag':
        n = r[2] if (r[1] is None or r[1] == tns) else None
    elif k == 'null':
        s = r[1]
        if s.startswith('{'):
            n = s[len(tns) + 2:] if s.startswith('{%s}' % tns) else None
        else:
            n = s
    elif k == 'http':
        n = r[2].split('/')[-1]
    else:
        n = None
    return n if n in tab else None


# ------------------------------------------------------------------------------------ run
PROTOS_KEY = ['json', 'yaml', 'msgpack']
PROTOS_TAG = ['xml', 'soap11', 'soap12']


def requests_for(ctx, spec, names, proto, budget):
    rng = ctx.rng
    tns = spec['tns']
    info = spec_info(spec)
    members = [(f_, n) for f_, n in names if info[f_]['member'] is not None]
    tab_names = set(n for _, n in names)
    # names that need a payload: member methods ('self'); bare methods with an argument only work over XML
    special = set(n for _, n in members) | set(n for f_, n in names if info[f_]['m'].get('barearg'))
    barearg = [n for f_, n in names if info[f_]['m'].get('barearg') and xml_safe(n)]
    reg = list(dict.fromkeys(n for _, n in names if n not in special))
    cand = list(reg)
    for n in reg:
        nm = near_misses(n)
        cand += nm[:4] + rng.sample(nm, min(3, len(nm)))
    cand += [w for w in WORDS if w not in reg][:2]
    cand = list(dict.fromkeys(cand))
    wsdlish = list(dict.fromkeys([n for n in reg if 'wsdl' in n.lower()][:3] + [n0_ + x for n0_ in reg[:1] for x in ('wsdl', '.wsdl', 'WSDL')]
                                 + ['wsdl', 'xwsdl']))
    if len(cand) > budget:
        cand = reg[:budget // 2] + rng.sample([c for c in cand if c not in reg[:budget // 2]], budget - len(reg[:budget // 2]))
    cand = cand + [x for x in wsdlish if x not in cand]
    n0 = reg[0] if reg else 'foo'
    reqs = []
    # byte-level candidates: exact encodings of some registered names and near misses of them
    bcand = []
    for n in reg[:3]:
        bm = byte_near_misses(n)
        bcand += [n.encode('utf8')] + bm[:6] + rng.sample(bm, min(5, len(bm)))
    bcand = [tuple(b) for b in dict.fromkeys(bcand)]
    if proto in PROTOS_KEY:
        reqs = [('key', n) for n in cand] + [('key', '{%s}%s' % (tns, n0)), ('key', '{%s}%s' % (OTHER_NS, n0)), ('key', '')]
        if proto == 'msgpack':
            reqs += [('keyb', b) for b in bcand]
        else:
            reqs += [('rawkey', b) for b in bcand if not any(x in b for x in b'"\\\n\r')]
    elif proto == 'msgpackrpc':
        reqs = [('rpc', n) for n in cand] + [('rpc', '{%s}%s' % (tns, n0)), ('rpc', '{%s}%s' % (OTHER_NS, n0))]
        reqs += [('rpcb', b) for b in bcand]
    elif proto == 'null':
        reqs = [('null', n) for n in cand] + [('null', '{%s}%s' % (ns, n)) for n in cand[:4]
                                              for ns in (tns, OTHER_NS, tns.swapcase(), tns + 'x', tns[:-1])]
        reqs += [('null', '{' + tns + n0), ('null', '{}' + n0)]
    elif proto in PROTOS_TAG:
        safe = [n for n in cand if xml_safe(n)]
        reqs = [('tag', tns, n) for n in safe] + [('tag', None, n) for n in safe[:6]]
        for n in safe[:4]:
            for ns in (OTHER_NS, tns.swapcase(), tns + 'x', tns[:-1], tns + '/'):
                if ns_safe(ns) and ns != tns:
                    reqs.append(('tag', ns, n))
        if ns_safe(tns):
            reqs += [('rawtag', tns, b) for b in bcand if not any(x in b for x in b'<>/ "\'=&')]
        if proto in SOAP_ENV and ns_safe(tns):
            plain = [n for n in safe if n in reg]
            others = [n for n in plain[1:3]] + [(plain[0] if plain else 'foo') + 'x', 'nosuch']
            for n in plain[:2]:
                for o in others[:3]:
                    if o != n:
                        reqs += [soap_request(proto, tns, n, o, v) for v in (SOAP_VARIANTS if n == plain[0] and o == others[0] else rng.sample(SOAP_VARIANTS, 3))]
    # member methods (with an instance as payload) and their near misses; bare methods with a text payload
    mcand = []
    for f_, n in members[:4]:
        ci = info[f_]['member']
        custom_in = info[f_]['m'].get('in') is not None
        nm = near_misses(n)
        for x in [n] + nm[:2] + rng.sample(nm, min(2, len(nm))) + [n.split('.', 1)[-1]]:
            mcand.append((x, ci, custom_in and x == n))
    bare_names = set(n for f_, n in names if info[f_]['m'].get('barearg'))
    marg_of = {n: bool(info[f_]['m'].get('marg')) for f_, n in members}
    mcand = [c for c in dict.fromkeys(mcand) if c[0] not in bare_names]
    if proto in PROTOS_KEY:
        # (a member method with an explicit _in_message_name is routed as 'Type.name' but its document key is 'name':
        #  the dict protocols cannot carry it - see NOTES)
        reqs += [('mkey', x) for x, _, skipdoc in mcand if not skipdoc]
        if proto == 'json':
            reqs += [('pkey', n) for _, n in members[:2]]
        two = list(dict.fromkeys(reg + ['foo', 'bar']))[:2]
        reqs += [('keys', tuple(two)), ('keys', ()), ('keys', (two[0], two[0] + 'x', 'zzz'))]
    elif proto == 'msgpackrpc':
        reqs += [('mrpc', x, marg_of.get(x, False)) for x, _, _ in mcand]
    elif proto == 'null':
        mset = set(n for _, n in members)
        reqs += [('mnull', x, ci, marg_of.get(x, False)) if x in mset or x not in tab_names else ('null', x) for x, ci, _ in mcand]
    elif proto in PROTOS_TAG:
        reqs += [('mtag', tns, x) for x, _, _ in mcand if xml_safe(x) and ns_safe(tns)]
        reqs += [('mtag', OTHER_NS, x) for x, _, _ in mcand[:1] if xml_safe(x)]
        for n in barearg[:3]:
            reqs += [('btag', tns, n), ('btag', tns, n + 'x'), ('btag', OTHER_NS, n)] if ns_safe(tns) else []
    if proto == 'http':
        reqs += [('mhttp', 'GET', '/' + x, 'self.i=1&s=x') for x, _, _ in mcand if path_safe(x)]
    if proto == 'http':
        safe = [n for n in cand if path_safe(n)]
        reqs = [('http', 'GET', rng.choice(['/', '/a/', '/a/b/', '']) + n) for n in safe]
        reqs += [('http', 'GET', '/{%s}%s' % (OTHER_NS.replace('/', ''), n0)), ('http', 'GET', '/%s/' % n0),
                 ('http', 'GET', '/%s/x' % n0)]
        # spyne must not percent-decode (or otherwise normalise) PATH_INFO on its own
        if path_safe(n0):
            reqs += [('http', 'GET', '/' + ''.join('%%%02X' % b for b in n0.encode('utf8'))),
                     ('http', 'GET', '/%%%02X%s' % (ord(n0[0]), n0[1:])), ('http', 'GET', '/' + n0 + '%00'),
                     ('http', 'GET', '/' + n0 + '%FF'), ('http', 'GET', '/' + n0 + '\x00'), ('http', 'GET', '/' + n0 + '\xff'),
                     ('http', 'GET', '/' + n0 + ';x'), ('http', 'GET', '/' + n0 + '%2F')]
        # WSDL request or RPC: query strings, the '.wsdl' extension, verbs
        nw = ([n for n in reg if path_safe(n) and n.lower().endswith('wsdl')] + [n0 if path_safe(n0) else 'foo'])[0]
        reqs += [('http', 'GET', '/' + nw, q) for q in ('wsdl', 'WSDL=1&a=2', 'a=1&wsdl', 'xwsdl', 'wsdl&a=1', 'a=wsdl', 'wsdlx=1')]
        reqs += [('http', v, p_, q) for v, p_, q in (('get', '/' + nw + '.wsdl', ''), ('HEAD', '/' + nw, 'wsdl'), ('GET', '/' + nw + '.wsdl', ''),
                                                    ('GET', '/' + nw + '.WSDL', ''), ('GET', '/x.wsdl/' + nw, ''), ('DELETE', '/' + nw + '.wsdl', ''),
                                                    ('GET', '/a/' + nw, ''), ('get', '/' + nw, ''), ('GET', '/' + nw + 'wsdl', ''))]
        reqs += pattern_requests(ctx, spec)
    # a plain request must not name a method that needs a payload
    def plain_special(r):
        if r[0] in ('key', 'rpc', 'null'):
            return r[1] in special or (r[1].startswith('{%s}' % tns) and r[1][len(tns) + 2:] in special)
        if r[0] == 'tag':
            return r[2] in special and not (r[2] in barearg)
        if r[0] == 'http':
            return r[2].split('/')[-1] in special
        if r[0] in ('rpcb', 'keyb', 'rawkey'):
            return strict_text(r[1]) in special
        if r[0] == 'rawtag':
            return strict_text(r[2]) in special and strict_text(r[2]) not in barearg
        return False
    return [r for r in dict.fromkeys(reqs) if not plain_special(r)]


def fill(rng, addr, near=False):
    """a path that the address pattern is meant to match (holes filled with '/'-free text), or a near miss"""
    def hole(_):
        return ''.join(rng.choice('abz019_-.') for _ in range(rng.randrange(0, 4)))
    p = re.sub(r'<[A-Za-z0-9_]+>|\{[A-Za-z0-9_]+\}', hole, addr)
    if not p.startswith('/') and rng.random() < 0.7:
        p = '/' + p
    if near:
        k = rng.randrange(6)
        if k == 0:
            p = p + rng.choice('/xb')
        elif k == 1 and len(p) > 1:
            p = p[:-1]
        elif k == 2:
            p = p.swapcase()
        elif k == 3:
            p = '/x' + p
        elif k == 4 and len(p) > 2:
            i = rng.randrange(1, len(p))
            p = p[:i] + '/' + p[i:]
        else:
            p = p.replace('/', '//', 1)
    return p


def pattern_requests(ctx, spec):
    rng = ctx.rng
    reqs = []
    for s in spec['services']:
        for m in s['methods']:
            for v, addr in m.get('patterns') or []:
                verbs = (v or ['GET']) + ['GET', 'DELETE', 'GETX', 'GE', 'get']
                if addr is None:
                    # address-less: the public name answers; the function / operation name must not
                    for nm_ in dict.fromkeys([declared_name(m) or m['func'], m['func'], m.get('op') or m['func'], m['func'] + 'x']):
                        if path_safe(nm_):
                            reqs += [('http', (v or ['GET'])[0], '/' + nm_), ('http', rng.choice(verbs), '/a/' + nm_)]
                    continue
                reqs.append(('http', (v or ['GET'])[0], fill(rng, addr)))
                if '<' in addr or '{' in addr:
                    # a placeholder stands for one fragment: a value with a '/' inside, extra fragments before / after
                    wide = re.sub(r'<[A-Za-z0-9_]+>|\{[A-Za-z0-9_]+\}', 'a/b', addr)
                    wide = wide if wide.startswith('/') else '/' + wide
                    one = re.sub(r'<[A-Za-z0-9_]+>|\{[A-Za-z0-9_]+\}', 'v', addr)
                    one = one if one.startswith('/') else '/' + one
                    for pth in (wide, one + '/raw', one + '/x/y', '/pre' + one):
                        reqs.append(('http', (v or ['GET'])[0], pth))
                reqs.append(('http', (v or ['DELETE'])[-1], fill(rng, addr)))
                for _ in range(3):
                    reqs.append(('http', rng.choice(verbs), fill(rng, addr, near=rng.random() < 0.6)))
    return reqs


def ambiguous_patterns(spec):
    """pairs of patterns of different functions that can answer one request line: same address, overlapping verbs"""
    pats = []
    for s in spec['services']:
        for m in s['methods']:
            for v, addr in m.get('patterns') or []:
                if addr is None:
                    addr = declared_name(m) or m['func']
                pats.append((m['fid'], None if v is None else set(v), addr if addr.startswith('/') else '/' + addr))
    res = []
    for (f1, v1, a1), (f2, v2, a2) in itertools.combinations(pats, 2):
        if f1 != f2 and a1 == a2 and (v1 is None or v2 is None or v1 & v2):
            res.append([f1, f2, a1])
    return res


W_REUSE_A = {'tns': 'tns', 'services': [_svc('Public', [{'fid': 1, 'func': 'ping'}, {'fid': 2, 'func': 'both'}])]}
W_REUSE_B = {'tns': 'tns', 'services': [_svc('Admin', [{'fid': 3, 'func': 'wipe'}, {'fid': 4, 'func': 'both'}])]}


def protocol_reuse(proto_name, tns2, name2, slot):
    """give the in-protocol instance of a first application to a second, different Application (as its in- or
    out-protocol): spyne must refuse. If it does not, requests to the FIRST application are what matters."""
    from spyne import Application
    from spyne.server.wsgi import WsgiApplication
    calls = []
    inp, outp = proto_pair(proto_name)
    svcs_a, _ = make_services(W_REUSE_A, [0], calls)
    app_a = Application(svcs_a, 'tns', in_protocol=inp, out_protocol=outp)
    faults = []
    app_a.event_manager.add_listener('method_exception_object', lambda c: faults.append(str(c.out_error.faultcode)))
    server_a = WsgiApplication(app_a)
    svcs_b, _ = make_services(W_REUSE_B, [0], calls)
    kw = {'in_protocol': inp, 'out_protocol': proto_pair(proto_name)[1]} if slot == 'in' else \
         {'in_protocol': proto_pair(proto_name)[0], 'out_protocol': inp}
    try:
        Application(svcs_b, tns2, name=name2, **kw)
        refused = None
    except Exception as e:
        refused = type(e).__name__
    b = Built.__new__(Built)
    b.spec, b.order, b.proto, b.calls, b.faults, b.wsdl_hits, b.error, b.app, b.server, b.env = \
        W_REUSE_A, [0], proto_name, calls, faults, [], None, app_a, server_a, {'classes': []}
    kind = {'json': 'key', 'msgpackrpc': 'rpc', 'http': 'http'}[proto_name]
    mk = (lambda n: ('http', 'GET', '/' + n)) if kind == 'http' else (lambda n: (kind, n))
    return refused, {n: b.request(mk(n))[0] for n in ('ping', 'wipe', 'both')}


def check_protocol_reuse(ctx):
    """T3 (directed, every run): a request must run a method registered in ITS application only"""
    expected = {'ping': {'ran': [1]}, 'wipe': 'Client.ResourceNotFound', 'both': {'ran': [2]}}
    for proto_name in ('json', 'msgpackrpc', 'http'):
        for tns2, name2 in (('tns', None), ('tns', 'Application'), ('urn:other', None), ('tns', 'Other')):
            for slot in ('in', 'out'):
                refused, got = protocol_reuse(proto_name, tns2, name2, slot)
                ctx.case({'op': 'protocol-reuse', 'proto': proto_name, 'tns2': tns2, 'name2': name2, 'slot': slot})
                ctx.hit('protocol-reuse:' + ('refused' if refused else 'accepted'))
                ctx.cov['traces_validated_against_impl'] += 1
                if got != expected:
                    bad = [n for n in expected if got[n] != expected[n]][0]
                    ctx.finding('protocol-reuse:foreign-method', 'the %s protocol instance of an application (ping, both) was also given to a '
                                'second Application(tns=%r, name=%r) with other services (wipe, both) as its %s-protocol (%s); afterwards the request %r '
                                'to the FIRST application was answered with %r instead of %r' % (
                                    proto_name, tns2, name2, slot, 'refused: ' + refused if refused else 'accepted', bad, got[bad], expected[bad]),
                                {'op': 'protocol-reuse', 'proto': proto_name, 'tns2': tns2, 'name2': name2, 'slot': slot, 'got': got})
    return None


def run(ctx):
    logging.disable(logging.CRITICAL)
    # ---- T1
    f = measure_facts()
    ctx.facts = f
    ctx.write_generated('Facts11.lean', facts_lean(f))
    for k, good in GOOD.items():
        if f[k] != good:
            what, wit = FACT_WITNESS[k]
            ctx.hit('fact-bad:' + k)
            ctx.finding('switch:%s=%s' % (k, f[k]), 'behaviour switch %s measured %r (good: %r): %s' % (k, f[k], good, what),
                        dict(wit, fact=k, measured=f[k]))
    for k in ('requestSuffix', 'responseSuffix'):
        ctx.cov['fact:' + k] = f[k]
    # ---- proof
    ctx.prove()

    Q = []          # (query, impl answer, op, meta) for T2

    # ---- cases
    specs = [(tag, spec, True) for tag, spec in directed_specs()]
    fid = 100
    n_rand = 2500 if ctx.thorough else 300
    for i in range(n_rand):
        spec, fid = gen_spec(ctx.rng, fid, ctx.thorough, http=(i % 3 == 0))
        if spec['services']:
            specs.append(('random', spec, False))

    def flush():
        # ---- compare with the model. Done in batches: spyne's MethodContext.close() runs a full gc.collect() once a
        # second, whose cost grows with the number of live query objects
        answers = ctx.model([q for q, _, _, _ in Q])
        for (q, impl, op, meta), mod in zip(Q, answers):
            if 'driver_error' in mod:
                raise core.Infra('driver error: %r on %r' % (mod, q))
            compare(ctx, op, q, impl, mod, meta)
        ctx.cov['model_queries'] = ctx.cov.get('model_queries', 0) + len(Q)
        del Q[:]

    for i, (tag, spec, directed) in enumerate(specs):
        run_spec(ctx, tag, spec, Q, directed)
        if len(Q) >= 4000:
            flush()
        if i % 25 == 24:
            # every ComplexModel subclass (two message classes per method) is kept forever in
            # ComplexModel.Attributes._subclasses; park what has accumulated so that spyne's once-a-second
            # gc.collect() does not walk it again and again
            gc.collect()
            gc.freeze()
        if ctx.thorough and i % 100 == 99:
            ctx.log('specs done: %d/%d, evaluations %d' % (i + 1, len(specs), ctx.cov['evaluations']))

    # ---- one protocol instance, two applications (T3, directed)
    check_protocol_reuse(ctx)

    # ---- standalone address / verb matching (T2 against the real HttpPattern regexes)
    address_cases(ctx, Q)
    flush()

    ctx.cov['rule'] = (
        'cases = (application spec, listing order, protocol, request). Specs: %d directed (aux before/after primary, '
        'interface-key collisions, duplicate primaries incl. via _operation_name/_in_message_name in another namespace, '
        'message-class collisions, case variants, dotted names, confusables, HttpPattern sets) + seeded random specs '
        '(1-6 services, names drawn from 1-2 words and their near misses so that collisions are frequent, custom '
        'operation/in/out message names, aux services, same-named service classes). Every spec is built in all '
        'listing orders (n<=4) or identity/reverse/rotations/samples, on the real Application; accepted specs are '
        'queried through NullServer, XmlDocument, Soap11, Soap12, JsonDocument, YamlDocument, MessagePackDocument, '
        'MessagePackRpc and HttpRpc (WsgiApplication) with every registered name, near misses (case, +-1 char, '
        'prefix, suffix, confusable, other/similar namespace) and pattern-derived paths. distinct = distinct canonical '
        '(spec, order, proto, request); non-trivial = all except requests against single-method applications' % len(directed_specs()))


def run_spec(ctx, tag, spec, Q, directed):
    rng = ctx.rng
    n = len(spec['services'])
    ident = list(range(n))
    orders = orders_for(ctx, n)
    ctx.hit('spec:' + tag)
    ctx.hit('services:%d' % n)
    nontrivial = sum(len(s['methods']) for s in spec['services']) > 1
    amb = ambiguous_patterns(spec)

    # ---- construction in every listing order: T2 (routes / names / exception class) + T3 (order independence)
    outcomes = []
    base = None
    for o in orders:
        b, out = build_outcome(spec, o)
        outcomes.append((o, b, out))
        if o == ident:
            base = b
        q = q_app(spec, o)
        Q.append((q, out, 'build', {'spec': spec, 'order': o}))
        ctx.case({'spec': spec, 'order': o, 'op': 'build'}, nontrivial)
        ctx.hit('build:' + ('ok' if 'routes' in out else next(iter(out.values()))))
    check_orders(ctx, spec, outcomes)
    if base is None or base.error:
        # still a T3 item: a rejected application must have a reason the property allows
        return
    msgnames = [(fid_, nm) for fid_, nm, _, _, _ in base.names()]
    names = routing_names(spec, msgnames)
    tab = expected_table(spec, names)
    info = spec_info(spec)

    # T3: the name the user declared is the name the method carries
    for s in spec['services']:
        for m in s['methods']:
            dn = declared_name(m)
            got = dict(msgnames).get(m['fid'])
            if dn is not None and got != dn:
                ctx.finding('public-name', 'method declared as %r is registered as %r' % (dn, got), {'spec': spec, 'order': ident, 'fid': m['fid']})
    # T3: two primaries answering to one name must not be accepted
    for name, (p, a) in tab.items():
        if len(p) > 1:
            ctx.hit('t3-fail:dup-accepted')
            ctx.finding('dup-name-accepted', 'functions %r all answer to %r and the application was accepted' % (p, name),
                        {'spec': spec, 'order': ident, 'name': name})
    if amb and Built(spec, ident, 'http').error is None:
        ctx.hit('ambiguous-patterns')
        ctx.finding('http-pattern-ambiguous', 'patterns of functions %r and %r share address %r with overlapping verbs and '
                    'the transport accepted them' % tuple(amb[0]),
                    {'spec': spec, 'order': ident, 'proto': 'http', 'request': ['http', 'GET', amb[0][2]]})

    # ---- requests in every protocol's way of naming the method (base order; two more orders through NullServer)
    budget = 28 if ctx.thorough else (16 if not directed else 24)
    protos = ['null', 'json', 'yaml', 'msgpack', 'msgpackrpc', 'xml', 'soap11', 'soap12', 'http']
    for proto in protos:
        use_orders = [ident]
        if proto in ('null', 'http') and len(orders) > 1:
            use_orders = [ident, orders[-1]] if proto == 'http' else [ident, orders[-1], orders[len(orders) // 2]]
        reqs = requests_for(ctx, spec, names, proto, budget)
        for o in use_orders:
            b = base if (proto == 'null' and o == ident) else Built(spec, o, proto)
            if b.error:
                if o == ident:      # (another order being refused is reported by check_orders)
                    ctx.finding('proto-build:%s' % proto, 'application accepted with default protocols is refused with %s: %r' % (proto, b.error),
                                {'spec': spec, 'order': o, 'proto': proto})
                continue
            impl = []
            for r in reqs:
                resp, status = b.request(r)
                impl.append(resp)
                ctx.case({'spec': spec, 'order': o, 'proto': proto, 'req': r}, nontrivial)
                ctx.hit('proto:' + proto)
                ctx.hit('resp:' + (resp if isinstance(resp, str) else next(iter(resp))))
                ctx.cov['traces_validated_against_impl'] += 1
                oracle(ctx, spec, o, proto, r, resp, status, tab, amb)
            failing = set(n_ for f_, n_ in names if info[f_]['m'].get('raises'))
            skip = [i for i, r in enumerate(reqs) if (amb and r[0] == 'http') or r[0] in ('rawkey', 'rawtag', 'pkey')
                    or (r[0] != 'keys' and named_by(tab, spec['tns'], r) in failing)]
            raising = set(f_ for f_, i_ in info.items() if i_['m'].get('raises'))
            skip += [i for i, a in enumerate(impl) if isinstance(a, dict) and (a.get('other') or {}).get('calls')
                     and set(a['other']['calls']) <= raising]      # reached through an HttpPattern
            Q.append((q_app(spec, o, reqs), impl, 'serve', {'spec': spec, 'order': o, 'proto': proto, 'reqs': reqs, 'skip': skip}))


def check_orders(ctx, spec, outcomes):
    """T3: acceptance, the primary function of every key and its auxiliaries do not depend on the listing order"""
    o0, b0, out0 = outcomes[0]
    acc0 = 'routes' in out0
    auxof = {f_: i_['aux'] for f_, i_ in spec_info(spec).items()}

    def shape(out):
        # key -> (the primary function or None, the set of auxiliary functions)
        return {uncps(k): (None if auxof.get(v[0]) else v[0], sorted(v[1:] if not auxof.get(v[0]) else v)) for k, v in out['routes']}
    ref = shape(out0) if acc0 else None
    for o, b, out in outcomes[1:]:
        acc = 'routes' in out
        if acc != acc0:
            ctx.hit('t3-fail:order-accept')
            ctx.finding('order-dependence:accept', 'listing order %r is %s, order %r is %s' % (
                o0, 'accepted' if acc0 else 'rejected (%s)' % next(iter(out0.values())),
                o, 'accepted' if acc else 'rejected (%s)' % next(iter(out.values()))),
                {'spec': spec, 'order': o0, 'other_order': o})
            continue
        if acc:
            cur = shape(out)
            if cur != ref:
                ctx.hit('t3-fail:order-route')
                diff = [k for k in set(cur) | set(ref) if cur.get(k) != ref.get(k)]
                ctx.finding('order-dependence:route', 'key %r runs %r in order %r but %r in order %r' % (
                    diff[0], ref.get(diff[0]), o0, cur.get(diff[0]), o), {'spec': spec, 'order': o0, 'other_order': o, 'key': diff[0]})


_DECL_CACHE = {}


def declared_patterns(spec, names):
    """the HttpPatterns the user attached to primary methods, compiled by HttpPattern itself but collected
    from the declaration (not from the transport's own list)"""
    key = id(spec)
    if key not in _DECL_CACHE:
        from spyne.protocol.http import HttpPattern
        if len(_DECL_CACHE) > 64:
            _DECL_CACHE.clear()
        nm = dict(names)
        res = []
        for s in spec['services']:
            for m in s['methods']:
                if s['aux'] or m.get('auxown'):
                    continue
                for v, addr in m.get('patterns') or []:
                    # a pattern without an address answers to the public name of its method
                    res.append((HttpPattern(addr if addr is not None else nm.get(m['fid']), verb=None if v is None else '|'.join(v)),
                                m['fid'], nm.get(m['fid'])))
        _DECL_CACHE[key] = (spec, res)
    return _DECL_CACHE[key][1]


def own_address_re(address):
    """the documented meaning of an HttpPattern address, compiled by the harness itself (not by spyne): '<name>' and
    '{name}' stand for ONE path fragment (no '/'), everything else is literal text"""
    if not address.startswith('/'):
        address = '/' + address
    out, i = [], 0
    for m in re.finditer(r'<[A-Za-z0-9_]+>|\{[A-Za-z0-9_]+\}', address):
        out.append(re.escape(address[i:m.start()]))
        out.append('[^/]*')
        i = m.end()
    out.append(re.escape(address[i:]))
    return re.compile(''.join(out))


def pattern_expected(spec, names, r):
    """for an HTTP request: (address, fid, public name) of the declared patterns that match verb and path completely"""
    verb, path = r[1], r[2]
    if not path.startswith('/'):
        path = '/' + path
    res = []
    for p, fid, name in declared_patterns(spec, names):
        # spyne's notion of "matches": re.match and the match spans the whole string (for 'GET|GETX' this is
        # not re.fullmatch: the leftmost alternative wins); the oracle takes the pattern objects' own regexes
        if p.verb is not None:
            m = p.verb_re.match(verb)
            if m is None or m.span() != (0, len(verb)):
                continue
        if own_address_re(p.address).fullmatch(path) is None:
            continue
        res.append((p.address, fid, name))
    return res


def oracle(ctx, spec, order, proto, r, resp, status, tab, amb):
    """T3: the property on the real code for one request"""
    tns = spec['tns']
    rep = {'spec': spec, 'order': order, 'proto': proto, 'request': [list(x) if isinstance(x, tuple) else x for x in r],
           'got': resp, 'status': status}
    if r[0] == 'soap':
        # only the first child of the Envelope's own Body names the method; header content never does
        ctx.hit('t3:soap-envelope')
        named = soap_named(r, tns)
        if named is None:
            if resp not in ('Client.fault', 'Client.ResourceNotFound'):
                ctx.hit('t3-fail:soap')
                ctx.finding('soap-envelope:no-body-ran', '%s envelope without a Body child of its own was answered with %r' % (proto, resp), rep)
            return
        r = ('tag', named[0], named[1])
    if r[0] == 'pkey':
        # a member method without the instance it is to run on: nothing may run (spyne answers not-found for the instance)
        ctx.hit('t3:member-without-instance')
        if resp not in ('Client.ResourceNotFound', 'Client.fault'):
            ctx.finding('member-without-instance', 'json request naming the member method %r without an instance was answered with %r' % (r[1], resp), rep)
        return
    if r[0] == 'keys':
        # a dict document with no key or several keys names no method (or several): nothing may run
        ctx.hit('t3:doc-keys:%d' % len(r[1]))
        if len(r[1]) != 1 and not (resp in ('Client.fault', 'Client.ResourceNotFound')):
            ctx.hit('t3-fail:doc-keys')
            ctx.finding('doc-keys:%s' % ('ran' if isinstance(resp, dict) and (resp.get('ran') or (resp.get('other') or {}).get('calls')) else 'no-client-fault'),
                        '%s document with the keys %r was answered with %r' % (proto, list(r[1]), resp), rep)
        return
    if r[0] in ('rpcb', 'keyb', 'rawkey', 'rawtag'):
        # the name travels as bytes: only the exact UTF-8 encoding of a registered name may run anything
        bs = r[1] if r[0] != 'rawtag' else r[2]
        ctx.hit('t3:bytes:' + r[0])
        text = strict_text(bs)
        spyne_decodes = r[0] in ('rpcb', 'keyb')
        if text is not None and text in tab and (spyne_decodes or xml_safe(text)):
            r = ('key', text)          # judged like the text form below
        elif text is not None and text in tab:
            return                     # a registered name the third-party parser may or may not accept in this position
        else:
            if spyne_decodes:
                # spyne itself turns the bytes into the name: undecodable -> a client fault, decodable -> not found
                ok = resp == 'Client.ResourceNotFound' if text is not None else resp in ('Client.ResourceNotFound', 'Client.fault')
            else:
                # the body as a whole goes through lxml / json / PyYAML (and a charset decoder); how a body that
                # cannot be decoded is answered is C10's question -- here only: no user function may run
                ok = not (isinstance(resp, dict) and (resp.get('ran') or resp.get('calls') or (resp.get('other') or {}).get('calls')))
            if not ok:
                ctx.hit('t3-fail:bytes')
                ran = resp.get('ran') if isinstance(resp, dict) else None
                ctx.finding('byte-name:%s' % ('ran' if ran else 'no-client-fault'),
                            '%s request whose method name is the byte string %r (%s) %s' % (
                                proto, bytes(bs), 'not valid UTF-8' if text is None else 'UTF-8 of the unregistered %r' % text,
                                'ran functions %r' % ran if ran else 'was answered with %r' % (resp,)), rep)
            return
    if r[0] == 'http':
        # the transport decides first whether this is a request for the interface document: a GET whose query string's
        # first name is 'wsdl' or whose path has the '.wsdl' extension (spyne/server/wsgi.py, is_wsdl_request)
        q = r[3] if len(r) > 3 else ''
        genuine = r[1].upper() == 'GET' and (q.split('=')[0].lower() == 'wsdl' or r[2].endswith('.wsdl'))
        ran = resp.get('ran') if isinstance(resp, dict) else None
        if genuine:
            ctx.hit('t3:wsdl-request')
            if ran:
                ctx.finding('wsdl-request:ran', 'the WSDL request %r ran functions %r' % (list(r), ran), rep)
            return
        if resp == 'wsdl':
            ctx.hit('t3-fail:wsdl-shadow')
            ctx.finding('rpc-shadowed-by-wsdl', "http request %r is not a request for the interface document (no 'wsdl' query, no "
                        "'.wsdl' extension) but was answered with the WSDL; the method it names never ran / no not-found fault" % (list(r),), rep)
            return
    name = expected_for(tab, tns, r)
    if r[0] == 'http':
        # an HttpPattern may name the method instead of the last path segment
        hits = pattern_expected(spec, [(f_, n_) for n_, (pp, aa) in tab.items() for f_ in pp + aa], r)
        if hits:
            fids = set(h[1] for h in hits)
            if len(fids) > 1:
                top = max(h[0] for h in hits)
                tops = set(h[1] for h in hits if h[0] == top)
                if len(tops) > 1:
                    ctx.hit('http-ambiguous-request')
                    return                     # reported structurally (http-pattern-ambiguous)
                name = [h[2] for h in hits if h[0] == top][0]
            else:
                name = hits[0][2]
            ctx.hit('http-by-pattern')
    if name is None:
        ctx.hit('t3:unregistered')
        if resp != 'Client.ResourceNotFound':
            ctx.hit('t3-fail:unregistered')
            ran = resp.get('ran') if isinstance(resp, dict) else None
            ctx.finding('unregistered-name:%s' % ('ran' if ran else 'no-notfound-fault'),
                        '%s request %r names nothing that is registered, yet %s' % (proto, list(r), 'functions %r ran' % ran if ran else 'the answer was %r' % (resp,)), rep)
        return
    p, a = tab[name]
    if len(p) > 1:
        return      # reported as dup-name-accepted
    ctx.hit('t3:registered')
    ran = resp.get('ran') if isinstance(resp, dict) else None
    fails = [f_ for f_ in p if spec_info(spec)[f_]['m'].get('raises')]
    if fails:
        # the primary function fails after it was entered: it ran once, nothing else ran (auxiliaries are skipped)
        ctx.hit('t3:failing-primary')
        got = (resp.get('other') or {}) if isinstance(resp, dict) else {}
        if got.get('calls') != p or not got.get('faults'):
            ctx.hit('t3-fail:failing-primary')
            ctx.finding('failing-primary:wrong-run', '%s request %r names %r whose function %r raises: expected exactly that one call and a '
                        'fault, got %r' % (proto, list(r), name, p, resp), rep)
        return
    ok = ran is not None and sorted(ran) == sorted(p + a) and (not p or ran[0] == p[0]) and len(set(ran)) == len(ran)
    if not ok:
        ctx.hit('t3-fail:registered')
        ctx.finding('registered-name:wrong-run', '%s request %r names %r (primary %r, auxiliaries %r) but the outcome was %r' % (
            proto, list(r), name, p, a, resp), rep)


def address_cases(ctx, Q):
    """T2 for the address / verb matchers alone, against HttpPattern's own compiled regular expressions"""
    from spyne.protocol.http import HttpPattern
    rng = ctx.rng
    addrs = ['/a', '/a/b', '/a/<x>', '/a/{x}', '/<x>', '<x>', '/a<x>b', '/<x>/<y>', '/a/<x>/c', '/<x>b', '/{x}-{y}', 'rel/<x>',
             '/a/<x', '/a/x>', '/<x>/', '/', '/a//b', '/<x><y>']
    for _ in range(400 if ctx.thorough else 60):
        addrs.append(gen_address(rng, []))
    for addr in dict.fromkeys(addrs):
        try:
            p = HttpPattern(addr)
        except Exception as e:
            ctx.hit('addr-compile-error:' + type(e).__name__)
            continue
        paths = [fill(rng, addr), fill(rng, addr), fill(rng, addr, True), fill(rng, addr, True), fill(rng, addr, True),
                 addr, '/', '', '/a/b/c', '/a/', '/a']
        for path in dict.fromkeys(paths):
            pp = path if path.startswith('/') else '/' + path
            m = p.address_re.match(pp)
            impl = {'ok': m is not None and m.span() == (0, len(pp))}
            Q.append(({'op': 'addr', 'addr': cps(addr), 'path': cps(path)}, impl, 'addr', {'addr': addr, 'path': path}))
            ctx.case({'op': 'addr', 'addr': addr, 'path': path})
            ctx.hit('addr:' + str(impl['ok']))
    # strict UTF-8 decoding of names (T2 against CPython's codec, which spyne's msgpack protocols use)
    samples = []
    for w in WORDS + ['é', '€uro', 'naïve', '😀x', 'fоo', '\ud7ff', '\ue000', '\U0010ffff', '\x7f\x80']:
        samples += [w.encode('utf8')] + byte_near_misses(w)
    for lead in (0xC0, 0xC1, 0xC2, 0xDF, 0xE0, 0xE1, 0xEC, 0xED, 0xEE, 0xEF, 0xF0, 0xF1, 0xF3, 0xF4, 0xF5, 0xF7, 0xFF, 0x80, 0xBF):
        for tail in (b'', b'\x80', b'\xbf', b'\x7f', b'\xc0', b'\x80\x80', b'\xa0\x80', b'\x9f\xbf', b'\x90\x80\x80',
                     b'\x8f\xbf\xbf', b'\x80\x80\x80', b'\xbf\xbf\xbf', b'\x90\x80', b'\x80\x80\x80\x80'):
            samples.append(bytes([lead]) + tail)
            samples.append(b'a' + bytes([lead]) + tail + b'z')
    for _ in range(2000 if ctx.thorough else 300):
        samples.append(bytes(rng.choice([rng.randrange(256), rng.randrange(0x80, 0x100), rng.randrange(0xC0, 0xF8)])
                             for _ in range(rng.randrange(1, 6))))
    for bs in dict.fromkeys(samples):
        t = strict_text(bs)
        Q.append(({'op': 'utf8', 'b': list(bs)}, {'ok': None if t is None else cps(t)}, 'utf8', {'bytes': list(bs)}))
        ctx.case({'op': 'utf8', 'b': list(bs)})
        ctx.hit('utf8:' + ('ok' if t is not None else 'reject'))
    # the WSDL-or-RPC decision alone (T2 against WsgiApplication.is_wsdl_request)
    bw = Built(W_PLAIN, [0], 'http')
    for v_ in WSDL_VERB_PROBES:
        for p_ in WSDL_PATH_PROBES + ['/' + w + x for w in WORDS[:2] for x in ('', 'wsdl', '.wsdl', '.wsdl.', 'WSDL')]:
            for q_ in (WSDL_QUERY_PROBES if v_ in ('GET', 'get', 'HEAD') else ['', 'wsdl']):
                impl = {'ok': bool(bw.server.is_wsdl_request({'REQUEST_METHOD': v_, 'PATH_INFO': p_, 'QUERY_STRING': q_}))}
                Q.append(({'op': 'iswsdl', 'verb': cps(v_), 'path': cps(p_), 'query': cps(q_)}, impl, 'iswsdl', {'verb': v_, 'path': p_, 'query': q_}))
                ctx.case({'op': 'iswsdl', 'v': v_, 'p': p_, 'q': q_})
                ctx.hit('iswsdl:' + str(impl['ok']))
    for alts in [a for a in VERBS if a] + [['A', 'AB', 'ABC'], ['ABC', 'AB', 'A'], ['GET']]:
        rx = re.compile('|'.join(alts))
        for verb in ['GET', 'POST', 'GETX', 'GE', '', 'DELETE', 'PUT', 'get', 'A', 'AB', 'ABC', 'ABCD', 'XGET']:
            m = rx.match(verb)
            impl = {'ok': m is not None and m.span() == (0, len(verb))}
            Q.append(({'op': 'verb', 'alts': [cps(a) for a in alts], 'verb': cps(verb)}, impl, 'verb', {'alts': alts, 'verb': verb}))
            ctx.case({'op': 'verb', 'alts': alts, 'verb': verb})


def compare(ctx, op, q, impl, mod, meta):
    if op in ('addr', 'verb', 'utf8', 'iswsdl'):
        if impl != mod:
            ctx.disagree(('http.' if op != 'utf8' else 'naming.') + op, meta, impl, mod)
        return
    if op == 'build':
        if 'routes' in impl:
            m = {'routes': mod.get('routes'), 'names': mod.get('names')} if 'routes' in mod else mod
            if m != impl:
                ctx.disagree('interface.build', meta, show_build(impl), show_build(m))
        else:
            m = {k: v for k, v in mod.items() if k.endswith('_error')}
            if m != impl:
                ctx.disagree('interface.build', meta, impl, show_build(mod))
        return
    # serve
    if 'resp' not in mod:
        ctx.disagree('dispatch', dict(meta, reqs=len(meta['reqs'])), 'accepted', show_build(mod))
        return
    for i, (r, a, b) in enumerate(zip(meta['reqs'], impl, mod['resp'])):
        if i in meta['skip']:
            ctx.hit('t2-skipped:' + ('third-party-parser' if r[0].startswith('raw') else 'ambiguous-patterns-or-failing-function'))
            continue
        if a != b:
            ctx.disagree('dispatch:' + meta['proto'], {'spec': meta['spec'], 'order': meta['order'], 'proto': meta['proto'], 'request': list(r)}, a, b)


def show_build(o):
    if isinstance(o, dict) and o.get('routes') is not None:
        return {'routes': [[uncps(k), v] for k, v in o['routes']],
                'names': [[x[0]] + [uncps(y) for y in x[1:]] for x in (o.get('names') or [])]}
    return o


# ------------------------------------------------------------------------------------ replay
def replay(ctx, obj):
    """re-execute a single recorded case on the implementation and on the model"""
    logging.disable(logging.CRITICAL)
    print('replay of:', obj.get('what'))
    if obj.get('op') == 'protocol-reuse':
        refused, got = protocol_reuse(obj['proto'], obj['tns2'], obj['name2'], obj['slot'])
        print('second Application(...) with the shared %s-protocol: %s' % (obj['slot'], 'refused with ' + refused if refused else 'ACCEPTED'))
        print('requests to the first application (ping, both registered there; wipe only in the second):', got)
        return 0
    spec = obj.get('spec') or (obj.get('query') or {}).get('spec')
    if not spec:
        for d in obj.get('disagreements') or []:
            print('disagreement', d.get('op'), '\n  query:', d.get('query'), '\n  impl :', d.get('impl'), '\n  model:', d.get('model'))
        print('broken theorems:', obj.get('broken_theorems'))
        return 0
    rc = 0
    for key in ('order', 'other_order'):
        o = obj.get(key)
        if o is None:
            continue
        b, out = build_outcome(spec, o)
        mod = ctx.model([q_app(spec, o)])[0]
        print('listing order %r:' % (o,))
        print('  impl  construction:', show_build(out))
        print('  model construction:', show_build({k: v for k, v in mod.items() if k in ('routes', 'names') or k.endswith('_error')}))
    r = obj.get('request')
    if r is not None and obj.get('order') is not None:
        proto = obj.get('proto', 'null')
        b = Built(spec, obj['order'], proto)
        if b.error:
            print('  impl: %s refused: %r' % (proto, b.error))
        else:
            resp, status = b.request(tuple(r))
            mod = ctx.model([q_app(spec, obj['order'], [tuple(r)])])[0]
            print('request %r via %s:' % (r, proto))
            print('  impl :', resp, status)
            print('  model:', (mod.get('resp') or [mod])[0])
    return rc
