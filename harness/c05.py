"""C05 — runs the available codec-block parts (XML side: harness/xmlblock.py, dict-document side: harness/hierblock.py).

Each block contributes T1 facts (`t1`), Props/C05_<block>.lean theorems (built by ctx.prove) and T2/T3 (`part_c05`)."""
from . import core


def _blocks():
    mods = []
    try:
        from . import xmlblock
        mods.append(xmlblock)
    except ImportError:
        pass
    try:
        from . import hierblock
        mods.append(hierblock)
    except ImportError:
        pass
    try:
        from . import c03                # HttpRpc flat decoder: Props/C05_flat.lean, part_c05
        mods.append(c03)
    except ImportError:
        pass
    return mods


def run(ctx):
    from . import c08
    c08.refresh_facts(ctx)      # leaf switches -> Generated/Facts08.lean (Props import Facts08Good)
    mods = _blocks()
    for m in mods:
        if hasattr(m, 't1'):
            m.t1(ctx)
    ctx.prove()
    for m in mods:
        f = getattr(m, 'part_c05', None)
        if f is not None:
            f(ctx)


def replay(ctx, obj):
    for m in _blocks():
        if obj.get('kind', '').startswith(getattr(m, 'REPLAY_PREFIX', '\x00')) or hasattr(m, 'replay'):
            try:
                return m.replay(ctx, obj)
            except core.Infra:
                raise
            except KeyError:
                continue
    raise core.Infra('no block can replay %r' % obj.get('kind'))
