"""Core of the verification harness: Lean build/audit, model driver, evidence, verdict.

Every property module `harness/cXX.py` exposes `run(ctx)`; `ctx` is a `Ctx`.
Layers (DESIGN.md §0):  T1 facts -> Generated/*.lean ; proof = lake build Props.Cxx + axiom audit ;
T2 = model-vs-implementation differential ; T3 = property oracle on the implementation.
"""
import hashlib, json, os, random, re, subprocess, sys, time, traceback

VERIF = os.path.dirname(os.path.dirname(os.path.abspath(__file__)))
LEAN = os.path.join(VERIF, 'lean')
REPO = os.environ.get('SPYNE_REPO') or '/repo'
EVID = os.path.join(VERIF, 'evidence')
REPLAYS = os.path.join(EVID, 'replays')
ALLOWED_AXIOMS = {'propext', 'Quot.sound', 'Classical.choice'}
FORBIDDEN = re.compile(r'\b(sorry|admit|native_decide|bv_decide|implemented_by)\b|^\s*axiom\s|\bunsafe\s|maxHeartbeats\s+0\b', re.M)

TRUSTED_BASE = [
    'Lean 4.33.0 kernel (lake build; thorough tier: leanchecker re-check)',
    'axioms allowed: propext, Quot.sound, Classical.choice; no sorry/admit/native_decide/bv_decide/own axioms (audited every run)',
    'hand-written Lean model of the anchored spyne code, tied to /repo by T1 facts (regenerated every run), '
    'T2 differential execution and T3 direct oracle (tests, bounded by the counts below)',
    'harness (generators, canonicalisers, facts probes); CPython, lxml, pytz and other third-party libraries as oracles',
]


class Infra(Exception):
    """Infrastructure failure (exit 2, never a violation)."""


def sh(cmd, cwd=None, timeout=3600, env=None, input=None):
    p = subprocess.run(cmd, cwd=cwd, shell=isinstance(cmd, str), stdout=subprocess.PIPE,
                       stderr=subprocess.STDOUT, text=True, timeout=timeout, env=env, input=input)
    return p.returncode, p.stdout


def strip_lean_comments(src):
    # remove nested block comments and line comments
    out, i, depth = [], 0, 0
    while i < len(src):
        if src.startswith('/-', i):
            depth += 1; i += 2; continue
        if depth and src.startswith('-/', i):
            depth -= 1; i += 2; continue
        if depth:
            i += 1; continue
        if src.startswith('--', i):
            j = src.find('\n', i)
            i = len(src) if j < 0 else j
            continue
        out.append(src[i]); i += 1
    return ''.join(out)


def canon(obj):
    return json.dumps(obj, sort_keys=True, ensure_ascii=True, separators=(',', ':'), default=str)


class Ctx:
    def __init__(self, prop, tier, seed, replay=None):
        self.prop, self.tier, self.seed, self.replay = prop, tier, seed, replay
        self.rng = random.Random('%s:%s' % (prop, seed))
        self.t0 = time.time()
        self.num = prop[1:]
        self.violations = []        # (replay_path, no_input, summary)
        self.known = []             # KNOWN-FINDING lines
        self.cov = {'evaluations': 0, 'traces_validated_against_impl': 0}
        self._distinct = set()
        self.samples = []
        self.dist = {}
        self.assumptions = []
        self.proof = {'obligations': 0, 'discharged': 0, 'theorems': [], 'failed': [], 'axioms': {}}
        self.proof_broken = []      # names of theorems/obligations that no longer check
        self.corr_broken = []       # names of correspondence ops with disagreements
        self.found_input = False
        kf = os.path.join(VERIF, 'known_findings.json')
        self.known_findings = [k for k in json.load(open(kf)) if k.get('property') == prop] if os.path.exists(kf) else []
        self.thorough = tier == 'thorough'

    # ---------------------------------------------------------------- bookkeeping
    def hit(self, key, n=1):
        self.dist[key] = self.dist.get(key, 0) + n

    def case(self, obj, nontrivial=True):
        """count one evaluated case; `obj` is its canonical description"""
        self.cov['evaluations'] += 1
        if nontrivial:
            self._distinct.add(hashlib.sha1(canon(obj).encode()).digest()[:8])
        if len(self.samples) < 12 and self.rng.random() < 0.02 or len(self.samples) < 3:
            self.samples.append(obj)

    def log(self, *a):
        print('[%s %6.1fs]' % (self.prop, time.time() - self.t0), *a, flush=True)

    # ---------------------------------------------------------------- T1
    def write_generated(self, name, text):
        path = os.path.join(LEAN, 'SpyneModel', 'Generated', name)
        old = open(path).read() if os.path.exists(path) else None
        if old != text:
            tmp = path + '.tmp%d' % os.getpid()
            open(tmp, 'w').write(text)
            os.replace(tmp, path)
            self.log('T1: regenerated', name)
        return old != text

    # ---------------------------------------------------------------- proof
    def lean_files(self, roots=None):
        """the project files in the import closure of `roots` (module names); all files if None"""
        if roots is None:
            res = []
            for d in ('SpyneModel', 'Proofs', 'Props'):
                for root, _, files in os.walk(os.path.join(LEAN, d)):
                    res += [os.path.join(root, f) for f in files if f.endswith('.lean')]
            return sorted(res)
        seen, todo = set(), list(roots)
        while todo:
            m = todo.pop()
            path = os.path.join(LEAN, m.replace('.', '/') + '.lean')
            if m in seen or not os.path.exists(path):
                continue
            seen.add(m)
            for imp in re.findall(r'^\s*import\s+([A-Za-z0-9_\.]+)', open(path).read(), re.M):
                if imp.split('.')[0] in ('SpyneModel', 'Proofs', 'Props', 'Driver'):
                    todo.append(imp)
        return sorted(os.path.join(LEAN, m.replace('.', '/') + '.lean') for m in seen)

    def prove(self, extra_targets=()):
        """lake build Props.Cxx, audit axioms of every theorem in Props/Cxx.lean."""
        prop = self.prop
        # Props/Cxx.lean plus optional continuation files Props/Cxx_<part>.lean
        import glob
        props_files = sorted(glob.glob(os.path.join(LEAN, 'Props', prop + '.lean')) +
                             glob.glob(os.path.join(LEAN, 'Props', prop + '_*.lean')))
        props_file = props_files[0]
        mods = ['Props.' + os.path.basename(f)[:-5] for f in props_files]
        full, thms = [], []
        for pf in props_files:
            src = strip_lean_comments(open(pf).read())
            th = re.findall(r'^\s*theorem\s+([A-Za-z0-9_\.\']+)', src, re.M)
            # theorems are declared inside `namespace SpyneModel.Props.Cxx`
            ns = re.search(r'^namespace\s+(\S+)', src, re.M)
            full += [(ns.group(1) + '.' + t) if ns else t for t in th]
            thms += th
        self.proof['theorems'] = full
        self.proof['obligations'] = len(full)
        # forbidden tokens anywhere in the model/proof sources
        for f in self.lean_files(mods + ['Driver.' + prop]):
            body = strip_lean_comments(open(f).read())
            m = FORBIDDEN.search(body)
            if m:
                self.proof_broken.append('forbidden-token:%s:%s' % (os.path.relpath(f, LEAN), m.group(0).strip()))
        if self.thorough:
            # clean re-elaboration of this property's modules
            for m in mods:
                for ext in ('olean', 'ilean', 'trace', 'hash', 'olean.hash', 'olean.trace'):
                    p = os.path.join(LEAN, '.lake/build/lib/lean', m.replace('.', '/') + '.' + ext)
                    if os.path.exists(p):
                        os.unlink(p)
        targets = mods + ['Driver.' + prop] + list(extra_targets)
        t = time.time()
        rc, out = sh(['lake', 'build'] + targets, cwd=LEAN, timeout=3000)
        self.log('lake build %s: rc=%d (%.1fs)' % (' '.join(targets), rc, time.time() - t))
        self.proof['checker_cmd'] = 'cd lean && lake build %s && lake env lean Audit/%s.lean' % (' '.join(targets), prop)
        if rc != 0:
            if 'Props/%s.lean' % prop not in out and 'Generated' not in out and 'error:' not in out:
                raise Infra('lake build failed without a Lean error:\n' + out[-3000:])
            failed = []
            for pf in props_files:
                failed += [x for x in self._failed_theorems(out, pf) if x not in failed]
            if len(failed) > 1 and ('build:Props.' + prop) in failed:
                failed.remove('build:Props.' + prop)
            self.proof['failed'] = failed
            self.proof['build_log_tail'] = out[-4000:]
            self.proof_broken += [f for f in failed]
            self.proof['discharged'] = max(0, len(full) - max(1, len(failed)))
            self.log('PROOF BROKEN:', failed)
            return False
        # axiom audit
        audit = os.path.join(LEAN, 'Audit', prop + '.lean')
        text = '-- GENERATED: axiom audit for Props/%s*.lean\n' % prop + ''.join('import %s\n' % m for m in mods) + \
            ''.join('#print axioms %s\n' % t for t in full)
        if not os.path.exists(audit) or open(audit).read() != text:
            open(audit, 'w').write(text)
        rc, out = sh(['lake', 'env', 'lean', 'Audit/%s.lean' % prop], cwd=LEAN, timeout=1200)
        if rc != 0:
            self.proof_broken.append('audit-failed')
            self.proof['build_log_tail'] = out[-3000:]
            return False
        ok = 0
        flat = out.replace('\n', ' ')
        for t in full:
            m = re.search(r"'%s' (does not depend on any axioms|depends on axioms: \[([^\]]*)\])" % re.escape(t), flat)
            if not m:
                self.proof_broken.append('audit-missing:' + t); continue
            axs = [a.strip() for a in (m.group(2) or '').split(',') if a.strip()]
            self.proof['axioms'][t] = axs
            bad = [a for a in axs if a not in ALLOWED_AXIOMS]
            if bad:
                self.proof_broken.append('axiom:%s:%s' % (t, ','.join(bad)))
            else:
                ok += 1
        self.proof['discharged'] = ok
        if self.thorough:
            t = time.time()
            rc, out = sh(['lake', 'env', 'leanchecker'] + mods, cwd=LEAN, timeout=3000)
            self.proof['leanchecker'] = 'rc=%d %.0fs' % (rc, time.time() - t)
            self.proof['checker_cmd'] += ' && lake env leanchecker Props.%s' % prop
            if rc != 0:
                self.proof_broken.append('leanchecker:' + out[-500:])
        return not self.proof_broken

    def _failed_theorems(self, out, props_file):
        failed = []
        lines = open(props_file).read().split('\n')
        starts = [(i + 1, m.group(1)) for i, l in enumerate(lines)
                  for m in [re.match(r'\s*theorem\s+([A-Za-z0-9_\.\']+)', l)] if m]
        for m in re.finditer(r'error: (\S+?\.lean):(\d+):(\d+)', out):
            f, ln = m.group(1), int(m.group(2))
            if f.endswith('Props/' + os.path.basename(props_file)):
                name = None
                for s, n in starts:
                    if s <= ln:
                        name = n
                if name and name not in failed:
                    failed.append(name)
            else:
                tag = 'file:' + f
                if tag not in failed:
                    failed.append(tag)
        return failed or ['build:Props.' + self.prop]

    # ---------------------------------------------------------------- model driver (T2)
    def model(self, queries, driver=None):
        """run the Lean model on a list of JSON queries, return list of JSON answers"""
        if not queries:
            return []
        driver = driver or self.prop
        data = '\n'.join(json.dumps(q, separators=(',', ':')) for q in queries) + '\n'
        n = len(queries)
        nproc = min(os.cpu_count() or 4, 1 + n // 4000)
        chunks = [queries[i::nproc] for i in range(nproc)]
        procs = []
        for ch in chunks:
            p = subprocess.Popen(['lake', 'env', 'lean', '--run', 'Driver/%s.lean' % driver], cwd=LEAN,
                                 stdin=subprocess.PIPE, stdout=subprocess.PIPE, stderr=subprocess.PIPE, text=True)
            procs.append((p, ch))
        import threading
        results = [None] * nproc

        def feed(i, p, ch):
            out, err = p.communicate('\n'.join(json.dumps(q, separators=(',', ':')) for q in ch) + '\n')
            results[i] = (p.returncode, out, err)
        ths = [threading.Thread(target=feed, args=(i, p, ch)) for i, (p, ch) in enumerate(procs)]
        [t.start() for t in ths]; [t.join() for t in ths]
        answers = [None] * n
        for i, (rc, out, err) in enumerate(results):
            lines = [l for l in out.split('\n') if l.strip()]
            if rc != 0 or len(lines) != len(chunks[i]):
                raise Infra('model driver failed rc=%s, %d answers for %d queries\n%s' % (rc, len(lines), len(chunks[i]), err[-2000:]))
            for k, l in enumerate(lines):
                answers[i + k * nproc] = json.loads(l)
        return answers

    # ---------------------------------------------------------------- verdicts
    def known_match(self, fid):
        for k in self.known_findings:
            if k.get('id') == fid and k.get('status') == 'known':
                return k
        return None

    def finding(self, fid, what, replay_obj):
        """report a concrete failure of the property on the implementation: a known finding or a violation"""
        self._finding_counts = getattr(self, '_finding_counts', {})
        self._finding_counts[fid] = self._finding_counts.get(fid, 0) + 1
        k = self.known_match(fid)
        if k:
            line = 'KNOWN-FINDING: property=%s %s: %s' % (self.prop, fid, k.get('what', what))
            if line not in self.known:
                self.known.append(line)
            return False
        self.found_input = True
        if self._finding_counts[fid] > 1:
            return True     # one replay (the first instance) per finding id; the rest are counted
        self.violation(dict(replay_obj, finding_id=fid, what=what), found_input=True)
        return True

    def disagree(self, op, query, impl, model):
        """T2: model and implementation differ on `query` (not by itself a violation of the property)"""
        tag = 'corr:' + op
        if tag not in self.corr_broken:
            self.corr_broken.append(tag)
        self.hit('t2-disagree:' + op)
        self.cov['t2_disagreements'] = self.cov.get('t2_disagreements', 0) + 1
        self._disagreements = getattr(self, '_disagreements', [])
        if len(self._disagreements) < 8:
            self._disagreements.append({'op': op, 'query': query, 'impl': impl, 'model': model})
            self.log('T2 disagreement', op, str(query)[:200], 'impl=', str(impl)[:200], 'model=', str(model)[:200])

    def violation(self, replay_obj, found_input):
        os.makedirs(REPLAYS, exist_ok=True)
        replay_obj = dict(replay_obj, property=self.prop, seed=self.seed, tier=self.tier,
                          replay_cmd='./check %s --replay <this file>' % self.prop)
        h = hashlib.sha1(canon(replay_obj).encode()).hexdigest()[:8]
        path = os.path.join(REPLAYS, '%s-%s.json' % (self.prop, h))
        json.dump(replay_obj, open(path, 'w'), indent=1, default=str, sort_keys=True)
        rel = os.path.relpath(path, VERIF)
        if len(self.violations) < 25:
            self.violations.append((rel, not found_input, replay_obj.get('what', '')))
        if found_input:
            self.found_input = True

    # ---------------------------------------------------------------- finish
    def finish(self):
        # a broken obligation / correspondence with no concrete failing input found
        if (self.proof_broken or self.corr_broken) and not self.found_input:
            self.violation({'what': 'property no longer shown to hold: a proof obligation or the model/implementation '
                                    'correspondence broke and the failing-input search found no input on which the '
                                    'property fails on the implementation',
                            'broken_theorems': self.proof_broken,
                            'broken_correspondence': self.corr_broken,
                            'disagreements': getattr(self, '_disagreements', []),
                            'build_log_tail': self.proof.get('build_log_tail', '')}, found_input=False)
        elif self.proof_broken or self.corr_broken:
            # concrete failing inputs were found; keep what else broke next to them
            os.makedirs(REPLAYS, exist_ok=True)
            json.dump({'broken_theorems': self.proof_broken, 'broken_correspondence': self.corr_broken,
                       'disagreements': getattr(self, '_disagreements', [])},
                      open(os.path.join(REPLAYS, self.prop + '-also-broken.json'), 'w'), indent=1, default=str)
        wall = time.time() - self.t0
        cov = dict(self.cov)
        cov.update({
            'obligations': self.proof['obligations'], 'discharged': self.proof['discharged'],
            'checker_cmd': self.proof.get('checker_cmd', ''), 'trusted_base': TRUSTED_BASE,
            'theorems': self.proof['theorems'], 'axioms': self.proof['axioms'],
            'distinct_nontrivial': len(self._distinct),
            'samples': self.samples[:12] or ['(no cases)'],
            'distribution': self.dist,
            'proof_broken': self.proof_broken, 'correspondence_broken': self.corr_broken,
            'known_findings_hit': self.known,
            'finding_counts': getattr(self, '_finding_counts', {}),
            'repo_head': sh('git -C %s rev-parse HEAD' % REPO)[1].strip(),
            'repo_dirty_hash': hashlib.sha1(sh('git -C %s diff' % REPO)[1].encode()).hexdigest()[:12],
        })
        if 'leanchecker' in self.proof:
            cov['leanchecker'] = self.proof['leanchecker']
        cov.setdefault('rule', '')
        # keys the evidence schema types: keep them well-typed whatever a part of the harness put there
        for key, typ, alt in (('exhaustive', bool, 'exhaustive_parts'), ('states', int, 'states_note'),
                              ('rule', str, None), ('evaluations', int, None)):
            if key in cov and not isinstance(cov[key], typ):
                if alt:
                    cov[alt] = cov.pop(key)
                else:
                    cov[key] = typ(cov[key]) if typ is not str else json.dumps(cov[key], default=str)
        ev = {'property_id': self.prop, 'tier': self.tier, 'seed': self.seed, 'level': 'proof',
              'coverage': cov, 'assumptions': self.assumptions, 'wall_s': round(wall, 2),
              'violations': len(self.violations)}
        os.makedirs(EVID, exist_ok=True)
        json.dump(ev, open(os.path.join(EVID, self.prop + '.json'), 'w'), indent=1, default=str)
        for l in self.known:
            print(l)
        for rel, noinput, what in self.violations:
            print('VIOLATION property=%s replay=%s%s' % (self.prop, rel, ' no-failing-input-found' if noinput else ''))
        self.log('done: obligations=%d discharged=%d evaluations=%d distinct=%d violations=%d wall=%.1fs' % (
            self.proof['obligations'], self.proof['discharged'], cov['evaluations'], len(self._distinct),
            len(self.violations), wall))
        return 1 if self.violations else 0


def assert_repo():
    import spyne
    p = os.path.realpath(spyne.__file__)
    if not p.startswith(os.path.realpath(REPO) + os.sep):
        raise Infra('spyne is imported from %s, not from %s' % (p, REPO))
